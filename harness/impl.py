"""In-process driver of the implementation under /repo (DESIGN.md Appendix B)."""
from __future__ import annotations

import os
import sys

from .common import REPO, add_repo_to_path

add_repo_to_path()

import logging

logging.disable(logging.CRITICAL)  # the implementation logs through `logging`; keep check output clean


class Conn:
    """Recording connection: what LangServer writes instead of frames."""

    def __init__(self):
        self.out = []

    def send_notification(self, method, params):
        self.out.append(("n", method, params))

    def write_response(self, rid, result):
        self.out.append(("r", rid, result))

    def write_error(self, rid, code, message, data=None):
        self.out.append(("e", rid, code, message))

    def take(self):
        o, self.out = self.out, []
        return o


def make_server(root=None, extra=(), init=True, init_opts=None):
    from fortls.interface import cli
    from fortls.langserver import LangServer

    args = vars(cli("fortls").parse_args(["--disable_autoupdate", "--incremental_sync", *extra]))
    conn = Conn()
    srv = LangServer(conn, args)
    if init:
        params = {"rootPath": root, "initializationOptions": init_opts or {}}
        srv.handle({"jsonrpc": "2.0", "id": 0, "method": "initialize", "params": params})
        srv.handle({"jsonrpc": "2.0", "method": "initialized", "params": {}})
    return srv, conn


def uri(path):
    from fortls.jsonrpc import path_to_uri
    return path_to_uri(path)


def notify(srv, method, params):
    srv.handle({"jsonrpc": "2.0", "method": method, "params": params})


_rid = [100]


def request(srv, conn, method, params):
    _rid[0] += 1
    rid = _rid[0]
    conn.take()
    srv.handle({"jsonrpc": "2.0", "id": rid, "method": method, "params": params})
    out = conn.take()
    for o in out:
        if o[0] in ("r", "e") and o[1] == rid:
            return o, out
    return None, out


def did_open(srv, path, text=None):
    td = {"uri": uri(path)}
    if text is not None:
        td["text"] = text
    notify(srv, "textDocument/didOpen", {"textDocument": td})


def did_change(srv, path, changes, version=None):
    td = {"uri": uri(path)}
    if version is not None:
        td["version"] = version
    notify(srv, "textDocument/didChange", {"textDocument": td, "contentChanges": changes})


def did_save(srv, path):
    notify(srv, "textDocument/didSave", {"textDocument": {"uri": uri(path)}})


def did_close(srv, path):
    notify(srv, "textDocument/didClose", {"textDocument": {"uri": uri(path)}})


def pos_params(path, line, ch, **kw):
    p = {"textDocument": {"uri": uri(path)}, "position": {"line": line, "character": ch}}
    p.update(kw)
    return p
