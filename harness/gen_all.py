"""Regenerate every Gen/*.v from /repo's current working tree (translators)."""
import importlib
import os

TRANSLATORS: list[str] = ["proto", "options", "regex", "calls"]  # module names under harness.translators, each with regenerate()


def regenerate_all():
    changed = []
    for name in TRANSLATORS:
        mod = importlib.import_module("harness.translators.%s" % name)
        if mod.regenerate():
            changed.append(name)
    return changed
