"""Runs one schedule of C15 in a subprocess (own PYTHONHASHSEED): start the server with a given directory listing order and
worker count (mode init), or on an empty directory opening the files one by one in a given order (mode open); print the
canonical query battery as JSON."""
import json
import os
import sys

sys.path.insert(0, "/verif")
spec = json.loads(sys.argv[1])
order = spec["order"]            # basenames in the order os.listdir must report them
_listdir = os.listdir


def listdir(path="."):
    names = _listdir(path)
    # `order` holds workspace-relative paths; entries of sub-directories are ordered by the first listed path below them
    key = {}
    for i, n in enumerate(order):
        for part in n.split("/"):
            key.setdefault(part, i)
    return sorted(names, key=lambda n: key.get(n, len(order)))


os.listdir = listdir
from harness import impl  # noqa: E402
from harness.props import c10  # noqa: E402

root = spec["root"]
names = sorted(n for n in spec["files"] if not n.endswith(".h"))
if spec["mode"] == "init":
    srv, conn = impl.make_server(root, extra=["--nthreads", str(spec["nthreads"]), *spec.get("extra", [])])
else:
    empty = spec["empty"]
    srv, conn = impl.make_server(empty, extra=["--nthreads", "1", *spec.get("extra", [])])
    for n in order:
        if n in names:
            impl.did_open(srv, os.path.join(root, n))
out = c10.battery(srv, conn, root, names)
print("@@BATTERY@@" + json.dumps(out, sort_keys=True, default=repr))
