"""Runs fortls in-process under a sys.addaudithook monitor (C17 oracle).
usage: audit_run.py <workspace root> <json: list of relative files to open/query> [--debug_log]
prints one JSON object: {"events": [...], "errors": [...]}
The hook is installed BEFORE fortls is imported and records every event that would evaluate
text as code, start a process, open a socket or write to the file system.
"""
import json
import os
import sys

root = sys.argv[1]
files = json.loads(sys.argv[2])
extra = sys.argv[3:]
events = []
ARMED = [False]
WRITE_FLAGS = os.O_WRONLY | os.O_RDWR | os.O_CREAT | os.O_TRUNC | os.O_APPEND


def hook(event, args):
    if not ARMED[0]:
        return
    try:
        if event == "exec":
            co = args[0]
            fn = getattr(co, "co_filename", "?")
            if not (fn.endswith(".py") or fn.startswith("<frozen") or "site-packages" in fn or "/lib/python" in fn):
                events.append(["exec", fn, getattr(co, "co_name", "?")])
        elif event == "compile":
            src, fn = args[0], args[1]
            if fn is not None and not str(fn).endswith(".py") and not str(fn).startswith("<frozen") and str(fn) != "<unknown>":
                events.append(["compile", str(fn), (src[:80].decode("utf-8", "replace") if isinstance(src, bytes) else str(src)[:80]) if src is not None else None])
        elif event in ("os.system", "os.exec", "os.posix_spawn", "os.spawn", "subprocess.Popen", "pty.spawn"):
            events.append([event, repr(args)[:200]])
        elif event == "open":
            path, mode, flags = args[0], args[1], args[2]
            writing = (mode is not None and any(c in str(mode) for c in "wax+")) or (isinstance(flags, int) and flags & WRITE_FLAGS)
            if writing and not str(path).startswith("/dev/") and not isinstance(path, int):
                events.append(["open-write", str(path), str(mode)])
        elif event in ("os.remove", "os.rename", "os.mkdir", "os.rmdir", "os.symlink", "os.link", "os.truncate", "os.chmod",
                       "shutil.rmtree", "shutil.move", "shutil.copyfile", "shutil.copytree", "os.utime", "tempfile.mkstemp", "tempfile.mkdtemp"):
            events.append([event, repr(args)[:200]])
        elif event in ("socket.connect", "socket.bind", "urllib.Request"):
            events.append([event, repr(args)[:200]])
        elif event == "import":
            mod = args[0]
            if mod in ("pickle", "marshal", "ctypes", "runpy", "code"):
                pass
    except Exception as ex:  # never let the monitor break the run
        events.append(["hook-error", repr(ex)])


sys.addaudithook(hook)
sys.path.insert(0, os.environ.get("VERIF_REPO", "/repo"))
import logging  # noqa: E402

from fortls.interface import cli  # noqa: E402
from fortls.jsonrpc import path_to_uri  # noqa: E402
from fortls.langserver import LangServer  # noqa: E402

logging.disable(logging.CRITICAL)


class Conn:
    def __init__(self):
        self.out = []

    def send_notification(self, m, p):
        self.out.append(("n", m))

    def write_response(self, i, r):
        self.out.append(("r", i))

    def write_error(self, i, code, message, data=None):
        self.out.append(("e", i, message[:120]))


errors = []
args = vars(cli("fortls").parse_args(["--disable_autoupdate", "--incremental_sync", "--nthreads", "2"] + extra))
conn = Conn()
srv = LangServer(conn, args)
ARMED[0] = True
rid = [0]


def req(method, params):
    rid[0] += 1
    try:
        srv.handle({"jsonrpc": "2.0", "id": rid[0], "method": method, "params": params})
    except BaseException as ex:
        errors.append([method, repr(ex)[:200]])


def note(method, params):
    try:
        srv.handle({"jsonrpc": "2.0", "method": method, "params": params})
    except BaseException as ex:
        errors.append([method, repr(ex)[:200]])


req("initialize", {"rootPath": root})
for rel in files:
    p = os.path.join(root, rel)
    u = path_to_uri(p)
    note("textDocument/didOpen", {"textDocument": {"uri": u}})
    req("textDocument/documentSymbol", {"textDocument": {"uri": u}})
    try:
        nl = len(open(p, errors="replace").read().split("\n"))
    except OSError:
        nl = 1
    for line in range(0, nl, max(1, nl // 6)):
        for ch in (0, 4, 9):
            pos = {"textDocument": {"uri": u}, "position": {"line": line, "character": ch}}
            for m in ("textDocument/hover", "textDocument/definition", "textDocument/completion", "textDocument/signatureHelp"):
                req(m, pos)
            req("textDocument/references", dict(pos, context={"includeDeclaration": True}))
    note("textDocument/didChange", {"textDocument": {"uri": u}, "contentChanges": [
        {"range": {"start": {"line": 0, "character": 0}, "end": {"line": 0, "character": 0}}, "text": "#define ZQ __import__('os').system('touch PWN_EDIT')\n#if ZQ\n#endif\n"}]})
    note("textDocument/didSave", {"textDocument": {"uri": u}})
    note("textDocument/didClose", {"textDocument": {"uri": u}})
req("workspace/symbol", {"query": ""})
ARMED[0] = False
print(json.dumps({"events": events, "errors": errors, "responses": len(conn.out)}))
