"""Translator: argparse option list (fortls/interface.py, by building the parser) and the
configuration-file loaders of fortls/langserver.py -> coq/theories/Gen/GenOptions.v.

Fail closed: unrecognised statements become `Unknown "<source>"`.
"""
from __future__ import annotations

import ast
import os
import sys

from ..common import GEN, REPO, write_if_changed
from .proto import is_self_attr, q, src


def option_table():
    """[(dest, kind, default repr)] from the parser object built by /repo's cli()."""
    import importlib
    if REPO not in sys.path:
        sys.path.insert(0, REPO)
    import fortls.interface as interface
    importlib.reload(interface)
    import json
    parser = interface.cli("fortls")
    out = []
    for a in parser._actions:
        cls = type(a).__name__
        if cls in ("_HelpAction", "_VersionAction"):
            continue
        if cls == "_StoreTrueAction":
            kind = "KBool"
        elif a.type is int:
            kind = "KInt"
        elif a.type is json.loads:
            kind = "KDict"
        elif a.type is str and a.nargs in ("*", "+"):
            kind = "KSet"
        elif a.type is str:
            kind = "KStr"
        else:
            kind = "KOther"
        out.append((a.dest, kind, repr(a.default)))
    return out


def _get_call(node):
    """config_dict.get("K", <dflt>) -> (K, dflt node) or None"""
    if (isinstance(node, ast.Call) and isinstance(node.func, ast.Attribute) and node.func.attr == "get"
            and isinstance(node.func.value, ast.Name) and node.func.value.id == "config_dict"
            and len(node.args) == 2 and isinstance(node.args[0], ast.Constant) and isinstance(node.args[0].value, str)
            and not node.keywords):
        return node.args[0].value, node.args[1]
    return None


def stmt_of(node):
    """One loader statement -> Coq term (string)."""
    if isinstance(node, ast.Expr) and isinstance(node.value, ast.Constant):
        return None  # docstring
    tgt = val = None
    if isinstance(node, ast.Assign) and len(node.targets) == 1:
        tgt, val = node.targets[0], node.value
    elif isinstance(node, ast.AnnAssign) and node.value is not None:
        tgt, val = node.target, node.value
    if tgt is not None and is_self_attr(tgt):
        attr = tgt.attr
        wrap = "WId"
        inner = val
        if isinstance(val, ast.Call) and isinstance(val.func, ast.Name) and val.func.id == "set" and len(val.args) == 1 and not val.keywords:
            wrap = "WSet"
            inner = val.args[0]
        g = _get_call(inner)
        if g is not None:
            key, d = g
            if is_self_attr(d):
                dflt = "(SelfAttr %s)" % q(d.attr)
            else:
                dflt = "(Const %s)" % q(src(d))
            return "Load %s %s %s %s" % (q(attr), q(key), dflt, wrap)
        # derived value: an expression over self.<attrs> only, no config_dict
        names = [n for n in ast.walk(val)]
        if not any(isinstance(n, ast.Name) and n.id == "config_dict" for n in names):
            reads = sorted({n.attr for n in names if is_self_attr(n)})
            if reads:
                return "Derived %s [%s]" % (q(attr), "; ".join(q(r) for r in reads))
    # if isinstance(self.X, list): self.X = {key: "" for key in self.X}
    if isinstance(node, ast.If) and not node.orelse and len(node.body) == 1:
        t = node.test
        b = node.body[0]
        if (isinstance(t, ast.Call) and isinstance(t.func, ast.Name) and t.func.id == "isinstance" and len(t.args) == 2
                and is_self_attr(t.args[0]) and isinstance(b, ast.Assign) and is_self_attr(b.targets[0])
                and b.targets[0].attr == t.args[0].attr
                and not any(isinstance(n, ast.Name) and n.id == "config_dict" for n in ast.walk(b.value))
                and {n.attr for n in ast.walk(b.value) if is_self_attr(n)} <= {t.args[0].attr}):
            return "Normalise %s" % q(t.args[0].attr)
    return "Unknown %s" % q(src(node).replace("\n", " ")[:120])


def translate(path=None):
    path = path or os.path.join(REPO, "fortls", "langserver.py")
    with open(path) as f:
        tree = ast.parse(f.read())
    cls = next((n for n in tree.body if isinstance(n, ast.ClassDef) and n.name == "LangServer"), None)
    funcs = {n.name: n for n in cls.body if isinstance(n, ast.FunctionDef)} if cls else {}
    res = {"steps": [], "excepts": [], "unknown": [], "loaders": {}}
    main = funcs.get("_load_config_file")
    if main is None:
        res["unknown"].append("_load_config_file not found")
        return res
    tries = [n for n in main.body if isinstance(n, ast.Try)]
    if len(tries) != 1:
        res["unknown"].append("expected exactly one try statement in _load_config_file")
        return res
    tr = tries[0]
    # nothing after the try may touch options
    after = main.body[main.body.index(tr) + 1:]
    if after:
        res["unknown"].append("statements after the try in _load_config_file")
    body = tr.body
    if len(body) == 1 and isinstance(body[0], ast.With):
        w = body[0]
        it = w.items[0]
        if not (isinstance(it.context_expr, ast.Call) and isinstance(it.context_expr.func, ast.Name) and it.context_expr.func.id == "open"):
            res["unknown"].append("with statement does not open the file")
        body = w.body
    else:
        res["unknown"].append("try body is not a single with-open block")
    for st in body:
        if isinstance(st, ast.Expr) and isinstance(st.value, ast.Constant):
            continue
        if (isinstance(st, ast.Assign) and isinstance(st.targets[0], ast.Name) and st.targets[0].id == "config_dict"
                and isinstance(st.value, ast.Call) and src(st.value.func) in ("json5.load", "json.load")):
            res["steps"].append("CLoadJson")
        elif (isinstance(st, ast.Expr) and isinstance(st.value, ast.Call) and is_self_attr(st.value.func)
              and len(st.value.args) == 1 and isinstance(st.value.args[0], ast.Name) and st.value.args[0].id == "config_dict"):
            name = st.value.func.attr
            fn = funcs.get(name)
            if fn is None:
                res["steps"].append("(CUnknown %s)" % q(name)); res["unknown"].append("call to unknown method " + name)
            elif name.startswith("_load_config_file_"):
                stmts = [s for s in (stmt_of(x) for x in fn.body) if s is not None]
                res["loaders"][name] = stmts
                res["steps"].append("(CApply %s)" % q(name))
            elif name == "_check_config_file":
                res["steps"].append("CValidate")
                # the validator must not assign to self
                if any(is_self_attr(t) for n in ast.walk(fn) if isinstance(n, (ast.Assign, ast.AugAssign, ast.AnnAssign))
                       for t in (n.targets if isinstance(n, ast.Assign) else [n.target])):
                    res["unknown"].append("_check_config_file assigns to self")
            else:
                res["steps"].append("(CUnknown %s)" % q(name)); res["unknown"].append("unexpected call " + name)
        else:
            s = stmt_of(st)
            if s is None:
                continue
            res["loaders"].setdefault("_inline", []).append(s)
            if "(CApply \"_inline\")" not in res["steps"]:
                res["steps"].append('(CApply "_inline")')
    for hd in tr.handlers:
        if hd.type is None:
            names = ["BaseException"]
        elif isinstance(hd.type, ast.Name):
            names = [hd.type.id]
        elif isinstance(hd.type, ast.Tuple) and all(isinstance(e, ast.Name) for e in hd.type.elts):
            names = [e.id for e in hd.type.elts]
        else:
            names = ["?"]; res["unknown"].append("except clause type not recognised")
        posts = any(isinstance(n, ast.Call) and is_self_attr(n.func, "post_message") for n in ast.walk(hd))
        clean = not any(isinstance(n, (ast.Raise, ast.Return)) for n in ast.walk(hd)) and not any(
            is_self_attr(t) for n in ast.walk(hd) if isinstance(n, ast.Assign) for t in n.targets)
        res["excepts"].append((names, posts and clean))
    if tr.orelse or tr.finalbody:
        res["unknown"].append("try has else/finally")
    # the explicit-but-missing file message
    pre = main.body[:main.body.index(tr)]
    res["missing_msg"] = any(isinstance(n, ast.Call) and is_self_attr(n.func, "post_message") for s in pre for n in ast.walk(s))
    return res


def render(t, opts) -> str:
    L = ["(* GENERATED by harness/translators/options.py from fortls/interface.py and fortls/langserver.py -- do not edit *)",
         "From Coq Require Import String List.", "From FV Require Import C19.Syntax.", "Import ListNotations.", "Open Scope string_scope.",
         "Definition cli_options : list (string * okind) := ["]
    L.append(";\n".join("  (%s, %s)" % (q(d), k) for d, k, _ in opts))
    L.append("].")
    for name, stmts in t["loaders"].items():
        L.append("Definition loader%s : list stmt := [" % name)
        L.append(";\n".join("  " + s for s in stmts))
        L.append("].")
    L.append("Definition loader_table : list (string * list stmt) := [%s]." % "; ".join(
        "(%s, loader%s)" % (q(n), n) for n in t["loaders"]))
    L.append("Definition cfg_steps : list cstep := [%s]." % "; ".join(t["steps"]))
    L.append("Definition cfg_excepts : list (list string * bool) := [%s]." % "; ".join(
        "([%s], %s)" % ("; ".join(q(n) for n in names), "true" if ok else "false") for names, ok in t["excepts"]))
    L.append("Definition cfg_missing_msg : bool := %s." % ("true" if t.get("missing_msg") else "false"))
    L.append("Definition cfg_unknown : list string := [%s]." % "; ".join(q(u) for u in t["unknown"]))
    return "\n".join(L) + "\n"


def regenerate():
    return write_if_changed(os.path.join(GEN, "GenOptions.v"), render(translate(), option_table()))


if __name__ == "__main__":
    print(render(translate(), option_table()))
