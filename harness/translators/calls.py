"""Translator: every call site of the fortls package -> coq/theories/Gen/GenCalls.v, alias-aware
(`import x as y`, `from x import a as b`), plus the node kinds interpreted by eval_pp_expr.
A callee that cannot be resolved statically is listed as Dynamic/LocalCall/Method so that the
obligations of C17 can refuse it (fail closed).
"""
from __future__ import annotations

import ast
import builtins
import os

from ..common import GEN, REPO, write_if_changed
from .proto import q, src

BUILTINS = set(dir(builtins))


def module_calls(path, modname):
    with open(path) as f:
        tree = ast.parse(f.read())
    alias = {}
    for node in ast.walk(tree):
        if isinstance(node, ast.Import):
            for a in node.names:
                alias[(a.asname or a.name).split(".")[0] if not a.asname else a.asname] = a.name if a.asname else a.name.split(".")[0]
        elif isinstance(node, ast.ImportFrom):
            base = ("." * node.level) + (node.module or "")
            for a in node.names:
                alias[a.asname or a.name] = base + "." + a.name
    # names defined in this module (functions/classes)
    local_defs = {n.name for n in ast.walk(tree) if isinstance(n, (ast.FunctionDef, ast.ClassDef, ast.AsyncFunctionDef))}

    def chain(node):
        parts = []
        while isinstance(node, ast.Attribute):
            parts.append(node.attr)
            node = node.value
        if isinstance(node, ast.Name):
            parts.append(node.id)
            return list(reversed(parts))
        return None

    out = []

    def visit(node, fn):
        # code under `if __name__ == "__main__":` does not run when the package is imported
        if isinstance(node, ast.If) and src(node.test).replace("'", '"') == '__name__ == "__main__"':
            for ch in node.orelse:
                visit(ch, fn)
            return
        if isinstance(node, (ast.FunctionDef, ast.AsyncFunctionDef)):
            fn = node.name
        if isinstance(node, ast.Call):
            f = node.func
            kind = None
            name = None
            extra = ""
            if isinstance(f, ast.Name):
                if f.id in alias:
                    kind, name = "Qual", alias[f.id]
                elif f.id in local_defs:
                    kind, name = "Local", f.id
                elif f.id in BUILTINS:
                    kind, name = "Builtin", f.id
                else:
                    kind, name = "LocalVar", f.id
            elif isinstance(f, ast.Attribute):
                ch = chain(f)
                if ch and ch[0] in alias and ch[0] != "self":
                    kind, name = "Qual", ".".join([alias[ch[0]]] + ch[1:])
                else:
                    kind, name = "Method", f.attr
            else:
                kind, name = "Dynamic", src(f)[:60]
            # details that matter for some sinks
            if kind == "Builtin" and name == "open":
                mode = None
                if len(node.args) >= 2:
                    mode = node.args[1]
                for kw in node.keywords:
                    if kw.arg == "mode":
                        mode = kw.value
                if mode is None:
                    extra = "r"
                elif isinstance(mode, ast.Constant) and isinstance(mode.value, str):
                    extra = mode.value
                else:
                    extra = "?"
            if kind == "Qual" and name == "logging.basicConfig":
                extra = ""
                for kw in node.keywords:
                    if kw.arg == "filename":
                        extra = "filename" if log_name_is_constant(tree, fn, kw.value) else "filename?"
            if kind == "Qual" and name.startswith("subprocess."):
                a0 = node.args[0] if node.args else None
                const = isinstance(a0, ast.List) and all(
                    (isinstance(e, ast.Constant) and isinstance(e.value, str)) or src(e) == "sys.executable" for e in a0.elts)
                shell = any(kw.arg == "shell" for kw in node.keywords)
                extra = "constargv" if const and not shell else "?"
            out.append((modname, fn or "<module>", kind, name, extra))
        for ch in ast.iter_child_nodes(node):
            visit(ch, fn)
    visit(tree, None)
    return out, tree


def log_name_is_constant(tree, fn_name, value):
    """the log file name may only be <constant> or os.path.join(self.root_path, <constant>)"""
    if not isinstance(value, ast.Name):
        return False
    fn = next((n for n in ast.walk(tree) if isinstance(n, (ast.FunctionDef,)) and n.name == fn_name), None)
    if fn is None:
        return False
    ok = True
    seen = False
    for node in ast.walk(fn):
        if isinstance(node, ast.Assign) and any(isinstance(t, ast.Name) and t.id == value.id for t in node.targets):
            seen = True
            v = node.value
            if isinstance(v, ast.Constant) and isinstance(v.value, str):
                continue
            if (isinstance(v, ast.Call) and src(v.func) == "os.path.join" and len(v.args) == 2 and src(v.args[0]) == "self.root_path"
                    and isinstance(v.args[1], ast.Name) and v.args[1].id == value.id):
                continue
            ok = False
        elif isinstance(node, (ast.AugAssign, ast.AnnAssign)) and isinstance(getattr(node, "target", None), ast.Name) and node.target.id == value.id:
            ok = False
    return ok and seen


def evaluator_kinds(tree):
    """node classes eval_pp_expr dispatches on (isinstance(node, ast.X)), and whether it calls anything but itself"""
    kinds = []
    found = False
    other_calls = []
    for node in ast.walk(tree):
        if isinstance(node, ast.FunctionDef) and node.name == "eval_pp_expr":
            found = True
            for n in ast.walk(node):
                if isinstance(n, ast.Call) and isinstance(n.func, ast.Name) and n.func.id == "isinstance" and len(n.args) == 2:
                    t = n.args[1]
                    els = t.elts if isinstance(t, ast.Tuple) else [t]
                    for e in els:
                        if isinstance(e, ast.Attribute) and isinstance(e.value, ast.Name) and e.value.id == "ast":
                            kinds.append(e.attr)
                        elif isinstance(e, ast.Name):
                            kinds.append("py:" + e.id)
                elif isinstance(n, ast.Call):
                    s = src(n.func)
                    if s not in ("ev", "type", "all", "zip", "ValueError", "isinstance", "ast.parse", "expr.strip") and not s.startswith("_PP_"):
                        other_calls.append(s)
    return found, sorted(set(kinds)), sorted(set(other_calls))


def guarded_by_disable_autoupdate():
    """does _update_version_pypi start with `if self.disable_autoupdate: return False`?"""
    with open(os.path.join(REPO, "fortls", "langserver.py")) as f:
        tree = ast.parse(f.read())
    for node in ast.walk(tree):
        if isinstance(node, ast.FunctionDef) and node.name == "_update_version_pypi":
            body = [s for s in node.body if not (isinstance(s, ast.Expr) and isinstance(s.value, ast.Constant))]
            if body and isinstance(body[0], ast.If) and src(body[0].test) == "self.disable_autoupdate" \
                    and len(body[0].body) == 1 and isinstance(body[0].body[0], ast.Return):
                return True
    return False


def collect():
    pk = os.path.join(REPO, "fortls")
    calls = []
    ev = (False, [], [])
    for root, _, files in os.walk(pk):
        for fn in sorted(files):
            if not fn.endswith(".py"):
                continue
            path = os.path.join(root, fn)
            mod = os.path.relpath(path, pk)[:-3].replace("/", ".")
            c, tree = module_calls(path, mod)
            calls += c
            if mod == "helper_functions":
                ev = evaluator_kinds(tree)
    return calls, ev


def render():
    calls, ev = collect()
    uniq = sorted(set(calls))
    L = ["(* GENERATED by harness/translators/calls.py from fortls/**/*.py -- do not edit *)",
         "From Coq Require Import String List.", "From FV Require Import C17.Syntax.", "Import ListNotations.", "Open Scope string_scope.",
         "Definition calls : list call := ["]
    L.append(";\n".join("  MkCall %s %s (%s %s) %s" % (q(m), q(f), k, q(n), q(x)) for m, f, k, n, x in uniq))
    L.append("].")
    L.append("Definition evaluator_found : bool := %s." % ("true" if ev[0] else "false"))
    L.append("Definition evaluator_kinds : list string := [%s]." % "; ".join(q(k) for k in ev[1]))
    L.append("Definition evaluator_other_calls : list string := [%s]." % "; ".join(q(k) for k in ev[2]))
    L.append("Definition autoupdate_guarded : bool := %s." % ("true" if guarded_by_disable_autoupdate() else "false"))
    return "\n".join(L) + "\n"


def regenerate():
    return write_if_changed(os.path.join(GEN, "GenCalls.v"), render())


if __name__ == "__main__":
    txt = render()
    print(txt[:3000])
    print("...", len(txt.split("\n")), "lines")
