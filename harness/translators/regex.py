"""Translator: every compiled pattern of fortls/regex_patterns.py (and the constant inline
patterns of the package) -> coq/theories/Gen/GenRegex.v, through CPython's own
re._parser tree, so that the pattern and the flags the code compiles *now* are what the
theorems talk about.  Unsupported opcodes become RUnknown (fail closed).
"""
from __future__ import annotations

import ast
import dataclasses
import importlib
import os
import re
import sys

try:
    import re._parser as sre_parse
    import re._constants as sre_c
except ImportError:  # python < 3.11
    import sre_parse
    import sre_constants as sre_c

from ..common import GEN, REPO, write_if_changed

MAXREP = sre_c.MAXREPEAT

CAT = {
    "CATEGORY_WORD": "CWord", "CATEGORY_NOT_WORD": "CNotWord", "CATEGORY_DIGIT": "CDigit", "CATEGORY_NOT_DIGIT": "CNotDigit",
    "CATEGORY_SPACE": "CSpace", "CATEGORY_NOT_SPACE": "CNotSpace",
}


def cat(items):
    items = [i for i in items if i != "Eps"]
    if not items:
        return "Eps"
    out = items[-1]
    for it in reversed(items[:-1]):
        out = "(Cat %s %s)" % (it, out)
    return out


def tr_in(av):
    neg = False
    items = []
    for op, a in av:
        name = str(op)
        if name == "NEGATE":
            neg = True
        elif name == "LITERAL":
            items.append("CLit %d" % a)
        elif name == "RANGE":
            items.append("CRange %d %d" % (a[0], a[1]))
        elif name == "CATEGORY":
            c = CAT.get(str(a))
            if c is None:
                return "RUnknown"
            items.append(c)
        else:
            return "RUnknown"
    return "(Chr %s [%s])" % ("true" if neg else "false", "; ".join(items))


def tr(p):
    parts = []
    for op, av in p:
        name = str(op)
        if name == "LITERAL":
            parts.append("(Lit %d)" % av)
        elif name == "NOT_LITERAL":
            parts.append("(Chr true [CLit %d])" % av)
        elif name == "ANY":
            parts.append("Any")
        elif name == "IN":
            parts.append(tr_in(av))
        elif name in ("MAX_REPEAT", "MIN_REPEAT"):
            lo, hi, sub = av
            g = "true" if name == "MAX_REPEAT" else "false"
            body = tr(sub)
            if lo > 8 or (hi != MAXREP and hi > 8):
                parts.append("RUnknown")
            elif hi == MAXREP:
                parts.append(cat(["(Times %d%%nat %s)" % (lo, body) if lo else "Eps", "(Star %s %s)" % (g, body)]))
            else:
                parts.append(cat(["(Times %d%%nat %s)" % (lo, body) if lo else "Eps",
                                  "(UpTo %s %d%%nat %s)" % (g, hi - lo, body) if hi > lo else "Eps"]))
        elif name == "SUBPATTERN":
            group, add_flags, del_flags, sub = av
            if add_flags or del_flags:
                parts.append("RUnknown")
            elif group is None:
                parts.append(tr(sub))
            else:
                parts.append("(Grp %d%%nat %s)" % (group, tr(sub)))
        elif name == "BRANCH":
            alts = [tr(b) for b in av[1]]
            out = alts[-1]
            for a in reversed(alts[:-1]):
                out = "(Alt %s %s)" % (a, out)
            parts.append(out)
        elif name == "ASSERT_NOT":
            direction, sub = av
            parts.append("(NLook %s)" % tr(sub) if direction == 1 else "RUnknown")
        elif name == "AT":
            a = str(av)
            parts.append({"AT_BEGINNING": "Bol", "AT_END": "Eol", "AT_BOUNDARY": "Wordb"}.get(a, "RUnknown"))
        else:
            parts.append("RUnknown")
    return cat(parts)


def translate_pattern(pattern: str, flags: int):
    allowed = re.I | re.U
    if flags & ~allowed:
        return "RUnknown", bool(flags & re.I)
    try:
        tree = sre_parse.parse(pattern, flags)
    except Exception:
        return "RUnknown", bool(flags & re.I)
    return tr(tree), bool(flags & re.I)


def collect():
    """[(name, pattern string, flags)] for FRegex fields and constant inline patterns."""
    if REPO not in sys.path:
        sys.path.insert(0, REPO)
    import fortls.regex_patterns as rp
    importlib.reload(rp)
    out = []
    F = rp.FortranRegularExpressions
    for f in dataclasses.fields(F):
        v = getattr(F, f.name)
        if isinstance(v, re.Pattern):
            out.append((f.name, v.pattern, v.flags))
    # the default source-suffix pattern (C18)
    out.append(("SRC_EXT_DEFAULT", rp.create_src_file_exts_regex().pattern, rp.create_src_file_exts_regex().flags))
    # the DEFAULT suffix expression on its own (a constant inside create_src_file_exts_regex)
    with open(os.path.join(REPO, "fortls", "regex_patterns.py")) as fh:
        rtree = ast.parse(fh.read())
    body = None
    for node in ast.walk(rtree):
        if isinstance(node, ast.FunctionDef) and node.name == "create_src_file_exts_regex":
            for st in ast.walk(node):
                if (isinstance(st, ast.Assign) and isinstance(st.targets[0], ast.Name) and st.targets[0].id == "DEFAULT"
                        and isinstance(st.value, ast.Constant) and isinstance(st.value.value, str)):
                    body = st.value.value
    out.append(("SRC_EXT_DEFAULT_BODY", body if body is not None else "(?<=unsupported)", 0))
    # inline constant patterns: re.compile("...", flags) anywhere in the package
    pk = os.path.join(REPO, "fortls")
    for root, _, files in os.walk(pk):
        for fn in sorted(files):
            if not fn.endswith(".py") or fn == "regex_patterns.py":
                continue
            path = os.path.join(root, fn)
            with open(path) as fh:
                try:
                    tree = ast.parse(fh.read())
                except SyntaxError:
                    continue
            k = 0
            for node in ast.walk(tree):
                if (isinstance(node, ast.Call) and isinstance(node.func, ast.Attribute) and isinstance(node.func.value, ast.Name)
                        and node.func.value.id == "re" and node.func.attr in ("compile", "sub", "subn", "split", "match", "search", "findall", "finditer")
                        and node.args and isinstance(node.args[0], ast.Constant) and isinstance(node.args[0].value, str)):
                    flags = 0
                    fl_nodes = [a for a in node.args[1:]] + [kw.value for kw in node.keywords if kw.arg == "flags"]
                    for a in fl_nodes:
                        if isinstance(a, ast.Attribute) and isinstance(a.value, ast.Name) and a.value.id == "re" and a.attr in ("I", "IGNORECASE"):
                            flags |= re.I
                    k += 1
                    base = os.path.relpath(path, pk).replace("/", "_").replace(".py", "")
                    out.append(("INL_%s_%d" % (base, k), node.args[0].value, flags | re.U))
    return out


PLACEHOLDER = "QQNAMEQQ"


def name_regex_template():
    """the f-string compiled as NAME_REGEX in LangServer.get_all_references, with the name replaced by a placeholder;
    returns (pattern text, flags) or (None, 0) when the source shape is not recognised"""
    with open(os.path.join(REPO, "fortls", "langserver.py")) as fh:
        tree = ast.parse(fh.read())
    for node in ast.walk(tree):
        if isinstance(node, ast.Assign) and any(isinstance(t, ast.Name) and t.id == "NAME_REGEX" for t in node.targets):
            c = node.value
            if not (isinstance(c, ast.Call) and isinstance(c.func, ast.Attribute) and c.func.attr == "compile" and c.args
                    and isinstance(c.args[0], ast.JoinedStr)):
                return None, 0
            parts = []
            for v in c.args[0].values:
                if isinstance(v, ast.Constant):
                    parts.append(v.value)
                elif isinstance(v, ast.FormattedValue):
                    e = v.value
                    if isinstance(e, ast.Name) and e.id == "def_name":
                        parts.append(PLACEHOLDER)       # the raw name: regex metacharacters in it would be interpreted
                        parts.append("(?#raw)")
                    elif (isinstance(e, ast.Call) and isinstance(e.func, ast.Attribute) and e.func.attr == "escape" and len(e.args) == 1
                          and isinstance(e.args[0], ast.Name) and e.args[0].id == "def_name"):
                        parts.append(PLACEHOLDER)
                    else:
                        return None, 0
                else:
                    return None, 0
            flags = 0
            for a in c.args[1:]:
                if isinstance(a, ast.Attribute) and a.attr in ("I", "IGNORECASE"):
                    flags |= re.I
            return "".join(parts), flags
    return None, 0


def render_name_regex():
    pat, flags = name_regex_template()
    if pat is None or "(?#raw)" in pat:
        body = "RUnknown"
        ci = False
    else:
        body, ci = translate_pattern(pat, flags | re.U)
        lits = cat(["(Lit %d)" % ord(ch) for ch in PLACEHOLDER])
        if body.count(lits) != 1:
            body = "RUnknown"
        else:
            body = body.replace(lits, "(Lits nm)")
    return "Definition name_re (nm : str) : re := %s.\nDefinition name_ci : bool := %s.\n" % (body, "true" if ci else "false")


def render(pats):
    L = ["(* GENERATED by harness/translators/regex.py from fortls/regex_patterns.py (via re._parser) -- do not edit *)",
         "From Coq Require Import String.", "From FV Require Import Base.Str Base.Regex.", "Local Open Scope N_scope."]
    names = []
    for name, pattern, flags in pats:
        body, ci = translate_pattern(pattern, flags)
        L.append("Definition P_%s : pat := {| p_re := %s; p_ci := %s |}." % (name, body, "true" if ci else "false"))
        names.append(name)
    L.append("Definition all_patterns : list (string * pat) := [")
    L.append(";\n".join('  ("%s"%%string, P_%s)' % (n, n) for n in names))
    L.append("].")
    L.append(render_name_regex())
    return "\n".join(L) + "\n"


def regenerate():
    return write_if_changed(os.path.join(GEN, "GenRegex.v"), render(collect()))


if __name__ == "__main__":
    print(render(collect()))
