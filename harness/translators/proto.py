"""Translator: fortls/langserver.py (LangServer.run, handle, serve_default, serve_exit, every
use of self.conn and self.running) -> coq/theories/Gen/GenProto.v.

Fail closed: any shape that is not recognised becomes an `Unknown` constructor, which makes
`wf_proto` false (C01/Model.v).
"""
from __future__ import annotations

import ast
import os

from ..common import GEN, REPO, write_if_changed


def q(s: str) -> str:
    return '"%s"' % s.replace('"', '""')


def src(node) -> str:
    try:
        return ast.unparse(node)
    except Exception:
        return "<?>"


def is_self_attr(node, name=None):
    return (isinstance(node, ast.Attribute) and isinstance(node.value, ast.Name) and node.value.id == "self"
            and (name is None or node.attr == name))


def is_request_sub(node, key):
    return (isinstance(node, ast.Subscript) and isinstance(node.value, ast.Name) and node.value.id == "request"
            and isinstance(node.slice, ast.Constant) and node.slice.value == key)


def conn_call(node):
    """self.conn.<m>(...) -> m"""
    if isinstance(node, ast.Call) and isinstance(node.func, ast.Attribute) and is_self_attr(node.func.value, "conn"):
        return node.func.attr
    return None


def const_int(node):
    if isinstance(node, ast.Constant) and isinstance(node.value, int) and not isinstance(node.value, bool):
        return node.value
    if isinstance(node, ast.UnaryOp) and isinstance(node.op, ast.USub) and isinstance(node.operand, ast.Constant):
        return -node.operand.value
    return None


def kwarg(call, name, pos=None):
    for k in call.keywords:
        if k.arg == name:
            return k.value
    if pos is not None and len(call.args) > pos:
        return call.args[pos]
    return None


LAZY_FUNCS = {"map", "filter", "zip", "reversed", "range", "iter", "enumerate", "set", "frozenset"}
CONSUMERS = {"list", "sorted", "tuple", "set", "frozenset", "any", "all", "sum", "min", "max", "len", "dict", "enumerate",
             "zip", "map", "filter", "next", "bool", "str", "isinstance"}
CONSUMER_METHODS = {"join", "update", "extend", "union", "intersection", "difference", "issubset", "issuperset"}


def lazy_escapes(fn):
    """Values that json.dumps rejects (iterators, sets, dict views) and that are not consumed on
    the spot: (function name, source) pairs."""
    parents = {}
    for node in ast.walk(fn):
        for ch in ast.iter_child_nodes(node):
            parents[ch] = node
    out = []
    for node in ast.walk(fn):
        lazy = False
        if isinstance(node, (ast.GeneratorExp, ast.Set, ast.SetComp)):
            lazy = True
        elif isinstance(node, ast.Call):
            if isinstance(node.func, ast.Name) and node.func.id in LAZY_FUNCS:
                lazy = True
            elif isinstance(node.func, ast.Attribute) and node.func.attr in ("keys", "values", "items") and not node.args:
                lazy = True
        if not lazy:
            continue
        p = parents.get(node)
        ok = False
        if isinstance(p, (ast.For, ast.comprehension)) and p.iter is node:
            ok = True
        elif isinstance(p, ast.Call) and node in p.args:
            if isinstance(p.func, ast.Name) and p.func.id in CONSUMERS:
                ok = True
            elif isinstance(p.func, ast.Attribute) and p.func.attr in CONSUMER_METHODS:
                ok = True
        elif isinstance(p, (ast.Compare, ast.BoolOp, ast.UnaryOp, ast.If, ast.While, ast.Starred, ast.IfExp)) and not (
                isinstance(p, ast.IfExp) and p.test is not node):
            ok = True
        if not ok:
            out.append((fn.name, src(p if isinstance(p, (ast.Assign, ast.AnnAssign, ast.Return)) else node).replace("\n", " ")[:100]))
    return out


def translate(path=None):
    path = path or os.path.join(REPO, "fortls", "langserver.py")
    with open(path) as f:
        tree = ast.parse(f.read())
    cls = next((n for n in tree.body if isinstance(n, ast.ClassDef) and n.name == "LangServer"), None)
    out = {"unknown": []}
    if cls is None:
        out["unknown"].append("class LangServer not found")
        return out
    funcs = {n.name: n for n in cls.body if isinstance(n, ast.FunctionDef)}

    # ---- every self.conn.<m> call and every assignment to self.running, by enclosing method
    writers = []
    running = []
    for name, fn in funcs.items():
        for node in ast.walk(fn):
            m = conn_call(node)
            if m is not None:
                writers.append((name, m))
            if isinstance(node, (ast.Assign, ast.AnnAssign)):
                tgts = node.targets if isinstance(node, ast.Assign) else [node.target]
                for t in tgts:
                    if is_self_attr(t, "running"):
                        v = node.value
                        if isinstance(v, ast.Constant) and isinstance(v.value, bool):
                            running.append((name, "true" if v.value else "false"))
                        else:
                            out["unknown"].append("self.running assigned a non constant in %s" % name)
            if isinstance(node, (ast.Attribute,)) and isinstance(node.value, ast.Name) and node.value.id == "self" and node.attr == "conn":
                pass
    # self.conn escaping (passed around / aliased) would defeat the inventory
    for name, fn in funcs.items():
        for node in ast.walk(fn):
            if is_self_attr(node, "conn"):
                ok = False
                for parent in ast.walk(fn):
                    if isinstance(parent, ast.Attribute) and parent.value is node:
                        ok = True
                    if isinstance(parent, (ast.Assign, ast.AnnAssign)) and name == "__init__":
                        tg = parent.targets if isinstance(parent, ast.Assign) else [parent.target]
                        if any(t is node for t in tg):
                            ok = True
                if not ok:
                    out["unknown"].append("self.conn used as a value in %s" % name)
    out["writers"] = writers
    out["running"] = running
    lazy = []
    for name, fn in funcs.items():
        lazy += lazy_escapes(fn)
    out["lazy"] = lazy

    # ---- handle
    h = funcs.get("handle")
    table = []
    default = None
    notif = "NotifUnknown"
    excs = []
    else_resp = False
    if h is None:
        out["unknown"].append("handle not found")
    else:
        body = [s for s in h.body if not (isinstance(s, ast.Expr) and isinstance(s.value, ast.Constant))]
        # local helper defs (noop) are allowed
        local_noops = set()
        rest = []
        for s in body:
            if isinstance(s, ast.FunctionDef):
                if len(s.body) == 1 and isinstance(s.body[0], ast.Return) and (
                        s.body[0].value is None or (isinstance(s.body[0].value, ast.Constant) and s.body[0].value.value is None)):
                    local_noops.add(s.name)
                else:
                    out["unknown"].append("local function %s in handle is not a no-op" % s.name)
            elif isinstance(s, ast.Expr) and isinstance(s.value, ast.Call) and isinstance(s.value.func, ast.Attribute) \
                    and isinstance(s.value.func.value, ast.Name) and s.value.func.value.id == "log":
                continue
            else:
                rest.append(s)
        # 1. handler = {...}.get(request["method"], self.serve_default)
        ok = False
        if rest and isinstance(rest[0], ast.Assign) and isinstance(rest[0].value, ast.Call):
            c = rest[0].value
            if (isinstance(c.func, ast.Attribute) and c.func.attr == "get" and isinstance(c.func.value, ast.Dict)
                    and len(c.args) == 2 and is_request_sub(c.args[0], "method") and is_self_attr(c.args[1])
                    and isinstance(rest[0].targets[0], ast.Name) and rest[0].targets[0].id == "handler"):
                default = c.args[1].attr
                ok = True
                for k, v in zip(c.func.value.keys, c.func.value.values):
                    if not (isinstance(k, ast.Constant) and isinstance(k.value, str)):
                        out["unknown"].append("non literal key in method table: %s" % src(k)); continue
                    if is_self_attr(v):
                        table.append((k.value, v.attr))
                    elif isinstance(v, ast.Name) and v.id in local_noops:
                        table.append((k.value, "noop"))
                    else:
                        out["unknown"].append("method table value not recognised: %s" % src(v))
        if not ok:
            out["unknown"].append("handler lookup not recognised: %s" % (src(rest[0]) if rest else "<empty>"))
        # 2. notification branch
        if len(rest) >= 2 and isinstance(rest[1], ast.If):
            i = rest[1]
            t = i.test
            cond_ok = (isinstance(t, ast.Compare) and isinstance(t.left, ast.Constant) and t.left.value == "id"
                       and len(t.ops) == 1 and isinstance(t.ops[0], ast.NotIn) and isinstance(t.comparators[0], ast.Name)
                       and t.comparators[0].id == "request")
            b = i.body
            shape_ok = (cond_ok and not i.orelse and len(b) == 2 and isinstance(b[0], ast.Try) and isinstance(b[1], ast.Return)
                        and b[1].value is None)
            if shape_ok:
                tr = b[0]
                call_ok = (len(tr.body) == 1 and isinstance(tr.body[0], ast.Expr) and isinstance(tr.body[0].value, ast.Call)
                           and isinstance(tr.body[0].value.func, ast.Name) and tr.body[0].value.func.id == "handler")
                catch_all = any(hd.type is None or (isinstance(hd.type, ast.Name) and hd.type.id in ("BaseException", "Exception"))
                                for hd in tr.handlers)
                silent = not any(conn_call(n) for hd in tr.handlers for n in ast.walk(hd)) and not tr.finalbody and not tr.orelse
                no_raise = not any(isinstance(n, ast.Raise) for hd in tr.handlers for n in ast.walk(hd))
                if call_ok and catch_all and silent and no_raise:
                    notif = "NotifTryCatchAll"
        if notif == "NotifUnknown":
            out["unknown"].append("notification branch of handle not recognised")
        # 3. request branch
        if len(rest) == 3 and isinstance(rest[2], ast.Try):
            tr = rest[2]
            body_ok = (len(tr.body) == 1 and isinstance(tr.body[0], ast.Assign) and isinstance(tr.body[0].value, ast.Call)
                       and isinstance(tr.body[0].value.func, ast.Name) and tr.body[0].value.func.id == "handler"
                       and isinstance(tr.body[0].targets[0], ast.Name) and tr.body[0].targets[0].id == "resp")
            if not body_ok:
                out["unknown"].append("request try body not recognised")
            for hd in tr.handlers:
                cname = hd.type.id if isinstance(hd.type, ast.Name) else None
                ecls = {"JSONRPC2Error": "ExcRpc", "Exception": "ExcAny", "BaseException": "ExcAny"}.get(cname)
                calls = [n for n in ast.walk(hd) if conn_call(n)]
                raises = [n for n in ast.walk(hd) if isinstance(n, ast.Raise)]
                if ecls is None or len(calls) != 1 or conn_call(calls[0]) != "write_error" or raises:
                    excs.append("(ExcUnknown %s)" % q(src(hd.type) if hd.type else "bare"))
                    out["unknown"].append("except clause not recognised: %s" % (src(hd.type) if hd.type else "bare"))
                    continue
                c = calls[0]
                rid = kwarg(c, "rid", 0)
                code = kwarg(c, "code", 1)
                if not is_request_sub(rid, "id"):
                    out["unknown"].append("write_error id is not request['id']: %s" % src(rid))
                    excs.append("(ExcUnknown %s)" % q("id " + src(rid))); continue
                ci = const_int(code)
                if ci is not None:
                    csrc = "(CodeConst (%d)%%Z)" % ci
                elif (isinstance(code, ast.Attribute) and code.attr == "code" and isinstance(code.value, ast.Name)
                      and code.value.id == hd.name):
                    csrc = "CodeFromExc"
                else:
                    out["unknown"].append("error code not recognised: %s" % src(code))
                    excs.append("(ExcUnknown %s)" % q("code " + src(code))); continue
                excs.append("(ExcClause %s %s)" % (ecls, csrc))
            oe = tr.orelse
            if (len(oe) == 1 and isinstance(oe[0], ast.Expr) and conn_call(oe[0].value) == "write_response"
                    and len(oe[0].value.args) == 2 and is_request_sub(oe[0].value.args[0], "id")
                    and isinstance(oe[0].value.args[1], ast.Name) and oe[0].value.args[1].id == "resp" and not tr.finalbody):
                else_resp = True
            else:
                out["unknown"].append("else branch of the request try is not write_response(request['id'], resp)")
        else:
            out["unknown"].append("request branch of handle not recognised (%d top-level statements)" % len(rest))
    out.update(table=table, default=default, notif=notif, excs=excs, else_resp=else_resp)

    # ---- serve_default: raise JSONRPC2Error(code=<int>, ...)
    dcode = None
    d = funcs.get(default or "serve_default")
    if d is not None:
        stm = [s for s in d.body if not (isinstance(s, ast.Expr) and isinstance(s.value, ast.Constant))]
        if len(stm) == 1 and isinstance(stm[0], ast.Raise) and isinstance(stm[0].exc, ast.Call) \
                and isinstance(stm[0].exc.func, ast.Name) and stm[0].exc.func.id == "JSONRPC2Error":
            dcode = const_int(kwarg(stm[0].exc, "code", 0))
    if dcode is None:
        out["unknown"].append("default handler does not simply raise JSONRPC2Error(code=<int>)")
    out["default_code"] = dcode

    # ---- run
    r = funcs.get("run")
    run_ok = False
    if r is not None:
        stm = [s for s in r.body if not (isinstance(s, ast.Expr) and isinstance(s.value, ast.Constant))]
        if len(stm) == 1 and isinstance(stm[0], ast.While) and is_self_attr(stm[0].test, "running") and not stm[0].orelse:
            wb = stm[0].body
            if len(wb) == 1 and isinstance(wb[0], ast.Try):
                tr = wb[0]
                b_ok = (len(tr.body) == 2 and isinstance(tr.body[0], ast.Assign) and conn_call(tr.body[0].value) == "read_message"
                        and isinstance(tr.body[1], ast.Expr) and isinstance(tr.body[1].value, ast.Call)
                        and is_self_attr(tr.body[1].value.func, "handle"))
                names = [hd.type.id if isinstance(hd.type, ast.Name) else None for hd in tr.handlers]
                h_ok = names == ["EOFError", "Exception"] and all(
                    any(isinstance(n, ast.Break) for n in hd.body) and not any(conn_call(n) in ("write_response", "write_error") for n in ast.walk(hd))
                    for hd in tr.handlers)
                e_ok = not any(isinstance(n, (ast.Break, ast.Return, ast.Raise)) for s in tr.orelse for n in ast.walk(s)) and not tr.finalbody
                run_ok = b_ok and h_ok and e_ok
    if not run_ok:
        out["unknown"].append("run loop not recognised")
    out["run_ok"] = run_ok
    # does handle itself flow elsewhere?  `self.handle` may only be called from run
    callers = [name for name, fn in funcs.items() for n in ast.walk(fn)
               if isinstance(n, ast.Call) and is_self_attr(n.func, "handle")]
    out["handle_callers"] = callers
    return out


def render(t) -> str:
    L = []
    L.append("(* GENERATED by harness/translators/proto.py from fortls/langserver.py -- do not edit *)")
    L.append("From Coq Require Import ZArith String List.")
    L.append("From FV Require Import C01.Syntax.")
    L.append("Import ListNotations.")
    L.append("Open Scope string_scope.")
    L.append("Definition table : list (string * string) := [")
    L.append(";\n".join("  (%s, %s)" % (q(k), q(v)) for k, v in t.get("table", [])))
    L.append("].")
    L.append("Definition proto : proto_desc := {|")
    L.append("  p_table := table;")
    L.append("  p_default := %s;" % q(t.get("default") or "?"))
    L.append("  p_default_code := %s;" % ("None" if t.get("default_code") is None else "Some (%d)%%Z" % t["default_code"]))
    L.append("  p_notif := %s;" % t.get("notif", "NotifUnknown"))
    L.append("  p_excs := [%s];" % "; ".join(t.get("excs", [])))
    L.append("  p_else_resp := %s;" % ("true" if t.get("else_resp") else "false"))
    L.append("  p_run_ok := %s;" % ("true" if t.get("run_ok") else "false"))
    resp_writers = sorted(set(fn for fn, m in t.get("writers", []) if m in ("write_response", "write_error")))
    L.append("  p_resp_writers := [%s];" % "; ".join(q(x) for x in resp_writers))
    L.append("  p_running := [%s];" % "; ".join("(%s, %s)" % (q(fn), v) for fn, v in t.get("running", [])))
    L.append("  p_handle_callers := [%s];" % "; ".join(q(x) for x in t.get("handle_callers", [])))
    L.append("  p_lazy := [%s];" % ";\n    ".join("(%s, %s)" % (q(a), q(b)) for a, b in t.get("lazy", [])))
    L.append("  p_unknown := [%s]" % "; ".join(q(x) for x in t.get("unknown", [])))
    L.append("|}.")
    return "\n".join(L) + "\n"


def regenerate():
    return write_if_changed(os.path.join(GEN, "GenProto.v"), render(translate()))


if __name__ == "__main__":
    print(render(translate()))
