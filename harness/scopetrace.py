"""Record, for one FortranFile.parse(), the implementation's classification of every logical
line (the token stream of Shared/ScopeMachine.v) and the resulting scope objects.

The wrappers are installed on the classes in the harness process only (no hook in /repo).
"""
from __future__ import annotations

import contextlib

from .common import clist, cnat, cstr

EREG_NAMES = ["END_MOD", "END_SMOD", "END_PROG", "END_SUB", "END_FUN", "END_BLOCK", "END_DO", "END_WHERE", "END_ASSOCIATE", "END_IF",
              "END_SELECT", "END_TYPED", "END_ENUMD", "END_INT", "END_PRO"]
EREG_COQ = {"END_MOD": "ERMod", "END_SMOD": "ERSmod", "END_PROG": "ERProg", "END_SUB": "ERSub", "END_FUN": "ERFun", "END_BLOCK": "ERBlock",
            "END_DO": "ERDo", "END_WHERE": "ERWhere", "END_ASSOCIATE": "ERAssoc", "END_IF": "ERIf", "END_SELECT": "ERSelect",
            "END_TYPED": "ERType", "END_ENUMD": "EREnum", "END_INT": "ERInt", "END_PRO": "ERPro"}
CLASS_KIND = {"Module": "KMod", "Submodule": "KSmod", "Program": "KProg", "Subroutine": "KSub", "Function": "KFun", "Block": "KBlock",
              "Do": "KDo", "Where": "KWhere", "Associate": "KAssoc", "If": "KIf", "Type": "KType", "Enum": "KEnum", "Interface": "KInt",
              "Scope": "KImpl"}


@contextlib.contextmanager
def recording():
    from fortls.parsers.internal import parser as P
    from fortls.parsers.internal.ast import FortranAST
    from fortls.regex_patterns import FortranRegularExpressions as F
    rec = {"events": [], "created": [], "ln": [0]}
    FF = P.FortranFile
    orig = {}

    def wrap(cls, name, fn):
        orig[(cls, name)] = getattr(cls, name)
        setattr(cls, name, fn)

    # the statement label of the current line, as the parse loop computed it (strip_line_label is called once per statement)
    o_strip = P.strip_line_label

    def w_strip(line):
        r = o_strip(line)
        rec["label"] = r[1]
        return r
    P.strip_line_label = w_strip
    rec["_restore_strip"] = o_strip
    o_end = FF.parse_end_scope_word

    def w_end(self, line, ln, file_ast, match):
        from fortls.constants import DO_TYPE_ID
        closes_do = file_ast.current_scope is not None and file_ast.current_scope.get_type() == DO_TYPE_ID
        info = None
        if match is not None:
            bare = match.group(1) is None
            ends = []
            if not bare:
                rest = line[match.start(1):]
                ends = [n for n in EREG_NAMES if getattr(F, n).match(rest) is not None]
            info = (bare, ends)
        r = o_end(self, line, ln, file_ast, match)
        rec["events"].append(("end", ln, info, r, rec.get("label") if closes_do else None))
        return r
    wrap(FF, "parse_end_scope_word", w_end)
    o_lab = FF.parse_do_fixed_format

    def w_lab(self, line, ln, file_ast, line_label, block_id_stack):
        r = o_lab(self, line, ln, file_ast, line_label, block_id_stack)
        rec["events"].append(("label", ln, line_label, r))
        return r
    wrap(FF, "parse_do_fixed_format", w_lab)
    o_imp = FF.parse_implicit

    def w_imp(self, line, ln, file_ast):
        rec["ln"][0] = ln
        return o_imp(self, line, ln, file_ast)
    wrap(FF, "parse_implicit", w_imp)
    o_def = FF.get_fortran_definition

    def w_def(self, line):
        r = o_def(self, line)
        if r is not None:
            rec["events"].append(("def", rec["ln"][0], r[0], r[1]))
        return r
    wrap(FF, "get_fortran_definition", w_def)
    o_add = FortranAST.add_scope

    def w_add(self, new_scope, end_scope_regex, exportable=True, req_container=False):
        rec["created_pending"] = True
        r = o_add(self, new_scope, end_scope_regex, exportable, req_container)
        # creation order: a none scope created inside comes first
        if new_scope not in rec["created"]:
            if self.none_scope is not None and self.none_scope not in rec["created"] and new_scope is not self.none_scope:
                rec["created"].append(self.none_scope)
            rec["created"].append(new_scope)
        rec["events"].append(("add_scope", new_scope.sline, type(new_scope).__name__, new_scope.name, getattr(new_scope, "select_type", None),
                              new_scope is self.none_scope))
        return r
    wrap(FortranAST, "add_scope", w_add)
    o_var = FortranAST.add_variable

    def w_var(self, new_var):
        rec["events"].append(("add_variable", rec["ln"][0]))
        r = o_var(self, new_var)
        if self.none_scope is not None and self.none_scope not in rec["created"]:
            rec["created"].append(self.none_scope)
        return r
    wrap(FortranAST, "add_variable", w_var)
    o_use = FortranAST.add_use

    def w_use(self, use_mod):
        rec["events"].append(("add_use", rec["ln"][0]))
        r = o_use(self, use_mod)
        if self.none_scope is not None and self.none_scope not in rec["created"]:
            rec["created"].append(self.none_scope)
        return r
    wrap(FortranAST, "add_use", w_use)
    o_mem = FortranAST.add_int_member

    def w_mem(self, key):
        rec["events"].append(("add_int_member", rec["ln"][0]))
        return o_mem(self, key)
    wrap(FortranAST, "add_int_member", w_mem)
    o_close = FortranAST.close_file

    def w_close(self, line_number):
        rec["close_ln"] = line_number
        return o_close(self, line_number)
    wrap(FortranAST, "close_file", w_close)
    try:
        yield rec
    finally:
        for (cls, name), fn in orig.items():
            setattr(cls, name, fn)
        P.strip_line_label = rec["_restore_strip"]


def tokens_of(events):
    """events -> [(line, coq token text, python token tuple)]"""
    toks = []
    i = 0
    n = len(events)
    while i < n:
        ev = events[i]
        k = ev[0]
        if k == "end":
            _, ln, info, closed, do_label = ev
            if info is not None:
                bare, ends = info
                if do_label is not None:
                    toks.append((ln, "(TEndDo %s %s %s)" % ("true" if bare else "false", clist(ends, lambda e: EREG_COQ[e]), cstr(do_label)), ("enddo", bare, ends, do_label)))
                else:
                    toks.append((ln, "(TEnd %s %s)" % ("true" if bare else "false", clist(ends, lambda e: EREG_COQ[e])), ("end", bare, ends)))
            i += 1
        elif k == "label":
            _, ln, lbl, closed = ev
            if lbl is not None:
                toks.append((ln, "(TLabelled %s)" % cstr(lbl), ("label", lbl)))
            i += 1
        elif k == "def":
            _, ln, ty, info = ev
            # effects recorded up to the next end/label/def belong to this statement
            j = i + 1
            eff = []
            while j < n and events[j][0] in ("add_scope", "add_variable", "add_use", "add_int_member"):
                eff.append(events[j]); j += 1
            adds = [e for e in eff if e[0] == "add_scope" and not e[5]]
            if ty == "var":
                pro = getattr(info, "var_type", "")[:3] == "PRO"
                if any(e[0] in ("add_variable", "add_int_member") for e in eff):
                    toks.append((ln, "(TVar %s)" % ("true" if pro else "false"), ("var", pro)))
            elif ty in ("use", "import"):
                toks.append((ln, "TUse", ("use",)))
            elif ty == "do" and adds:
                toks.append((ln, "(TDo %s %s)" % (cstr(info or ""), cstr(adds[0][3])), ("do", info, adds[0][3])))
            elif ty == "select" and adds:
                toks.append((ln, "(TSelect %s %s)" % (cnat(adds[0][4] or 0), cstr(adds[0][3])), ("select", adds[0][4], adds[0][3])))
            elif ty == "gen" and adds:
                toks.append((ln, "(TGeneric %s)" % cstr(adds[0][3]), ("gen", adds[0][3])))
            elif ty == "int_pro":
                name = info[0] if info else ""
                toks.append((ln, "(TIntPro %s)" % cstr(name), ("int_pro", name)))
            elif adds:
                kind = CLASS_KIND.get(adds[0][2])
                if kind is None:
                    toks.append((ln, "TPlain", ("unknown-class", adds[0][2])))
                else:
                    toks.append((ln, "(TOpen %s %s)" % (kind, cstr(adds[0][3])), ("open", kind, adds[0][3])))
            i = j
        else:
            i += 1
    return toks


def type_id(obj):
    try:
        t = obj.get_type()
    except Exception:
        t = -99
    if type(obj).__name__ == "Scope":
        return 0
    return t


def scope_records(rec, file_ast):
    created = rec["created"]
    out = []
    for sc in created:
        parent = sc.parent
        pi = created.index(parent) if parent in created else None
        out.append((type_id(sc), sc.name, sc.sline, sc.eline, pi))
    return out


def coq_scopes(records):
    return clist(records, lambda r: "(%s, %s, %s, %s, %s)" % (cnat(max(r[0], 0)), cstr(r[1]), cnat(r[2]), cnat(r[3]),
                                                           "None" if r[4] is None else "(Some %s)" % cnat(r[4])))


def coq_tokens(toks):
    return clist(toks, lambda t: "(%s, %s)" % (cnat(t[0]), t[1]))


def parse_recorded(text, path="/nonexistent/t.f90", pp=False):
    """returns (tokens, scope records, end_errors, nlines, exception or None)"""
    from fortls.parsers.internal.parser import FortranFile, splitlines
    f = FortranFile(path)
    f.preproc = pp
    with recording() as rec:
        f.set_contents(splitlines(text))
        try:
            ast = f.parse()
            err = None
        except Exception as ex:
            ast, err = None, ex
    toks = tokens_of(rec["events"])
    if ast is None:
        return toks, None, None, rec.get("close_ln", f.nLines), err
    return toks, scope_records(rec, ast), [tuple(e) for e in ast.end_errors], rec.get("close_ln", f.nLines), None
