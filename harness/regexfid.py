"""Engine fidelity: CPython `re` against Base/Regex.v on every generated pattern
(DESIGN.md 3.3).  Measured on every run, not proved; part of the trusted base of every
property that uses Gen/GenRegex.v.
"""
from __future__ import annotations

import re

from .common import clist, cnat, cstr
from .translators import regex as rtr

try:
    import re._parser as sre_parse
except ImportError:
    import sre_parse

IMPORTS = ("From Coq Require Import String.\nFrom FV Require Import Base.Str Base.Regex Base.RegexCheck Gen.GenRegex.\n")


def members(av, rng):
    """a member character of an IN item list"""
    pos = []
    for op, a in av:
        n = str(op)
        if n == "LITERAL":
            pos.append(chr(a))
        elif n == "RANGE":
            pos.append(chr(rng.randrange(a[0], a[1] + 1)))
        elif n == "CATEGORY":
            pos.append({"CATEGORY_WORD": "a_Z9", "CATEGORY_DIGIT": "07", "CATEGORY_SPACE": " \t", "CATEGORY_NOT_WORD": " (%",
                        "CATEGORY_NOT_DIGIT": "a ", "CATEGORY_NOT_SPACE": "a("}.get(str(a), "a")[rng.randrange(0, 2)])
    neg = any(str(op) == "NEGATE" for op, _ in av)
    if neg or not pos:
        return rng.choice("az09 _(,:'\"!&=*")
    return rng.choice(pos)


def sample(tree, rng, ci):
    out = []
    for op, av in tree:
        n = str(op)
        if n == "LITERAL":
            c = chr(av)
            if ci and rng.random() < 0.4:
                c = c.swapcase()
            out.append(c)
        elif n == "NOT_LITERAL":
            out.append(rng.choice("ab (,"))
        elif n == "ANY":
            out.append(rng.choice("ab1 (),:=*'\"%"))
        elif n == "IN":
            c = members(av, rng)
            if ci and rng.random() < 0.3:
                c = c.swapcase()
            out.append(c)
        elif n in ("MAX_REPEAT", "MIN_REPEAT"):
            lo, hi, sub = av
            k = rng.choice([lo, lo, lo + 1, lo + 2]) if hi > lo else lo
            k = min(k, hi, lo + 3)
            for _ in range(k):
                out.append(sample(sub, rng, ci))
        elif n == "SUBPATTERN":
            out.append(sample(av[3], rng, ci))
        elif n == "BRANCH":
            out.append(sample(rng.choice(av[1]), rng, ci))
    return "".join(out)


def alphabet(pattern):
    s = set(c for c in pattern if c.isalnum() or c in " _(),:=*'\"%!&;.$+-/<>[]#")
    return "".join(sorted(s | set("aZ0 _(,'!")))


def mutate(s, alpha, rng):
    if not s or rng.random() < 0.45:
        return s
    k = rng.choice(["ins", "del", "rep", "trunc", "case", "pre", "suf"])
    i = rng.randrange(len(s))
    if k == "ins":
        return s[:i] + rng.choice(alpha) + s[i:]
    if k == "del":
        return s[:i] + s[i + 1:]
    if k == "rep":
        return s[:i] + rng.choice(alpha) + s[i + 1:]
    if k == "trunc":
        return s[:i]
    if k == "case":
        return s[:i] + s[i].swapcase() + s[i + 1:]
    if k == "pre":
        return "".join(rng.choice(alpha) for _ in range(rng.randrange(1, 4))) + s
    return s + "".join(rng.choice(alpha) for _ in range(rng.randrange(1, 4)))


def spans(m):
    if m is None:
        return None
    gs = []
    for g in range(1, (m.re.groups or 0) + 1):
        gs.append(None if m.span(g) == (-1, -1) else m.span(g))
    return (m.start(), m.end(), gs)


def coq_span(sp):
    return "None" if sp is None else "(Some (%s, %s))" % (cnat(sp[0]), cnat(sp[1]))


def coq_res(r):
    if r is None:
        return "None"
    return "(Some (%s, %s, %s))" % (cnat(r[0]), cnat(r[1]), clist(r[2], coq_span))


def cases_for(name, pattern, flags, rng, n):
    rx = re.compile(pattern, flags)
    tree = sre_parse.parse(pattern, flags)
    ci = bool(flags & re.I)
    alpha = alphabet(pattern)
    out = []
    seen = set()
    tries = 0
    while len(out) < n and tries < n * 5:
        tries += 1
        s = sample(tree, rng, ci)
        s = mutate(mutate(s, alpha, rng), alpha, rng)
        if rng.random() < 0.08:
            s = "".join(rng.choice(alpha) for _ in range(rng.randrange(0, 12)))
        s = s[:28]
        if any(ord(c) > 127 for c in s) or s in seen:
            continue
        seen.add(s)
        mm = spans(rx.match(s))
        ms = spans(rx.search(s))
        it = [(m.start(), m.end()) for m in rx.finditer(s)]
        empties = any(a == b for a, b in it)
        e = ["chk_match P_%s %s %s" % (name, cstr(s), coq_res(mm)), "chk_search P_%s %s %s" % (name, cstr(s), coq_res(ms))]
        if not empties:
            e.append("chk_finditer P_%s %s %s" % (name, cstr(s), clist(it, lambda ab: "(%s, %s)" % (cnat(ab[0]), cnat(ab[1])))))
        out.append((s, " && ".join(e), mm is not None or ms is not None))
    return out


def run(ctx, per_pattern, only=None):
    """Compare on every pattern; returns dict with counts.  Reports mismatches through ctx."""
    pats = rtr.collect()
    coq = ctx.coq(IMPORTS)
    exprs = []
    meta = []
    matched = 0
    for name, pattern, flags in pats:
        if only is not None and name not in only:
            continue
        for s, e, hit in cases_for(name, pattern, flags, ctx.rng, per_pattern):
            exprs.append(e)
            meta.append((name, pattern, s))
            matched += hit
    bad = coq.bools(exprs, shard=400, timeout=900)
    for b in bad[:10]:
        name, pattern, s = meta[b]
        ctx.report("regex-engine:%s" % name, "Base/Regex.v disagrees with CPython re on pattern %s" % name,
                   {"kind": "broken-correspondence", "input": {"pattern": pattern, "string": s},
                    "correspondence": "FV.Base.Regex vs CPython re (engine fidelity)"}, found_input=False)
    info = {"patterns": len(set(m[0] for m in meta)), "strings": len(exprs), "strings_with_a_match": matched, "mismatches": len(bad)}
    ctx.extra["regex_engine_fidelity"] = info
    return info
