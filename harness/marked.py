"""A catalogue of hand-written, standard-conforming workspaces in which every occurrence of the tested entities is
annotated:  {name#ID}  marks an occurrence bound to entity ID,  {name#ID!}  its declaration,
{name#ID~tag}  an occurrence whose go-to-definition is the recorded known finding <prop>:tag (a bare ~ = use-rename-remote-name, the
remote name of `local => remote`).  Occurrences of other
entities with the same spelling, and spellings inside comments and character literals, are deliberately left unmarked.
Used by C05 (go-to-definition lands on the declaration) and C06 (references = exactly the marked occurrences,
from every occurrence; also after an incremental single-line edit)."""
from __future__ import annotations

import os
import re
import shutil
import tempfile

from . import impl

MARK = re.compile(r"\{(\w+)#(\w+)(!|~[\w-]*)?\}")

CATALOGUE = {
    "extends_chain": {
        "shapes_base.f90": """module shapes_base
  implicit none
  type :: {shape#T1!}
    integer :: {id#C1!}
    real :: {area#C2!}
  end type
end module shapes_base
""",
        "shapes_poly.f90": """module shapes_poly
  use shapes_base
  implicit none
  type, extends({shape#T1}) :: {polygon#T2!}
    integer :: {nsides#C3!}
  end type
  type, extends({polygon#T2}) :: {square#T3!}
    real :: {side#C4!}
  end type
contains
  subroutine work()
    type({square#T3}) :: sq
    type({polygon#T2}) :: pg
    integer :: id   ! a local with the spelling of a component
    id = 7
    sq%{id#C1} = 1
    sq%{area#C2} = 2.0
    sq%{nsides#C3} = 4
    sq%{side#C4} = 1.0
    pg%{id#C1} = 2
    pg%{nsides#C3} = 3
    print *, "sq%id and area", id
  end subroutine work
end module shapes_poly
""",
    },
    "submodule_private": {
        "counters.f90": """module counters
  implicit none
  private
  integer :: {n_calls#V1!} = 0
  public :: bump
  interface
    module subroutine bump()
    end subroutine
  end interface
contains
  subroutine {reset#P1!}()
    {n_calls#V1} = 0
  end subroutine
end module counters
""",
        "counters_impl.f90": """submodule (counters) counters_impl
contains
  module subroutine bump()
    {n_calls#V1} = {n_calls#V1} + 1
    if ({n_calls#V1} > 100) call {reset#P1}()
  end subroutine bump
end submodule counters_impl
""",
        "main.f90": """program main
  use counters, only: bump
  implicit none
  integer :: n_calls
  n_calls = 5
  call bump()
  print *, "n_calls and reset in a string", n_calls  ! n_calls, reset in a comment
end program main
""",
    },
    "type_bound": {
        "tb.f90": """module tb
  implicit none
  type :: {acc#T1!}
    integer :: {total#C1!} = 0
  contains
    procedure :: add => acc_add
  end type
contains
  subroutine acc_add(self, {k#A1})
    class({acc#T1}), intent(inout) :: self
    integer, intent(in) :: {k#A1!}
    self%{total#C1} = self%{total#C1} + {k#A1}
  end subroutine
  subroutine driver()
    type({acc#T1}) :: a
    integer :: k
    k = 3
    call a%add(k)
    print *, a%{total#C1}
  end subroutine
end module tb
""",
    },
    "host_shadow": {
        "sh.f90": """program sh
  implicit none
  integer :: {v#V1!}
  {v#V1} = 1
  call inner()
  print *, {v#V1}, "v"   ! v
contains
  subroutine inner()
    integer :: {v#V2!}
    {v#V2} = 2
    print *, {v#V2}
  end subroutine inner
  subroutine other()
    {v#V1} = 3 + {v#V1}
  end subroutine other
end program sh
""",
    },
    "rename_chain": {
        "consts.f90": """module consts
  implicit none
  real :: {tol#V1!} = 1.0e-6
  real :: eps = 1.0
end module consts
""",
        "numerics.f90": """module numerics
  use consts
  implicit none
end module numerics
""",
        "solver.f90": """module solver
  use numerics, only: {eps#V1} => {tol#V1~}
  implicit none
contains
  subroutine solve(x)
    real, intent(inout) :: x
    if (x < {eps#V1}) x = {eps#V1}
  end subroutine solve
end module solver
""",
    },
    "private_access": {
        "pa_inc.f90": """integer :: secret
integer :: {shown#S2!}
""",
        "pa_m.f90": """module pa_m
  implicit none
  include 'pa_inc.f90'
  private :: secret
end module pa_m
""",
        "pa_base.f90": """module pa_base
  implicit none
  integer :: {bx#B1!}, by
end module pa_base
""",
        "pa_r.f90": """module pa_r
  use pa_base
  implicit none
  private :: by
end module pa_r
""",
        "pa_i.f90": """module pa_i
  implicit none
  private
  public :: api
  interface
    subroutine cb(x)
      integer :: x
    end subroutine cb
  end interface
contains
  subroutine {api#I1!}()
  end subroutine api
end module pa_i
""",
        "pa_o.f90": """module pa_o
  implicit none
  integer :: {secret#O1!}
  integer :: {by#O3!}
contains
  subroutine {cb#O2!}(y)
    real :: y
  end subroutine cb
end module pa_o
""",
        "pa_main.f90": """program pa_main
  use pa_m
  use pa_i
  use pa_r
  use pa_o
  implicit none
  {secret#O1} = 1
  {shown#S2} = 2
  call {cb#O2}(1.0)
  call {api#I1}()
  {by#O3~private-use-associated} = 3
  {bx#B1} = 4
end program pa_main
""",
    },
    "module_procedure_interface": {
        "geo.f90": """module geo
  implicit none
  integer, parameter :: {wp#K1!} = kind(1.0d0)
  type :: {point_t#T1!}
    real({wp#K1}) :: {x#C1!}
  end type
  interface
    module function norm1(p) result(r)
      type({point_t#T1}), intent(in) :: p
      real({wp#K1}) :: r
    end function norm1
  end interface
end module geo
""",
        "geo_impl.f90": """submodule (geo) geo_impl
contains
  module function norm1(p) result(r)
    type({point_t#T1}), intent(in) :: p
    real({wp#K1}) :: r
    r = abs(p%{x#C1})
  end function norm1
end submodule geo_impl
""",
    },
    "include_names": {
        "inc_body.f90": """integer, parameter :: {nmax#N1!} = 10
real :: {tol#N2!}
""",
        "inc_host.f90": """module inc_host
  implicit none
  real :: {tol#M1!} = 1.0
contains
  subroutine inc_user()
    include 'inc_body.f90'
    real :: work({nmax#N1})
    {tol#N2} = 0.5
    work = {tol#N2}
  end subroutine inc_user
  subroutine other()
    {tol#M1} = 2.0
  end subroutine other
end module inc_host
""",
    },
    "literals_and_separators": {
        "lits.f90": """program lits
  implicit none
  type :: cell_t
    integer :: {cnt#C1!}
  end type
  type(cell_t) :: obj
  character(len=10) :: s
  integer :: {n#V1!}, x
  integer :: {i#V2!}
  integer :: a(5)
  logical :: {is_true_flag#V3!}
  {is_true_flag#V3} = .true. .and. .not. {is_true_flag#V3}
  {n#V1} = 2
  s = "abcdefghij"
  print *, "it's" // s(1:{n#V1}) // "it's n"
  x=1;obj%{cnt#C1}=2
  obj%{cnt#C1} = obj%{cnt#C1} + {n#V1}
  print *, 'n = ', {n#V1}, ' cnt!', obj%{cnt#C1}   ! n and cnt in a comment
  a = [({i#V2}*{i#V2}, {i#V2}=1,5)]
  print *, (a({i#V2}), {i#V2}=1,{n#V1})
  forall ({i#V2} = 1:5) a({i#V2}) = {i#V2}
  do concurrent ({i#V2} = 1:5)
    a({i#V2}) = {n#V1}
  end do
end program lits
""",
    },
    "disjoint_only": {
        "do_units.f90": """module do_units
  implicit none
  real :: metre = 1.0
  real :: {foot#U1!} = 0.3048
  integer :: counter = 0
end module do_units
""",
        "do_conv.f90": """module do_conv
  use do_units, only: {foot#U1}
  implicit none
contains
  subroutine {to_si#P1!}(x)
    real, intent(inout) :: x
    x = x * {foot#U1}
  end subroutine
end module do_conv
""",
        "do_solver.f90": """module do_solver
  implicit none
  real :: {metre#S1!}
  integer :: {counter#S2!}
contains
  subroutine solve(y)
    use do_conv, only: {to_si#P1}
    real, intent(inout) :: y
    {metre#S1} = 3.0
    {counter#S2} = {counter#S2} + 1
    call {to_si#P1}(y)
  end subroutine solve
end module do_solver
""",
    },
    "reexport_chain": {
        "rc_a.f90": """module rc_a
  implicit none
  type :: {base_t#T1!}
    integer :: {id#C1!}
    real :: {area#C2!}
  end type
end module rc_a
""",
        "rc_b.f90": """module rc_b
  use rc_a
  implicit none
  type, extends({base_t#T1}) :: {mid_t#T2!}
    integer :: {layers#C3!}
  end type
end module rc_b
""",
        "rc_c.f90": """module rc_c
  use rc_b
  implicit none
  type, extends({mid_t#T2}) :: {leaf_t#T3!}
    real :: {height#C4!}
  end type
contains
  subroutine use_all()
    type({leaf_t#T3}) :: brick
    type({base_t#T1}) :: flat
    brick%{id#C1} = 1
    brick%{area#C2} = 2.0
    brick%{layers#C3} = 3
    brick%{height#C4} = 4.0
    flat%{id#C1} = 5
    flat%{area#C2} = 6.0
  end subroutine use_all
end module rc_c
""",
    },
    "component_named_like_type": {
        "cn_types.f90": """module cn_types
  implicit none
  type :: {point#T1!}
    real :: {px#C1!}
    integer :: {code#C5!}
  end type
  type :: {state#T2!}
    integer :: {scode#C2!}
  end type
  type :: base_box
    integer :: state
  end type
  type, extends(base_box) :: {box#T3!}
    type({point#T1}) :: {point#C3!}
    type({state#T2}) :: {cur#C4!}
    integer :: code
  end type
end module cn_types
""",
        "cn_use.f90": """subroutine cn_use()
  use cn_types
  implicit none
  type({box#T3}) :: b
  b%{point#C3}%{px#C1} = 1.0
  b%{point#C3}%{code#C5} = 2
  b%{cur#C4}%{scode#C2} = 3
  b%code = 4
  b%state = 5
end subroutine cn_use
""",
    },
    "generic_spec_visibility": {
        "gv_vec.f90": """module gv_vec
  implicit none
  private
  public :: vec, operator(+), {norm#P1}, operator(.dot.), {scale_by#P2}
  type :: vec
    real :: x
  end type
  interface operator(+)
    module procedure add_vec
  end interface
  interface operator(.dot.)
    module procedure dot_vec
  end interface
contains
  function add_vec(a, b) result(c)
    type(vec), intent(in) :: a, b
    type(vec) :: c
    c%x = a%x + b%x
  end function
  real function dot_vec(a, b)
    type(vec), intent(in) :: a, b
    dot_vec = a%x * b%x
  end function
  function {norm#P1!}(a) result(r)
    type(vec), intent(in) :: a
    real :: r
    r = abs(a%x)
  end function
  subroutine {scale_by#P2!}(a, f)
    type(vec), intent(inout) :: a
    real, intent(in) :: f
    a%x = a%x * f
  end subroutine
  subroutine helper()
  end subroutine
  subroutine dot()
  end subroutine
end module gv_vec
""",
        "gv_tok.f90": """module gv_tok
  implicit none
  private :: from_int, assignment(=), helper, operator(==), same_tok
  type :: tok
    integer :: k
  end type
  interface assignment(=)
    module procedure from_int
  end interface
  interface operator(==)
    module procedure same_tok
  end interface
contains
  subroutine from_int(t, i)
    type(tok), intent(out) :: t
    integer, intent(in) :: i
    t%k = i
  end subroutine
  logical function same_tok(a, b)
    type(tok), intent(in) :: a, b
    same_tok = a%k == b%k
  end function
  subroutine helper()
  end subroutine
end module gv_tok
""",
        "gv_pub.f90": """module gv_pub
  implicit none
contains
  subroutine {helper#H1!}()
  end subroutine
  subroutine {dot#H2!}()
  end subroutine
end module gv_pub
""",
        "gv_units.f90": """module gv_units
  implicit none
  private :: operator(.approx.)
  interface operator(.approx.)
    module procedure close_to
  end interface
contains
  logical function close_to(a, b)
    real, intent(in) :: a, b
    close_to = abs(a - b) < 1.0e-6
  end function close_to
  function {to_si#U1!}(x) result(y)
    real, intent(in) :: x
    real :: y
    y = 0.3048 * x
    if (y .approx. 0.0) y = 0.0
  end function
end module gv_units
""",
        "gv_main.f90": """program gv_main
  use gv_vec
  use gv_tok
  use gv_pub
  use gv_units
  implicit none
  type(vec) :: v
  print *, {norm#P1}(v)
  call {scale_by#P2}(v, 2.0)
  call {helper#H1}()
  call {dot#H2}()
  print *, {to_si#U1}(1.0)
end program gv_main
""",
    },
    "keyword_argument": {
        "kw.f90": """module kw
  implicit none
contains
  subroutine foo({cnt#A1})
    integer, intent(in) :: {cnt#A1!}
    print *, {cnt#A1}
  end subroutine foo
  subroutine bar()
    integer :: {cnt#V1!}
    {cnt#V1} = 1
    call foo({cnt#A1~argument-keyword}={cnt#V1})
  end subroutine bar
end module kw
""",
    },
    "fixed_form": {
        "ff.f": """      program ff
      implicit none
      integer {ierr#V1!}, {n#V2!}
      {ierr#V1} = 0
      {n#V2} = 1
c     ierr and n in a comment line
      {n#V2} = {n#V2} + {ierr#V1}   ! trailing n ierr
      print *, 'Failed!', {ierr#V1}
      print *, 'ierr!=', {ierr#V1}, {n#V2}
      if ({ierr#V1} .ne. 0) {n#V2} =
     &    {ierr#V1} + 2
      end
""",
    },
}


def parse_marked(files):
    """-> (plain files, occurrences [(file, line, col, length, ent, is_decl)])"""
    plain, occ = {}, []
    for name, text in files.items():
        out_lines = []
        for li, line in enumerate(text.split("\n")):
            res, pos = "", 0
            for m in MARK.finditer(line):
                res += line[pos:m.start()]
                g3 = m.group(3) or ""
                occ.append((name, li, len(res), len(m.group(1)), m.group(2), g3 == "!", (g3[1:] or "use-rename-remote-name") if g3.startswith("~") else None))
                res += m.group(1)
                pos = m.end()
            res += line[pos:]
            out_lines.append(res)
        plain[name] = "\n".join(out_lines)
    return plain, occ


class Case:
    def __init__(self, name):
        self.name = name
        self.plain, self.occ = parse_marked(CATALOGUE[name])
        self.root = tempfile.mkdtemp(prefix="verif_marked_")
        for n, t in self.plain.items():
            with open(os.path.join(self.root, n), "w") as f:
                f.write(t)
        self.srv, self.conn = impl.make_server(self.root, extra=["--nthreads", "1"])
        for n in self.plain:
            impl.did_open(self.srv, os.path.join(self.root, n))

    def close(self):
        shutil.rmtree(self.root, ignore_errors=True)

    def rel(self, uri):
        from .props.c05 import impl_path
        return os.path.relpath(impl_path(uri), self.root)

    def decl_of(self, ent):
        for o in self.occ:
            if o[4] == ent and o[5]:
                return o
        return None

    def by_ent(self):
        d = {}
        for o in self.occ:
            d.setdefault(o[4], set()).add((o[0], o[1], o[2], o[2] + o[3]))
        return d


def _definitions_pass(ctx, c, name, sig_prefix, shift, note):
    for (f, li, col, ln, ent, is_decl, kf) in c.occ:
        if is_decl:
            continue
        d = c.decl_of(ent)
        resp, _ = impl.request(c.srv, c.conn, "textDocument/definition", impl.pos_params(os.path.join(c.root, f), li + shift.get(f, 0), col + 1))
        got = None
        if resp and resp[0] == "r" and resp[2]:
            got = (c.rel(resp[2]["uri"]), resp[2]["range"]["start"]["line"])
        ctx.count(("marked-def", name, f, li, col, note), True)
        want = (d[0], d[1] + shift.get(d[0], 0))
        if got != want:
            ctx.report("%s:%s" % (sig_prefix, kf) if kf else "%s:catalogue-%s" % (sig_prefix, name),
                       "go-to-definition on '%s' (%s:%d:%d)%s lands on %s, it is declared at %s:%d" % (
                           c.plain[f].split("\n")[li][col:col + ln], f, li + shift.get(f, 0), col, note, got, want[0], want[1]),
                       {"kind": "counterexample", "input": {"files": c.plain, "at": [f, li, col], "history": note}, "implementation": got, "oracle": list(want)})
            if not kf:
                return False
    return True


def check_definitions(ctx, sig_prefix="C05"):
    for name in CATALOGUE:
        c = Case(name)
        try:
            shift = {}
            if not _definitions_pass(ctx, c, name, sig_prefix, shift, ""):
                continue
            # the same program after a file was rewritten on disk with one comment line added on top and saved: every line of
            # that file moves down by one; answers must follow (cross-file links, inherited members)
            for f in sorted(c.plain):
                shift[f] = shift.get(f, 0) + 1
                path = os.path.join(c.root, f)
                with open(path) as fh:
                    cur = fh.read()
                with open(path, "w") as fh:
                    fh.write("! saved again\n" + cur)
                impl.did_save(c.srv, path)
                if not _definitions_pass(ctx, c, name, sig_prefix, shift, " after saving %s with a line added on top" % f):
                    break
        finally:
            c.close()


def refs_at(c, f, li, col):
    p = impl.pos_params(os.path.join(c.root, f), li, col + 1)
    p["context"] = {"includeDeclaration": True}
    resp, _ = impl.request(c.srv, c.conn, "textDocument/references", p)
    if resp and resp[0] == "r" and resp[2] is not None:
        return {(c.rel(r["uri"]), r["range"]["start"]["line"], r["range"]["start"]["character"], r["range"]["end"]["character"]) for r in resp[2]}
    return None


# cases whose entity is reachable under another spelling: the name-based scan cannot find those occurrences (known finding)
ALIAS_CASES = {"rename_chain": "renamed-alias", "keyword_argument": "argument-keyword"}
# cases about accessibility and INCLUDE: definitions only (find-references over included declarations is not what they test)
DEFINITIONS_ONLY = {"private_access", "include_names"}


def check_references(ctx, sig_prefix="C06"):
    for name in CATALOGUE:
        if name in DEFINITIONS_ONLY:
            continue
        c = Case(name)
        tag = ALIAS_CASES.get(name, "catalogue-" + name)
        try:
            truth = c.by_ent()
            for ent, want in truth.items():
                for (f, li, a, b) in sorted(want):
                    got = refs_at(c, f, li, a)
                    ctx.count(("marked-ref", name, ent, f, li, a), True)
                    if got == want and b - a > 2:
                        got = refs_at(c, f, li, a + (b - a) // 2)       # the same question asked from the middle of the name
                    if got != want:
                        ctx.report("%s:%s" % (sig_prefix, tag), "find-references from %s:%d:%d does not return exactly the occurrences of the entity" % (f, li, a),
                                   {"kind": "counterexample", "input": {"files": c.plain, "at": [f, li, a]}, "implementation": sorted(got) if got is not None else None,
                                    "oracle": sorted(want), "missing": sorted(want - (got or set())), "extra": sorted((got or set()) - want)})
                        break
            # an incremental single-line edit (no line break) after the first scan: two blanks inserted at the start of a line
            # that carries occurrences; every occurrence on that line moves right by two columns
            lines_with = sorted({(f, li) for (f, li, a, b) in set().union(*truth.values())})
            if lines_with and name not in ALIAS_CASES:
                f, li = lines_with[ctx.rng.randrange(len(lines_with))]
                path = os.path.join(c.root, f)
                impl.did_change(c.srv, path, [{"range": {"start": {"line": li, "character": 0}, "end": {"line": li, "character": 0}}, "text": "  "}])
                for ent, want in truth.items():
                    moved = {(ff, ll, a + 2, b + 2) if (ff, ll) == (f, li) else (ff, ll, a, b) for (ff, ll, a, b) in want}
                    ff, ll, a, b = sorted(moved)[0]
                    got = refs_at(c, ff, ll, a)
                    ctx.count(("marked-ref-edit", name, ent, f, li), True)
                    if got != moved:
                        ctx.report("%s:%s-after-edit" % (sig_prefix, tag),
                                   "after a single-line edit (two blanks inserted at %s:%d:0) find-references no longer returns the occurrences" % (f, li),
                                   {"kind": "counterexample", "input": {"files": c.plain, "edit": [f, li, 0, "  "], "at": [ff, ll, a]},
                                    "implementation": sorted(got) if got is not None else None, "oracle": sorted(moved)})
        finally:
            c.close()
