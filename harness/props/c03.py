"""C03 -- indexing is total and terminates on every document text.

Obligations: C03/Props.v (scope machine safety for every token stream).
Trace validation: the implementation's own line classifications replayed through
Shared/ScopeMachine.v; compared: scope objects (type, name, start/end line, parent), end errors.
Oracle: parse() and the didOpen -> didChange -> documentSymbol path: no exception, no
'Error during parsing' message, within a time limit.
"""
from __future__ import annotations

import glob
import json
import os
import shutil
import signal
import tempfile
import time

from .. import impl, scopetrace
from ..common import BASE_TRUST, REPO, clist, cnat

IMPORTS = "From FV Require Import Base.Str Shared.ScopeMachine C03.Model."


class Timeout(BaseException):   # not an Exception: handlers of the implementation must not swallow it
    pass


ARMED = [False]


def _alarm(signum, frame):
    if ARMED[0]:
        raise Timeout()


def sample_sources():
    out = []
    for p in sorted(glob.glob(os.path.join(REPO, "test", "test_source", "**", "*"), recursive=True)):
        ext = os.path.splitext(p)[1]
        if os.path.isfile(p) and ext.lower() in (".f90", ".f", ".f08", ".f03", ".h", ".inc"):
            try:
                with open(p, encoding="utf-8", errors="replace") as f:
                    out.append((os.path.relpath(p, REPO), f.read()))
            except OSError:
                pass
    return out


NOISE = ["#define n (n+1)", "#define aa bb", "#define bb aa", "k = n + aa", "#define chk(s) call r(chk(s))", "chk(1)", "#define i i", "#define do_x do_x + 1",
         "#if", "#define X \\", "#define Y(a,b) a\\b", "#endif", "#else", "#include \"x", "procedure(foo) :: bar", "end", "contains",
         "implicit &", " none", "type, extends(", "select type (x)", "type is (", "class default", "associate (a => b, c", "10 continue",
         "do 10 i=1,", "10 end do", "do 10 i=1,3", "interface", "module procedure ", "generic :: g => ", "end select", "where (a > 0)", "block", "critical", "enum, bind(c)",
         "submodule (", "private", "public :: ", "use ", "import, none", "   &", "'", '"', "!>", "!<", "!!", ";", ";;end;", "\t", "é", "\x00"]


def gen_inputs(rng, sources, n):
    """prefixes and mutants of the sample sources"""
    out = []
    while len(out) < n:
        name, text = rng.choice(sources)
        lines = text.split("\n")
        kind = rng.choice(["line-prefix", "char-prefix", "mutate-char", "swap", "dup", "drop-end", "inject", "inject", "join", "whole"])
        if kind == "line-prefix":
            k = rng.randrange(0, len(lines) + 1)
            t = "\n".join(lines[:k])
        elif kind == "char-prefix":
            k = rng.randrange(0, len(lines))
            c = rng.randrange(0, len(lines[k]) + 1)
            t = "\n".join(lines[:k] + [lines[k][:c]])
        elif kind == "mutate-char":
            if not text:
                continue
            i = rng.randrange(len(text))
            op = rng.choice(["del", "ins", "rep"])
            ch = rng.choice("()&!;'\"=:, %*#\n\\abE0")
            t = text[:i] + ("" if op == "del" else ch) + (text[i + 1:] if op != "ins" else text[i:])
        elif kind == "swap" and len(lines) > 2:
            i, j = rng.randrange(len(lines)), rng.randrange(len(lines))
            lines = list(lines); lines[i], lines[j] = lines[j], lines[i]
            t = "\n".join(lines)
        elif kind == "dup":
            i = rng.randrange(len(lines))
            t = "\n".join(lines[:i] + [lines[i]] + lines[i:])
        elif kind == "drop-end":
            idx = [i for i, l in enumerate(lines) if l.strip().lower().startswith("end")]
            if not idx:
                continue
            i = rng.choice(idx)
            t = "\n".join(lines[:i] + lines[i + 1:])
        elif kind == "inject":
            i = rng.randrange(len(lines) + 1)
            t = "\n".join(lines[:i] + [rng.choice(NOISE) for _ in range(rng.choice([1, 1, 2, 3]))] + lines[i:])
        elif kind == "join":
            t = text.replace("\n", rng.choice([";", " ", "\r", "\r\n"]), rng.choice([1, 3, 10]))
        else:
            t = text
        ext = rng.choice([".f90", ".F90", ".f", ".F"])
        out.append((name, kind, ext, t))
    return out


KEYWORD_LINES = ["select type (x)", "sel: select type (y => x%z)", "select case (k)", "type is (integer)", "class is (t_a)", "class default", "associate (a => b%c, d => e)",
                 "type, extends(t_base), public :: t_child", "procedure(iface), pointer, nopass :: pp => null()", "generic, public :: assignment(=) => cp",
                 "interface operator(.dot.)", "end interface operator(.dot.)", "module procedure impl_a, impl_b", "submodule (par:child) grand",
                 "use, intrinsic :: iso_c_binding, only: c_int, cp => c_ptr", "import, only: a, b", "enum, bind(c)", "enumerator :: red = 1, green",
                 "where (a > 0) b = 1", "forall (i = 1:n, j = 1:m, a(i, j) > 0)", "do concurrent (i = 1:n) local(x)", "block data bd", "critical (stat=ierr)",
                 "character(len=:, kind=ck), allocatable :: s(:)", "real(kind=selected_real_kind(15, 307)), dimension(:,:), intent(inout) :: q",
                 "pure elemental recursive function f(x) result(y) bind(c, name='f')", "10 format (1x, a, i0)", "if (a) then; b = 1; else if (c) then; end if",
                 "public :: operator(+), assignment(=)", "integer function g(a, &"]


def statement_prefixes(rng, sources, nlines):
    """every character prefix of statements that the readers treat specially, placed where such a statement may stand (an editing
    session between two keystrokes); taken from the catalogue above and from the sample sources"""
    out = []
    pool = list(KEYWORD_LINES)
    for _ in range(nlines):
        name, text = rng.choice(sources)
        ls = [l for l in text.split("\n") if 3 < len(l.strip()) < 70]
        if ls:
            pool.append(rng.choice(ls).strip())
    for stmt in KEYWORD_LINES + rng.sample(pool[len(KEYWORD_LINES):], min(len(pool) - len(KEYWORD_LINES), nlines)):
        ext = rng.choice([".f90", ".F90"])
        for c in range(1, len(stmt) + 1):
            body = "  " + stmt[:c]
            out.append(("catalogue", "stmt-prefix", ext, "module m_sp\nimplicit none\ninteger :: x\ncontains\nsubroutine s_sp(y)\nclass(*) :: y\n" + body))
            if c % 4 == 0:
                out.append(("catalogue", "stmt-prefix-closed", ext, "module m_sp\ncontains\nsubroutine s_sp(y)\n" + body + "\nend subroutine\nend module\n"))
    return out


def parse_guarded(text, ext, limit):
    """returns (tokens, records, errs, last, exception text or None, seconds)"""
    old = signal.signal(signal.SIGALRM, _alarm)
    t0 = time.time()
    ARMED[0] = True
    # repeating: a bare `except:` of the implementation may swallow one delivery
    signal.setitimer(signal.ITIMER_REAL, limit, 0.25)
    try:
        try:
            toks, recs, errs, last, err = scopetrace.parse_recorded(text, "/nonexistent/t" + ext, pp=ext.isupper() or ext in (".F90", ".F"))
        finally:
            ARMED[0] = False
        if err is not None:
            import traceback
            err = "".join(traceback.format_exception_only(type(err), err)).strip()
    except Timeout:
        ARMED[0] = False
        toks, recs, errs, last, err = [], None, None, 0, "timeout after %ss" % limit
    finally:
        ARMED[0] = False
        signal.setitimer(signal.ITIMER_REAL, 0)
        signal.signal(signal.SIGALRM, old)
    return toks, recs, errs, last, err, time.time() - t0


def coq_errs(errs):
    return clist(errs, lambda x: "(%s, %s)" % ("None" if x[0] < 0 else "(Some %s)" % cnat(x[0]), cnat(x[1])))


def check_inputs(ctx, inputs, n_model):
    coq = ctx.coq(IMPORTS)
    exprs = []
    emeta = []
    slow = 0
    readers = {}
    for idx, (name, kind, ext, text) in enumerate(inputs):
        nl = text.count("\n") + 1
        limit = max(2.0, 2.0 * nl / 200.0)
        toks, recs, errs, last, err, secs = parse_guarded(text, ext, limit)
        for t in toks:
            readers[t[2][0]] = readers.get(t[2][0], 0) + 1
        ctx.count((ext, text), kind != "whole", sample={"from": name, "mutation": kind, "ext": ext, "text": text[-160:]})
        if err is not None:
            small = shrink(text, ext)
            ctx.report("C03:parse-raises:%s" % err.split(":")[0][:40], "FortranFile.parse raised on a document text: %s" % err[:200],
                       {"kind": "counterexample", "input": {"text": small, "ext": ext, "derived_from": name, "mutation": kind}, "implementation": err})
            continue
        if len(exprs) < n_model:
            exprs.append("chk_scopes %s %s %s %s" % (scopetrace.coq_tokens(toks), cnat(last), scopetrace.coq_scopes(recs), coq_errs(errs)))
            emeta.append((name, kind, ext, text))
    ctx.extra["tokens_seen"] = readers
    bad = coq.bools(exprs, shard=25, timeout=900)
    ctx.cov["traces_validated_against_impl"] += len(exprs)
    for b in bad[:5]:
        name, kind, ext, text = emeta[b]
        ctx.report("C03:model-impl-mismatch", "FortranAST scope bookkeeping differs from Shared.ScopeMachine on a recorded trace",
                   {"kind": "broken-correspondence", "input": {"text": text, "ext": ext, "derived_from": name, "mutation": kind},
                    "correspondence": "FV.Shared.ScopeMachine.parse vs FortranFile.parse (recorded classifications)"}, found_input=False)


def fails(text, ext):
    toks, recs, errs, last, err, secs = parse_guarded(text, ext, 3.0)
    return err is not None


def shrink(text, ext):
    lines = text.split("\n")
    changed = True
    while changed and len(lines) > 1:
        changed = False
        for i in range(len(lines)):
            cand = lines[:i] + lines[i + 1:]
            if fails("\n".join(cand), ext):
                lines = cand; changed = True; break
    return "\n".join(lines)


def check_server_path(ctx, inputs):
    """didOpen (from disk) -> didChange (whole text) -> documentSymbol: answers, no parsing error message"""
    root = tempfile.mkdtemp(prefix="verif_c03_")
    try:
        srv, conn = impl.make_server(root, extra=["--nthreads", "1"])
        for k, (name, kind, ext, text) in enumerate(inputs):
            path = os.path.join(root, "d%d%s" % (k, ext))
            with open(path, "w", encoding="utf-8", newline="") as f:
                f.write("program stale_version\nend program stale_version\n")
            conn.take()
            old = signal.signal(signal.SIGALRM, _alarm)
            ARMED[0] = True
            signal.setitimer(signal.ITIMER_REAL, 10, 0.25)
            try:
                try:
                    impl.did_open(srv, path)
                    impl.did_change(srv, path, [{"text": text}])
                    out = conn.take()
                    resp, out2 = impl.request(srv, conn, "textDocument/documentSymbol", {"textDocument": {"uri": impl.uri(path)}})
                finally:
                    ARMED[0] = False
            except Timeout:
                ARMED[0] = False
                out, out2, resp = [], [], None
                ctx.report("C03:update-hangs", "the server did not finish updating a document within 10 s",
                           {"kind": "counterexample", "input": {"text": text, "ext": ext, "derived_from": name, "mutation": kind}})
                signal.setitimer(signal.ITIMER_REAL, 0)
                signal.signal(signal.SIGALRM, old)
                srv, conn = impl.make_server(root, extra=["--nthreads", "1"])
                continue
            finally:
                ARMED[0] = False
                signal.setitimer(signal.ITIMER_REAL, 0)
                signal.signal(signal.SIGALRM, old)
            msgs = [o[2].get("message", "") for o in out + out2 if o[0] == "n" and o[1] == "window/showMessage"]
            bad_msgs = [m for m in msgs if "Error during parsing" in m or "Change request failed" in m or "Initialization failed" in m or "Unexpected error" in m]
            stale = resp is not None and resp[0] == "r" and any(s.get("name") == "stale_version" for s in (resp[2] or [])) and "stale_version" not in text
            ctx.count(("srv", ext, text), True)
            if resp is None or resp[0] != "r" or bad_msgs or stale:
                ctx.report("C03:update-refused", "the server refused to update a document or kept serving the previous version",
                           {"kind": "counterexample", "input": {"text": text, "ext": ext, "derived_from": name, "mutation": kind},
                            "implementation": {"response": repr(resp)[:300], "messages": bad_msgs, "stale": stale}})
            impl.did_close(srv, path)
            os.remove(path)
    finally:
        shutil.rmtree(root, ignore_errors=True)

def check_typing(ctx, sources, n):
    """'leave it serving the previous version's symbols': what an editor sends while the user types -- ranged one-line edits
    (a `!` typed in front of a line, or removed again) -- after each the outline must be
    the outline of the text the client now has (a fresh server opening that text)."""
    root = tempfile.mkdtemp(prefix="verif_c03_t_")
    fresh_root = tempfile.mkdtemp(prefix="verif_c03_f_")

    def outline(srv, conn, path):
        r, _ = impl.request(srv, conn, "textDocument/documentSymbol", {"textDocument": {"uri": impl.uri(path)}})
        if not r or r[0] != "r":
            return None
        return sorted((x["name"].lower(), x["kind"], x["location"]["range"]["start"]["line"], x["location"]["range"]["end"]["line"]) for x in (r[2] or []))
    try:
        srv, conn = impl.make_server(root, extra=["--nthreads", "1", "--incremental_sync"])
        fsrv, fconn = impl.make_server(fresh_root, extra=["--nthreads", "1", "--incremental_sync"])
        # plain free-form sources without continuation lines (whether a toggled line is part of a continued statement is decided
        # by heuristics of their own: outside this comparison)
        free = [(nm, t) for nm, t in sources if nm.endswith(".f90") and 5 < t.count("\n") < 120 and "&" not in t and "#" not in t]
        for k in range(n):
            name, text = free[k % len(free)] if k < len(free) else ctx.rng.choice(free)
            ext = os.path.splitext(name)[1]
            path = os.path.join(root, "t%d%s" % (k, ext))
            with open(path, "w", encoding="utf-8", newline="") as f:
                f.write(text)
            impl.did_open(srv, path)
            lines = text.replace("\r\n", "\n").replace("\r", "\n").split("\n")
            history = []
            for step in range(4):
                cand = [i for i, l in enumerate(lines) if l.strip()]
                if not cand:
                    break
                i = ctx.rng.choice(cand)
                # (other one-line edits -- a character deleted, a word typed -- are decided by heuristics on the new text of the line
                # and its continuation context; they are exercised for crashes by check_server_path, not compared here)
                kind = ctx.rng.choice(["comment", "comment", "uncomment"])
                if kind == "uncomment" and not lines[i].startswith("!"):
                    kind = "comment"
                if kind == "comment":
                    ch = {"range": {"start": {"line": i, "character": 0}, "end": {"line": i, "character": 0}}, "text": "!"}
                    lines[i] = "!" + lines[i]
                elif kind == "uncomment":
                    ch = {"range": {"start": {"line": i, "character": 0}, "end": {"line": i, "character": 1}}, "text": ""}
                    lines[i] = lines[i][1:]
                elif kind == "delete":
                    c = ctx.rng.randrange(0, len(lines[i]))
                    ch = {"range": {"start": {"line": i, "character": c}, "end": {"line": i, "character": c + 1}}, "text": ""}
                    lines[i] = lines[i][:c] + lines[i][c + 1:]
                else:
                    c = ctx.rng.randrange(0, len(lines[i]) + 1)
                    w = ctx.rng.choice([" ", "x", "end ", "&", "'", "(", "module "])
                    ch = {"range": {"start": {"line": i, "character": c}, "end": {"line": i, "character": c}}, "text": w}
                    lines[i] = lines[i][:c] + w + lines[i][c:]
                history.append(ch)
                impl.did_change(srv, path, [ch])
                got = outline(srv, conn, path)
                now = "\n".join(lines)
                fpath = os.path.join(fresh_root, "f%d_%d%s" % (k, step, ext))
                with open(fpath, "w", encoding="utf-8", newline="") as f:
                    f.write(now)
                impl.did_open(fsrv, fpath)
                want = outline(fsrv, fconn, fpath)
                impl.did_close(fsrv, fpath)
                os.remove(fpath)
                ctx.count(("typing", name, step, repr(ch)), True)
                have = srv.workspace.get(path)
                if have is not None and list(have.contents_split) != now.split("\n") and list(have.contents_split) != now.split("\n") + [""]:
                    break        # the text itself differs: C02's business (tabs read from disk), not compared here
                if got != want:
                    ctx.report("C03:stale-after-edit", "after a one-line edit the outline is not the outline of the text the client has (%s)"
                               % [x for x in (got or []) if x not in (want or [])][:2],
                               {"kind": "counterexample", "input": {"derived_from": name, "text": text, "ext": ext, "edits": history},
                                "implementation": got, "oracle": want})
                    break
            conn.take()
            impl.did_close(srv, path)
            os.remove(path)
    finally:
        shutil.rmtree(root, ignore_errors=True)
        shutil.rmtree(fresh_root, ignore_errors=True)


CORPUS = [
    ("corpus", "fixed", ".f90", "procedure(foo) :: bar\n"),
    # an unclosed macro argument list followed by a long run of blanks (the #define pattern took cubic time; fixed in /repo)
    ("corpus", "fixed", ".F90", "#define F(" + " " * 5000 + "\nprogram p\nend program p\n"),
    ("corpus", "fixed", ".F90", "#define G( a , b" + " " * 5000 + "\n#define H(" + "a " * 3000 + "\n"),
    ("corpus", "fixed", ".F90", "#define X \\\n\n"),
    ("corpus", "fixed", ".F90", "#define X a\\b\n#define Y \\q\nx = X + Y\n"),
    ("corpus", "fixed", ".F90", "#define F(a,b) a\\1b\ny = F(1,2)\n"),
    # lists that start with an empty item (an ASSOCIATE list did abort parse(); fixed in /repo), a macro redefined with another kind (fixed)
    ("corpus", "fixed", ".f90", "program p\nassociate(,a=>b)\nend associate\nassociate(,)\nend associate\ninteger :: , x\nuse m, only: , y\nend program p\n"),
    ("corpus", "fixed", ".F90", "#define N 1\nx = N\n#undef N\n#define N(a) a+1\ny = N(2)\n#undef N\n#define N 3\nz = N\n"),
    ("corpus", "fixed", ".f90", "end\nend\ncontains\nimplicit none\nprivate\n"),
    ("corpus", "fixed", ".f90", "type is (integer)\nclass default\nend select\n"),
    ("corpus", "fixed", ".f", "      do 10 i=1,2\n      do 10 j=1,2\n10    continue\n10    continue\n"),
    ("corpus", "fixed", ".f90", "generic :: g => a, b\nmodule procedure x\ninterface\nprocedure y\nend\n"),
    ("corpus", "fixed", ".F90", "#if\n#elif\n#else\n#endif\n#endif\n#ifdef\n#include\n#define\n#undef\n"),
    # macros whose expansion reaches their own name again (cpp expands each name once)
    ("corpus", "fixed", ".F90", "#define n (n+1)\nprogram p\ninteger :: k\nk = n\nend program p\n"),
    ("corpus", "fixed", ".F90", "#define old_norm new_norm\n#define new_norm old_norm\nsubroutine s()\nx = old_norm(1)\nend subroutine s\n"),
    ("corpus", "fixed", ".F90", "#define check(stat) call report(check(stat))\nsubroutine s()\ncheck(1)\nend subroutine s\n"),
    ("corpus", "fixed", ".F", "#define A A\n#define B(x) B(x)\n      y = A + B(2)\n"),
]


def search_failing(ctx):
    for item in CORPUS:
        if fails(item[3], item[2]):
            return ("C03:parse-raises", "FortranFile.parse raised on a document text",
                    {"kind": "counterexample", "input": {"text": item[3], "ext": item[2]}})
    return None

REPEATED_LINES = [
    # (extension, first line, repeated line, last line): long runs of one kind of line
    (".f", "      program p", "      ! text", "      end"),
    (".f", "      program p", " !! doc", "      end"),
    (".f", "      program p", "C remark", "      end"),
    (".f", "      program p", "", "      end"),
    (".f", "      program p", "      x = 1", "      end"),
    (".f", "      x = 1", "     &  + 1", "      end"),
    (".f90", "program p", "  ! text", "end"),
    (".f90", "program p", "  !> doc", "end"),
    (".f90", "program p", "", "end"),
    (".f90", "program p", "  x = 1", "end"),
    (".f90", "x = 1 &", "  + 1 &", "end"),
    (".f90", "program p", "  x = 1; y = 2", "end"),
    (".F90", "program p", "#define A 1", "end"),
]


def check_linear(ctx, n):
    """'within a small bounded time', made deterministic: the number of line fetches (FortranFile.get_line) parse() needs for a
    document of n equal lines must stay linear in n (a comment block in a fixed-form file used to cost n*n/2 fetches; fixed)."""
    from fortls.parsers.internal import parser as P
    calls = [0]
    orig = P.FortranFile.get_line

    def counting(self, *a, **kw):
        calls[0] += 1
        return orig(self, *a, **kw)
    P.FortranFile.get_line = counting
    try:
        for ext, first, line, last in REPEATED_LINES:
            f = P.FortranFile("/nonexistent/rep" + ext)
            f.set_contents([first] + [line] * n + [last])
            calls[0] = 0
            try:
                if ext == ".F90":
                    f.preprocess()
                f.parse()
            except Exception as ex:      # noqa: BLE001
                ctx.report("C03:crash", "parse() raises %s on %d equal lines" % (type(ex).__name__, n),
                           {"kind": "counterexample", "input": {"ext": ext, "first": first, "repeated": line, "times": n, "last": last}})
                continue
            ctx.count(("linear", ext, line, n), True)
            if calls[0] > 40 * (n + 2):
                ctx.report("C03:quadratic-lines", "%d line fetches for a %s document of %d lines %r: not linear in the length" % (calls[0], ext, n + 2, line),
                           {"kind": "counterexample", "input": {"ext": ext, "first": first, "repeated": line, "times": n, "last": last},
                            "implementation": {"get_line_calls": calls[0]}, "oracle": "at most 40 per line"})
    finally:
        P.FortranFile.get_line = orig


def run(ctx):
    ctx.cov["trusted_base"] = BASE_TRUST + [
        "hand-written model Shared/ScopeMachine.v tied to FortranAST/FortranFile.parse by trace validation: the implementation's own "
        "classification of every logical line (recorded by wrappers installed in the harness process) is replayed through the model (this run)",
    ]
    ctx.assumptions = [
        "partial: the statement readers (text -> classification), the preprocessor's text handling and CPython's regex running time are not modelled; "
        "they are exercised on prefixes/mutants only",
        "'small bounded time' is observed as wall time under a per-file limit (2 s per 200 lines) and, for long runs of equal lines, as a linear "
        "bound on the number of line fetches (deterministic); not proved",
    ]
    ctx.cov["rule"] = ("every input is derived from one of the sample sources under test/test_source: line prefix, character prefix of a line, "
                       "single-character mutation, line swap/duplication, dropped END, injected directive/noise lines, joined lines; offered as "
                       ".f90/.F90/.f/.F; non-trivial = anything but the unmodified source; distinct by (extension, text)")
    ctx.proof_obligations(search=lambda: search_failing(ctx))
    sources = sample_sources()
    q = ctx.quick()
    inputs = list(CORPUS) + statement_prefixes(ctx.rng, sources, 25 if q else 400) + gen_inputs(ctx.rng, sources, 3000 if q else 60000)
    check_inputs(ctx, inputs, 250 if q else 4000)
    check_linear(ctx, 1200 if q else 6000)
    check_typing(ctx, sources, 40 if q else 600)
    check_server_path(ctx, list(CORPUS) + statement_prefixes(ctx.rng, sources, 2 if q else 60)[::7] + gen_inputs(ctx.rng, sources, 150 if q else 3000))


def replay(ctx, path):
    with open(path) as f:
        doc = json.load(f)
    text, ext = doc["input"]["text"], doc["input"].get("ext", ".f90")
    toks, recs, errs, last, err, secs = parse_guarded(text, ext, 5.0)
    print("parse:", err or "ok (%d scopes, %.3fs)" % (len(recs or []), secs))
    shutil.rmtree(ctx.workdir, ignore_errors=True)
    return 1 if err else 0
