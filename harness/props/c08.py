"""C08 -- preprocessor regions and macro table match a reference C preprocessor.

Obligations: C08/Props.v.  Correspondence: Shared/PP.v `irun` against preprocess_file on generated
directive skeletons (exhaustive small scope + random).  Oracle: an independent reference
preprocessor (frame stack) written from the C rules; end-to-end: declarations in active /
inactive regions through documentSymbol.
"""
from __future__ import annotations

import itertools
import json
import os
import shutil
import tempfile

from .. import impl
from ..common import BASE_TRUST, clist, cnat, cstr

IMPORTS = ("From Coq Require Import ZArith.\nFrom FV Require Import Base.Str Shared.CondExpr Shared.PP C08.Model.\n")

# ----------------------------------------------------------------------------- condition trees
# ("def", n) ("name", n) ("int", z) ("not", e) ("and", a, b) ("or", a, b) ("cmp", op, a, b)

CMP = {"==": "CEq", "!=": "CNe", "<": "CLt", "<=": "CLe", ">": "CGt", ">=": "CGe"}


def render(e, rng=None):
    k = e[0]
    if k == "def":
        style = rng.choice([0, 1, 2]) if rng else 0
        return ["defined(%s)", "defined %s", "defined( %s )"][style] % e[1]
    if k == "name":
        return e[1]
    if k == "int":
        return str(e[1])
    if k == "not":
        inner = render(e[1], rng)
        return "!" + inner if e[1][0] == "def" and inner.startswith("defined(") else "!(" + inner + ")"
    if k in ("and", "or"):
        op = "&&" if k == "and" else "||"
        return "(%s) %s (%s)" % (render(e[1], rng), op, render(e[2], rng))
    if k == "cmp":
        return "(%s) %s (%s)" % (render(e[2], rng), e[1], render(e[3], rng))
    raise ValueError(e)


def coq_exp(e):
    k = e[0]
    if k == "def":
        return "(CDef %s)" % cstr(e[1])
    if k == "name":
        return "(CName %s)" % cstr(e[1])
    if k == "int":
        return "(CInt (%d)%%Z)" % e[1]
    if k == "not":
        return "(CNot %s)" % coq_exp(e[1])
    if k == "and":
        return "(CAnd %s %s)" % (coq_exp(e[1]), coq_exp(e[2]))
    if k == "or":
        return "(COr %s %s)" % (coq_exp(e[1]), coq_exp(e[2]))
    return "(CCmp %s %s %s)" % (CMP[e[1]], coq_exp(e[2]), coq_exp(e[3]))


def ref_eval(e, tab):
    """C semantics, independent of both the model and the code."""
    k = e[0]
    if k == "def":
        return 1 if e[1] in tab else 0
    if k == "name":
        v = tab.get(e[1])
        return v if isinstance(v, int) else 0
    if k == "int":
        return e[1]
    if k == "not":
        return 0 if ref_eval(e[1], tab) else 1
    if k == "and":
        return 1 if (ref_eval(e[1], tab) and ref_eval(e[2], tab)) else 0
    if k == "or":
        return 1 if (ref_eval(e[1], tab) or ref_eval(e[2], tab)) else 0
    a, b = ref_eval(e[2], tab), ref_eval(e[3], tab)
    return 1 if {"==": a == b, "!=": a != b, "<": a < b, "<=": a <= b, ">": a > b, ">=": a >= b}[e[1]] else 0


# ----------------------------------------------------------------------------- token programs
# ("if", e) ("ifdef", n) ("ifndef", n) ("elif", e) ("else",) ("endif",) ("define", n, int|None) ("undef", n) ("text", s)

def render_tok(t, rng=None):
    k = t[0]
    sp = (rng.choice(["", " ", "  "]) if rng else "")
    hs = (rng.choice(["", " "]) if rng else "")
    if k == "if":
        return "%s#%sif %s" % (sp, hs, render(t[1], rng))
    if k == "ifdef":
        return "%s#%sifdef %s" % (sp, hs, t[1])
    if k == "ifndef":
        return "%s#%sifndef %s" % (sp, hs, t[1])
    if k == "elif":
        return "%s#%selif %s" % (sp, hs, render(t[1], rng))
    if k == "else":
        return "%s#%selse" % (sp, hs)
    if k == "endif":
        return "%s#%sendif" % (sp, hs)
    if k == "define":
        return "#define %s%s" % (t[1], "" if t[2] is None else " %d" % t[2])
    if k == "undef":
        return "#undef %s" % t[1]
    return t[1]


def coq_tok(t):
    k = t[0]
    if k == "if":
        return "(TIf %s)" % coq_exp(t[1])
    if k == "ifdef":
        return "(TIfdef %s)" % cstr(t[1])
    if k == "ifndef":
        return "(TIfndef %s)" % cstr(t[1])
    if k == "elif":
        return "(TElif %s)" % coq_exp(t[1])
    if k == "else":
        return "TElse"
    if k == "endif":
        return "TEndif"
    if k == "define":
        return "(TDefine %s %s)" % (cstr(t[1]), "None" if t[2] is None else "(Some (%d)%%Z)" % t[2])
    if k == "undef":
        return "(TUndef %s)" % cstr(t[1])
    return "TText"


def ref_cpp(toks, init):
    """Reference preprocessor: returns (set of inactive text line numbers, final table)."""
    tab = dict(init)
    frames = []   # [taken, active]
    inactive = set()
    for n, t in enumerate(toks, start=1):
        k = t[0]
        act = all(f[1] for f in frames)
        if k in ("if", "ifdef", "ifndef"):
            b = bool(ref_eval(t[1], tab)) if k == "if" else ((t[1] in tab) == (k == "ifdef"))
            frames.append([b, b])
        elif k == "elif":
            if frames:
                f = frames[-1]
                if f[0]:
                    f[1] = False
                else:
                    b = bool(ref_eval(t[1], tab))
                    f[0] = f[1] = b
        elif k == "else":
            if frames:
                f = frames[-1]
                f[1] = not f[0]
                f[0] = True
        elif k == "endif":
            if frames:
                frames.pop()
        elif k == "define":
            if act and t[1] not in tab:       # the code keeps the first definition (hypothesis: no redefinition with another body)
                tab[t[1]] = t[2] if t[2] is not None else True
        elif k == "undef":
            if act:
                tab.pop(t[1], None)
        else:
            if not act:
                inactive.add(n)
    return inactive, tab


def wf(toks):
    st = []
    for t in toks:
        k = t[0]
        if k in ("if", "ifdef", "ifndef"):
            st.append(False)
        elif k == "elif":
            if not st or st[-1]:
                return False
        elif k == "else":
            if not st or st[-1]:
                return False
            st[-1] = True
        elif k == "endif":
            if not st:
                return False
            st.pop()
    return not st


def redefines(toks, init):
    """does an active #define hit an already defined name with another value? (hypothesis of final_table_equal)"""
    inactive, _ = ref_cpp(toks, init)
    tab = dict(init)
    frames_active = True
    # replay with the reference to know activity at each define: reuse ref_cpp on prefixes (small programs)
    for n, t in enumerate(toks, start=1):
        if t[0] == "define":
            _, tb = ref_cpp(toks[:n - 1], init)
            ina, _ = ref_cpp(toks[:n - 1] + [("text", "x")], init)
            if n not in ina and t[1] in tb and tb[t[1]] != (t[2] if t[2] is not None else True):
                return True
    return False


# ----------------------------------------------------------------------------- implementation

def impl_pp(lines, init):
    from fortls.parsers.internal.parser import preprocess_file
    defs = {k: ("True" if v is True else str(v)) for k, v in init.items()}
    try:
        out, skips, defines, tab = preprocess_file(list(lines), pp_defs=defs)
    except Exception as ex:
        return None, repr(ex)
    return (out, [tuple(s) for s in skips], list(defines), dict(tab)), None


def table_value(v):
    if isinstance(v, tuple):
        return ("fn",) + v
    try:
        return int(v)
    except (TypeError, ValueError):
        return True if v == "True" else v


def coq_table(init):
    return clist(sorted(init.items()), lambda kv: "(%s, %s)" % (cstr(kv[0]), "None" if kv[1] is True else "(Some (%d)%%Z)" % kv[1]))


def check_programs(ctx, progs, label, rng=None):
    coq = ctx.coq(IMPORTS)
    exprs = []
    recs = []
    for toks, init in progs:
        lines = [render_tok(t, rng) for t in toks]
        res, err = impl_pp(lines, init)
        recs.append((toks, init, lines, res, err))
        if res is None:
            exprs.append("true")
            continue
        out, skips, defines, tab = res
        names = sorted(tab)
        exprs.append("chk_pp %s %s %s %s %s" % (
            coq_table(init), clist(toks, coq_tok),
            clist(skips, lambda s: "(%s, %s)" % (cnat(s[0]), cnat(s[1]))), clist(defines, cnat),
            clist(names, lambda n: "(%s, %s)" % (cstr(n), "None" if not isinstance(table_value(tab[n]), int) or table_value(tab[n]) is True
                                                 else "(Some (%d)%%Z)" % table_value(tab[n])))))
    bad = set(coq.bools(exprs, shard=250))
    ctx.cov["traces_validated_against_impl"] += len(progs)
    for k, (toks, init, lines, res, err) in enumerate(recs):
        key = (json.dumps(toks), json.dumps(sorted(init.items())))
        depth = 0
        mx = 0
        for t in toks:
            if t[0] in ("if", "ifdef", "ifndef"):
                depth += 1; mx = max(mx, depth)
            elif t[0] == "endif":
                depth -= 1
        ctx.count(key, mx >= 1 and any(t[0] in ("elif", "else") for t in toks), sample={"lines": lines, "pp_defs": init})
        inp = {"lines": lines, "pp_defs": {k: (v if v is not True else "True") for k, v in init.items()}, "tokens": toks}
        if res is None:
            ctx.report("C08:preprocess-raises", "preprocess_file raised on a well-formed directive skeleton",
                       {"kind": "counterexample", "input": inp, "implementation": err, "stream": label})
            continue
        out, skips, defines, tab = res
        ref_inactive, ref_tab = ref_cpp(toks, init)
        text_lines = [n for n, t in enumerate(toks, start=1) if t[0] == "text"]
        got_inactive = {n for n in text_lines if any(a <= n <= b for a, b in skips)}
        got_tab = {k2: table_value(v) for k2, v in tab.items()}
        ok_regions = got_inactive == ref_inactive
        ok_tab = got_tab == ref_tab or redefines(toks, init)
        if not ok_regions or not ok_tab:
            ctx.report("C08:regions" if not ok_regions else "C08:macro-table",
                       "active regions / final macro table differ from the reference preprocessor",
                       {"kind": "counterexample", "input": inp,
                        "implementation": {"pp_skips": skips, "inactive_text_lines": sorted(got_inactive), "table": {k2: str(v) for k2, v in got_tab.items()}},
                        "oracle": {"inactive_text_lines": sorted(ref_inactive), "table": {k2: str(v) for k2, v in ref_tab.items()}}, "stream": label})
        elif k in bad:
            ctx.report("C08:model-impl-mismatch", "preprocess_file differs from Shared.PP.irun (skips, define lines or table)",
                       {"kind": "broken-correspondence", "input": inp, "implementation": {"pp_skips": skips, "pp_defines": defines, "table": {k2: str(v) for k2, v in got_tab.items()}},
                        "correspondence": "FV.Shared.PP.irun vs preprocess_file"}, found_input=False)


# ----------------------------------------------------------------------------- generators

ATOMS = [("def", "A"), ("not", ("def", "B")), ("cmp", ">", ("name", "A"), ("int", 1)),
         ("or", ("def", "A"), ("def", "B")), ("and", ("def", "A"), ("not", ("def", "B"))), ("int", 0), ("int", 1),
         ("cmp", "==", ("name", "B"), ("int", 2))]


def exhaustive(maxlen, alphabet):
    out = []

    def go(prefix, stack):
        if len(prefix) <= maxlen and not stack and prefix:
            out.append(list(prefix))
        if len(prefix) == maxlen:
            return
        for t in alphabet:
            k = t[0]
            if k in ("if", "ifdef", "ifndef"):
                if len(stack) >= 3:
                    continue
                go(prefix + [t], stack + [False])
            elif k == "elif":
                if stack and not stack[-1]:
                    go(prefix + [t], stack)
            elif k == "else":
                if stack and not stack[-1]:
                    go(prefix + [t], stack[:-1] + [True])
            elif k == "endif":
                if stack:
                    go(prefix + [t], stack[:-1])
            else:
                go(prefix + [t], stack)
    go([], [])
    return out


def gen_exp(rng, depth=0):
    k = rng.choice(["def", "def", "name", "int", "not", "and", "or", "cmp"] if depth < 3 else ["def", "name", "int"])
    n = rng.choice(["A", "B", "C", "FOO_1"])
    if k == "def":
        return ("def", n)
    if k == "name":
        return ("name", n)
    if k == "int":
        return ("int", rng.choice([0, 1, 2, 3, 10]))
    if k == "not":
        return ("not", gen_exp(rng, depth + 1))
    if k in ("and", "or"):
        return (k, gen_exp(rng, depth + 1), gen_exp(rng, depth + 1))
    return ("cmp", rng.choice(list(CMP)), gen_arith(rng), gen_arith(rng))


def gen_arith(rng):
    return rng.choice([("name", rng.choice(["A", "B", "C"])), ("int", rng.choice([0, 1, 2, 3]))])


def gen_program(rng):
    toks = []

    def block(depth):
        for _ in range(rng.choice([0, 1, 1, 2, 3])):
            r = rng.random()
            if r < 0.35 and depth < 4:
                k = rng.choice(["if", "if", "ifdef", "ifndef"])
                toks.append((k, gen_exp(rng)) if k == "if" else (k, rng.choice(["A", "B", "C"])))
                block(depth + 1)
                for _ in range(rng.choice([0, 0, 1, 2])):
                    toks.append(("elif", gen_exp(rng)))
                    block(depth + 1)
                if rng.random() < 0.5:
                    toks.append(("else",))
                    block(depth + 1)
                toks.append(("endif",))
            elif r < 0.5:
                toks.append(("define", rng.choice(["A", "B", "C"]), rng.choice([None, 1, 2, 3])))
            elif r < 0.58:
                toks.append(("undef", rng.choice(["A", "B", "C"])))
            else:
                toks.append(("text", rng.choice(["integer :: v", "call s()", "", "! comment", "x = 1"])))
    block(0)
    if not toks:
        toks.append(("text", "x = 1"))
    init = {}
    for n in ("A", "B", "C"):
        if rng.random() < 0.4:
            init[n] = rng.choice([True, 1, 2, 3])
    return toks, init


def values_used_ok(toks, init):
    """the reference is only defined when a name used as a value has an integer body"""
    bare = {n for n, v in init.items() if v is True} | {t[1] for t in toks if t[0] == "define" and t[2] is None}

    def uses(e):
        if e[0] == "name":
            return {e[1]}
        if e[0] in ("def", "int"):
            return set()
        return set().union(*[uses(x) for x in e[1:] if isinstance(x, tuple)])
    for t in toks:
        if t[0] in ("if", "elif") and uses(t[1]) & bare:
            return False
    return True


# ----------------------------------------------------------------------------- macro expansion in active text

NASTY = ["a\\b", "x\\1y", "\\g<0>", "q\\z", "1.0d0", "'it''s'", "\"s\"", "(a+b)*c", "[i]", "$v", "a.b*c+?", "^|", "type(t)", "", "p % q"]


def ref_expand(line, objs, funs):
    """Reference expansion: identifiers equal to an object-like macro are replaced by the body;
    a function-like macro call NAME(args) with simple arguments gets its body with the
    parameters substituted.  Bodies never contain macro names (generator invariant)."""
    import re as _re
    out = []
    i = 0
    n = len(line)
    while i < n:
        c = line[i]
        if c.isalpha() or c == "_":
            j = i
            while j < n and (line[j].isalnum() or line[j] == "_"):
                j += 1
            word = line[i:j]
            if i > 0 and (line[i - 1].isalnum() or line[i - 1] == "_"):
                out.append(word); i = j; continue
            if word in objs:
                out.append(objs[word]); i = j; continue
            if word in funs:
                k = j
                while k < n and line[k] in " \t":
                    k += 1
                if k < n and line[k] == "(":
                    # arguments end at commas outside nested parentheses and character literals
                    args, cur, depth, quote, close = [], "", 0, "", None
                    for q2 in range(k + 1, n):
                        ch2 = line[q2]
                        if quote:
                            cur += ch2
                            if ch2 == quote:
                                quote = ""
                        elif ch2 in "'\"":
                            quote = ch2; cur += ch2
                        elif ch2 in "([":
                            depth += 1; cur += ch2
                        elif ch2 in ")]":
                            if depth == 0:
                                close = q2
                                break
                            depth -= 1; cur += ch2
                        elif ch2 == "," and depth == 0:
                            args.append(cur); cur = ""
                        else:
                            cur += ch2
                    if close is None:
                        out.append(word); i = j; continue
                    args.append(cur)
                    params, body = funs[word]
                    if len(args) == len(params):
                        res = []
                        p = 0
                        while p < len(body):
                            ch = body[p]
                            if ch.isalpha() or ch == "_":
                                q = p
                                while q < len(body) and (body[q].isalnum() or body[q] == "_"):
                                    q += 1
                                w = body[p:q]
                                res.append(args[params.index(w)] if w in params and not (p > 0 and (body[p - 1].isalnum() or body[p - 1] == "_")) else w)
                                p = q
                            else:
                                res.append(ch); p += 1
                        out.append("".join(res)); i = close + 1; continue
            out.append(word); i = j
        else:
            out.append(c); i += 1
    return "".join(out)


def check_macros(ctx, n):
    from fortls.parsers.internal.parser import preprocess_file
    rng = ctx.rng
    for k in range(n):
        objs = {}
        funs = {}
        lines = []
        for name in rng.sample(["MX", "N_1", "VAL", "Q"], rng.choice([1, 2])):
            objs[name] = rng.choice(NASTY + ["3", "x_y", "(1+2)", "(2)", "(i, j)", "( n )", "(kind=8)"])
            lines.append("#define %s %s" % (name, objs[name]))
        if rng.random() < 0.5:
            body = rng.choice(["(u+v)", "u*v\\n", "v - u", "foo(u, v)", "u\\v"])
            funs["FN"] = (["u", "v"], body)
            lines.append("#define FN(u,v) %s" % body)
        uses = []
        for _ in range(rng.choice([1, 2, 3])):
            kind = rng.choice(["obj", "obj", "fun", "near", "plain"])
            if kind == "obj":
                uses.append("y = %s + 1" % rng.choice(list(objs)))
            elif kind == "fun" and funs:
                arg = lambda: rng.choice(["1", "a", "b+3", "g(1,2)", "'a,b'", "(/ 1, 2 /)", "h(k(1), 2)", " c "])
                fmt = rng.choice(["z = FN(%s, %s)", "z = FN(%s,%s) * FN(%s, %s)", "call s(FN(%s, %s), 3)", "z = FN (%s, %s) + FN(1)"])
                uses.append(fmt % tuple(arg() for _ in range(fmt.count("%s"))))
            elif kind == "near":
                uses.append("w = x%s + %s_z" % (rng.choice(list(objs)), rng.choice(list(objs))))   # not whole words
            else:
                uses.append("call plain(1)")
        lines += uses
        try:
            out, skips, defines, tab = preprocess_file(list(lines), pp_defs={})
            err = None
        except Exception as ex:
            out, err = None, repr(ex)
        want = [ref_expand(u, objs, funs) for u in uses]
        ctx.count(("macro", tuple(lines)), True, sample={"lines": lines})
        if out is None or out[len(lines) - len(uses):] != want:
            ctx.report("C08:macro-expansion", "macro uses in active code are not replaced by their bodies character for character",
                       {"kind": "counterexample", "input": {"lines": lines, "pp_defs": {}},
                        "implementation": err or out[len(lines) - len(uses):], "oracle": want})
    # a name defined again after #undef, with another kind or other parameters (fixed)
    for lines, want in ((["#define N 1", "x = N", "#undef N", "#define N(a) a+1", "y = N(2)"], ["x = 1", "y = 2+1"]),
                        (["#define F(a) a+1", "x = F(1)", "#undef F", "#define F(b) b*2", "y = F(2)"], ["x = 1+1", "y = 2*2"]),
                        (["#define F(a) a+1", "x = F(1)", "#undef F", "#define F 7", "y = F"], ["x = 1+1", "y = 7"]),
                        (["#define N 1", "x = N", "#undef N", "#define N 2", "y = N"], ["x = 1", "y = 2"])):
        try:
            out, _, _, _ = preprocess_file(list(lines), pp_defs={})
            got = [out[1], out[4]]
        except Exception as ex:      # noqa: BLE001
            got = repr(ex)
        ctx.count(("macro-redefined", tuple(lines)), True)
        if got != want:
            ctx.report("C08:redefined-after-undef", "a macro defined again after #undef is not expanded by its new definition",
                       {"kind": "counterexample", "input": {"lines": lines, "pp_defs": {}}, "implementation": got, "oracle": want})
    # initial definitions whose values are numbers or booleans, as a configuration file may give them (fixed: TypeError, the file lost)
    for defs, want in (({"N": 4}, (["#if N > 1", "x = 4", "#endif", "y = 4"], [])), ({"N": 0}, (["#if N > 1", "x = 0", "#endif", "y = 0"], [[1, 3]])),
                       ({"F": True}, (["#if N > 1", "x = N", "#endif", "y = N"], [[1, 3]]))):
        lines = ["#if N > 1", "x = N", "#endif", "y = N"]
        try:
            out, skips, _, _ = preprocess_file(list(lines), pp_defs=dict(defs))
            got = (out, [list(x) for x in skips])
        except Exception as ex:      # noqa: BLE001
            got = repr(ex)
        ctx.count(("macro-nonstring", repr(defs)), True)
        if got != want:
            ctx.report("C08:non-string-definition", "initial definitions with a number or boolean as value are not used as text",
                       {"kind": "counterexample", "input": {"lines": lines, "pp_defs": defs}, "implementation": got, "oracle": want})
    # regression (fixed): several calls of a function-like macro on one line
    lines = ["#define F(a,b) (a+b)", "x = F(1,2) * F(3,4)"]
    out, _, _, _ = preprocess_file(list(lines), pp_defs={})
    ctx.count(("macro-kf",), True)
    if out[1] != "x = (1+2) * (3+4)":
        ctx.report("C08:function-macro-greedy", "function-like macro called twice on a line",
                   {"kind": "counterexample", "input": {"lines": lines, "pp_defs": {}}, "implementation": out[1], "oracle": "x = (1+2) * (3+4)"})


EXPAND_IMPORTS = ("From FV Require Import Base.Str C08.Expand.\n"
                  "Definition ex (t : list (str * str)) (l : str) : str := expand ascii_word t l.\n"
                  "Definition exo (t : list (str * str)) (l : str) : str := expand_objects ascii_word t l.\n"
                  "From FV Require C08.Args.\n"
                  "Definition call_eqb (ps : list str) (body s want : str) : bool :=\n"
                  "  match Args.expand_call ascii_word ps body s with Some r => str_eqb r want | None => false end.\n")


def check_expand_model(ctx, n):
    """C08/Expand.v against preprocess_file: object-like macros (one, and two applied in the order of the table, bodies that
    name the other macro included) and the parameters of a function-like macro (simultaneous: an argument that spells
    another parameter is not substituted again).  Bodies and parameter lists are taken from the macro table the
    implementation returns, the model is about the substitution."""
    from fortls.parsers.internal.parser import preprocess_file
    rng = ctx.rng
    coq = ctx.coq(EXPAND_IMPORTS)
    exprs, meta = [], []
    names = ["MX", "N_1", "VAL", "Q"]
    frag = ["MX", "N_1", "VAL", "Q", "xMX", "MX_z", "_Q", "Q9", "9Q", " ", " + ", "(", ")", "%", ".", ",", "'", "y", "=", "1", "MXMX", "val", "mx", "&", "!", "::"]

    def pair(k, v):
        return "(%s, %s)" % (cstr(k), cstr(v))
    for k in range(n):
        mode = rng.choice(["one", "two", "two", "fun"])
        line = "".join(rng.choice(frag) for _ in range(rng.choice([1, 3, 5, 8])))
        if line.lstrip().startswith("#") or not line.strip():
            line = "y = " + line
        if mode in ("one", "two"):
            chosen = rng.sample(names, 1 if mode == "one" else 2)
            defs = []
            for nm in chosen:
                body = rng.choice(NASTY + ["3", "x_y", "(1+2)", "( n )"] + [c for c in chosen if c != nm] + ["%s + 1" % chosen[-1]])
                defs.append("#define %s %s" % (nm, body))
            src = defs + [line]
            try:
                out, _, _, tab = preprocess_file(list(src), pp_defs={})
            except Exception as ex:      # noqa: BLE001
                ctx.report("C08:expand-crash", "preprocess_file raises %s" % type(ex).__name__, {"kind": "counterexample", "input": {"lines": src, "pp_defs": {}}})
                continue
            if any(not isinstance(tab.get(nm), str) for nm in chosen):
                continue
            ctx.count(("expand", tuple(src)), any(nm in line for nm in chosen))
            exprs.append("str_eqb (exo %s %s) %s" % (clist([(nm, tab[nm]) for nm in chosen], lambda kv: pair(*kv)), cstr(line), cstr(out[-1])))
            bodies = {nm: tab[nm] for nm in chosen}
            simple = not any(n2 in b for b in bodies.values() for n2 in names)
            meta.append({"lines": src, "implementation": out[-1], "oracle": ref_expand(line, bodies, {}) if simple else None})
        else:
            params = rng.choice([["u", "v"], ["u", "v"], ["a", "bb"], ["x"]])
            body = rng.choice(["(u+v)", "v - u", "foo(u, v)", "u*uv+v_u", "a%bb(a)", "x.x x", "u\\v", "uu", "bb a bb"])
            args = [rng.choice(["1", "a", "b+3", "u", "v", "x y", " c ", "bb", "uv", "g(1,2)", "'a,b'", "(/ 1, 2 /)", "h(k(1), 2)", "[1,2]", "\"x)\"", "'('", "a(u)%v"]) for _ in params]
            pre, post = rng.choice(["z = ", "call s(", ""]), rng.choice(["", " + 1", ") ! t"])
            src = ["#define FN(%s) %s" % (",".join(params), body), pre + "FN(" + ",".join(args) + ")" + post]
            try:
                out, _, _, tab = preprocess_file(list(src), pp_defs={})
            except Exception as ex:      # noqa: BLE001
                ctx.report("C08:expand-crash", "preprocess_file raises %s" % type(ex).__name__, {"kind": "counterexample", "input": {"lines": src, "pp_defs": {}}})
                continue
            val = tab.get("FN")
            if not isinstance(val, tuple):
                continue
            ps = [a.strip() for a in val[0].split(",")]
            ctx.count(("expand-fun", tuple(src)), True)
            if not out[-1].startswith(pre):
                ctx.report("C08:macro-expansion", "the text in front of a macro call changed", {"kind": "counterexample", "input": {"lines": src, "pp_defs": {}}, "implementation": out[-1]})
                continue
            exprs.append("call_eqb %s %s %s %s" % (clist(ps, cstr), cstr(val[1]), cstr(",".join(args) + ")" + post), cstr(out[-1][len(pre):])))
            meta.append({"lines": src, "implementation": out[-1], "oracle": ref_expand(src[-1], {}, {"FN": (ps, val[1])})})
    bad = coq.bools(exprs, shard=400)
    ctx.cov["traces_validated_against_impl"] = ctx.cov.get("traces_validated_against_impl", 0) + len(exprs)
    for b in bad[:3]:
        if meta[b]["oracle"] is not None and meta[b]["oracle"] != meta[b]["implementation"]:
            # the broken correspondence comes with an input on which the reference preprocessor disagrees as well
            ctx.report("C08:macro-expansion", "macro uses in active code are not replaced by their bodies character for character (found through C08.Expand/Args)",
                       {"kind": "counterexample", "input": {"lines": meta[b]["lines"], "pp_defs": {}}, "implementation": meta[b]["implementation"], "oracle": meta[b]["oracle"]})
            continue
        ctx.report("C08:expand-model-mismatch", "preprocess_file substitutes a macro differently from C08.Expand (whole-word scan) on %r" % (meta[b]["lines"],),
                   {"kind": "broken-correspondence", "input": dict(meta[b], pp_defs={}), "correspondence": "FV.C08.Expand.expand vs preprocess_file"}, found_input=False)


# ----------------------------------------------------------------------------- end to end: declarations in regions

def check_end_to_end(ctx, progs):
    root = tempfile.mkdtemp(prefix="verif_c08_")
    try:
        for k, (toks, init) in enumerate(progs):
            lines = ["module m_e2e"]
            for n, t in enumerate(toks, start=1):
                lines.append("integer :: u%d" % n if t[0] == "text" else render_tok(t))
            lines.append("end module m_e2e")
            path = os.path.join(root, "e%d.F90" % k)
            with open(path, "w") as f:
                f.write("\n".join(lines) + "\n")
            defs = {kk: ("True" if v is True else str(v)) for kk, v in init.items()}
            srv, conn = impl.make_server(root, extra=["--nthreads", "1", "--pp_defs", json.dumps(defs)])
            impl.did_open(srv, path)
            resp, _ = impl.request(srv, conn, "workspace/symbol", {"query": "u"})
            names = set()
            if resp and resp[0] == "r" and resp[2]:
                for sym in resp[2]:
                    names.add(sym["name"].lower())
            inactive, _ = ref_cpp(toks, init)
            want = {"u%d" % n for n, t in enumerate(toks, start=1) if t[0] == "text" and n not in inactive}
            got = {x for x in names if x.startswith("u") and x[1:].isdigit()}
            ctx.count(("e2e", json.dumps(toks), json.dumps(sorted(defs.items()))), True)
            if got != want:
                ctx.report("C08:indexed-declarations", "declarations indexed differ from the declarations in active regions",
                           {"kind": "counterexample", "input": {"lines": lines, "pp_defs": defs}, "implementation": sorted(got), "oracle": sorted(want)})
            os.remove(path)
    finally:
        shutil.rmtree(root, ignore_errors=True)


def search_failing(ctx):
    alpha = [("if", ("def", "A")), ("elif", ("def", "B")), ("else",), ("endif",), ("text", "x")]
    for toks in exhaustive(5, alpha):
        for init in ({}, {"A": 1}, {"B": 1}):
            lines = [render_tok(t) for t in toks]
            res, err = impl_pp(lines, init)
            if res is None:
                return ("C08:preprocess-raises", "preprocess_file raised", {"kind": "counterexample", "input": {"lines": lines, "pp_defs": init}})
            out, skips, defines, tab = res
            ref_inactive, _ = ref_cpp(toks, init)
            text_lines = [n for n, t in enumerate(toks, start=1) if t[0] == "text"]
            got = {n for n in text_lines if any(a <= n <= b for a, b in skips)}
            if got != ref_inactive:
                return ("C08:regions", "active regions differ from the reference preprocessor",
                        {"kind": "counterexample", "input": {"lines": lines, "pp_defs": init}, "implementation": sorted(got), "oracle": sorted(ref_inactive)})
    return None


def run(ctx):
    ctx.cov["trusted_base"] = BASE_TRUST + [
        "hand-written model Shared/PP.v + Shared/CondExpr.v tied to preprocess_file by differential execution (this run)",
        "conditions are rendered from trees by the harness (fully parenthesised); the text->tree direction is the implementation's own rewriting",
        "reference preprocessor ref_cpp in harness/props/c08.py (oracle)",
    ]
    ctx.assumptions = [
        "well-formed conditional structure (every #elif/#else/#endif inside an open #if, nothing but #endif after #else, every #if closed)",
        "a name used as a value in a condition has an integer body; no redefinition of a defined name with another body",
        "function-like macro calls: arguments may contain nested parentheses and character literals; bodies never contain macro names (no rescanning)",
    ]
    ctx.cov["rule"] = ("exhaustive: all well-formed directive sequences up to a length bound over an alphabet of #if/#ifdef/#ifndef/#elif/#else/#endif/"
                       "#define/#undef/text with 8 condition atoms x initial tables; random: nested programs with condition trees of depth <= 3; "
                       "non-trivial = has a conditional with #elif or #else; distinct by (tokens, initial table)")
    ctx.proof_obligations(search=lambda: search_failing(ctx))
    q = ctx.quick()
    progs = []
    alpha1 = [("if", ATOMS[0]), ("if", ATOMS[3]), ("ifdef", "B"), ("ifndef", "A"), ("elif", ATOMS[1]), ("elif", ATOMS[2]),
              ("else",), ("endif",), ("define", "A", 2), ("undef", "A"), ("text", "x = 1")]
    sk = exhaustive(5 if q else 6, alpha1)
    inits = [{}, {"A": 2}, {"A": 1, "B": 2}]
    for toks in sk:
        for init in inits:
            progs.append((toks, init))
    if q and len(progs) > 4000:
        progs = ctx.rng.sample(progs, 4000)
    ctx.extra["exhaustive_small_scope"] = {"skeletons": len(sk), "programs": len(progs)}
    check_programs(ctx, progs, "exhaustive")
    rnd = []
    while len(rnd) < (600 if q else 20000):
        toks, init = gen_program(ctx.rng)
        if wf(toks) and values_used_ok(toks, init):
            rnd.append((toks, init))
    check_programs(ctx, rnd, "random", ctx.rng)
    check_macros(ctx, 200 if q else 5000)
    check_expand_model(ctx, 300 if q else 6000)
    # directed: a declaration right after a directive whose condition contains `&&` (regression, fixed in /repo) and after #elif/#else
    A, B = ("def", "A"), ("def", "B")
    directed = [
        ([("if", ("and", A, B)), ("text", "t"), ("text", "t"), ("endif",)], {"A": 1, "B": 3}),
        ([("if", ("and", A, ("not", B))), ("text", "t"), ("elif", ("and", A, B)), ("text", "t"), ("text", "t"), ("else",), ("text", "t"), ("endif",), ("text", "t")], {"A": 1, "B": 3}),
        ([("ifdef", "A"), ("if", ("or", ("and", B, A), ("int", 0))), ("text", "t"), ("endif",), ("text", "t"), ("endif",)], {"A": 1, "B": 2}),
    ]
    check_end_to_end(ctx, directed + rnd[:60 if q else 1500])


def replay(ctx, path):
    with open(path) as f:
        doc = json.load(f)
    lines = doc["input"]["lines"]
    init = {k: (True if v == "True" else v) for k, v in doc["input"].get("pp_defs", {}).items()}
    res, err = impl_pp(lines, init)
    print("implementation:", res if res else err)
    shutil.rmtree(ctx.workdir, ignore_errors=True)
    if "tokens" in doc["input"]:
        toks = [tuple(tuple(x) if isinstance(x, list) else x for x in t) for t in doc["input"]["tokens"]]
    return 0
