"""C20 -- cyclic and self-referential program structure never causes unbounded recursion.

Obligations: C20/Props.v.  Correspondence: the pointer graphs (ancestor_obj, inherit_var,
link_obj) are extracted from the implementation's objects after indexing a cyclic workspace;
Submodule.get_ancestors, Type.get_overridden and FortranObj.is_linked_from are run on them and
compared with Shared.Walks.walk on the same graph.  Oracle: every position-based request at
every identifier of every catalogue workspace answers with a result, quickly.
"""
from __future__ import annotations

import json
import os
import re
import shutil
import signal
import tempfile
import time

from .. import impl
from ..common import BASE_TRUST, clist, cnat

IMPORTS = ("From FV Require Import Base.Str Shared.Walks.\n"
           "Definition nextf (g : list (nat * nat)) (x : nat) : option nat := match find (fun p => fst p =? x) g with Some p => Some (snd p) | None => None end.\n"
           "Definition chk_walk (g : list (nat * nat)) (stop : option nat) (n : nat) (start : option nat) (vis : list nat) (b : bool) : bool :=\n"
           "  match walk (nextf g) stop (n + 1) [] start with Some (v, c) => list_eqb Nat.eqb v vis && Bool.eqb c b | None => false end.\n"
           "Definition chf (g : list (nat * list nat)) (x : nat) : list nat := match find (fun p => fst p =? x) g with Some p => snd p | None => [] end.\n"
           "Definition chk_enc (par : list (nat * nat)) (ch : list (nat * list nat)) (fuel : nat) (cases : list (nat * nat * bool)) : bool :=\n"
           "  let fo := {| f_parent := nextf par; f_children := chf ch |} in\n"
           "  forallb (fun t => match t with (o, s, b) => match encloses fo fuel o s with Some b' => Bool.eqb b' b | None => false end end) cases.\n")

METHODS = ["textDocument/hover", "textDocument/definition", "textDocument/references", "textDocument/completion",
           "textDocument/implementation", "textDocument/rename", "textDocument/signatureHelp", "textDocument/documentHighlight"]


class Timeout(BaseException):   # not an Exception: handlers of the implementation must not swallow it
    pass


ARMED = [False]


def _alarm(signum, frame):
    if ARMED[0]:
        raise Timeout()


def ring(n, k):
    return (k + 1) % n


def catalogue(kind, n, split):
    """{filename: text} for a cycle of length n of the given kind; split = one unit per file"""
    files = {}

    def put(name, text):
        files[name] = files.get(name, "") + text
    if kind == "use":
        for k in range(n):
            t = "module mu%d\n use mu%d\n integer :: vu%d\ncontains\n subroutine su%d()\n  vu%d = vu%d + 1\n end subroutine su%d\nend module mu%d\n" % (
                k, ring(n, k), k, k, k, ring(n, k), k, k)
            put("u%d.f90" % k if split else "u.f90", t)
        put("main_u.f90", "program pu\n use mu0\n vu0 = 1\n call su0()\nend program pu\n")
    elif kind == "extends":
        body = "module me\n implicit none\n"
        for k in range(n):
            body += " type, extends(te%d) :: te%d\n  integer :: ce%d\n contains\n  procedure :: fe => fe%d\n end type te%d\n" % (ring(n, k), k, k, k, k)
        body += "contains\n"
        for k in range(n):
            body += " subroutine fe%d(self)\n  class(te%d) :: self\n  self%%ce%d = 1\n  call self%%fe()\n end subroutine fe%d\n" % (k, k, k, k)
        body += "end module me\n"
        put("e.f90", body)
        put("main_e.f90", "program pe\n use me\n type(te0) :: obj\n obj%ce0 = 2\n call obj%fe()\nend program pe\n")
    elif kind == "submodule":
        if n == 1:
            put("s0.f90", "submodule (sm0) sm0\n integer :: vs0\ncontains\n subroutine ss0()\n  vs0 = 1\n end subroutine ss0\nend submodule sm0\n")
        else:
            for k in range(n):
                t = "submodule (sm%d) sm%d\n integer :: vs%d\ncontains\n subroutine ss%d()\n  vs%d = vs%d\n end subroutine ss%d\nend submodule sm%d\n" % (
                    ring(n, k), k, k, k, k, ring(n, k), k, k)
                put("s%d.f90" % k if split else "s.f90", t)
    elif kind == "pointer":
        decl = "".join(" integer, pointer :: pp%d => pp%d\n" % (k, ring(n, k)) for k in range(n))
        put("p.f90", "program ppg\n implicit none\n%s pp0 = 1\n print *, pp%d\nend program ppg\n" % (decl, n - 1))
    elif kind == "procptr":
        decl = "".join(" procedure(qq%d), pointer :: qq%d => qq%d\n" % (ring(n, k), k, ring(n, k)) for k in range(n))
        put("q.f90", "module mq\n implicit none\n%scontains\n subroutine uq()\n  call qq0()\n end subroutine uq\nend module mq\n" % decl)
    elif kind == "associate":
        binds = ", ".join("ax%d => ax%d" % (k, ring(n, k)) for k in range(n))
        put("a.f90", "program pa\n integer :: ya\n associate (%s)\n  ya = ax0\n  ax%d = 2\n end associate\nend program pa\n" % (binds, n - 1))
    elif kind == "binding":
        body = "module mb\n type :: tb\n contains\n"
        for k in range(n):
            body += "  procedure :: gb%d => gb%d\n" % (k, ring(n, k))
        body += " end type tb\ncontains\n subroutine ub(o)\n  class(tb) :: o\n  call o%gb0()\n end subroutine ub\nend module mb\n"
        put("b.f90", body)
    elif kind == "include":
        for k in range(n):
            put("i%d.f90" % k, "integer :: vi%d\ninclude 'i%d.f90'\n" % (k, ring(n, k)))
        put("main_i.f90", "program pi\n include 'i0.f90'\n vi0 = 1\nend program pi\n")
    # ---- a tail that enters the cycle from outside (lasso), and link cycles laid over USE / ancestry cycles
    elif kind == "submodule_tail":
        for k in range(n):
            put("s%d.f90" % k, "submodule (sm%d) sm%d\n integer :: vs%d\ncontains\n subroutine ss%d()\n  vs%d = 1\n end subroutine ss%d\nend submodule sm%d\n" % (
                ring(n, k), k, k, k, k, k, k))
        put("tail.f90", "submodule (sm0) smt\n integer :: vt\ncontains\n subroutine st()\n  vt = vs0\n end subroutine st\nend submodule smt\n")
    elif kind == "extends_tail":
        body = "module me\n implicit none\n"
        for k in range(n):
            body += " type, extends(te%d) :: te%d\n  integer :: ce%d\n contains\n  procedure :: fe => fe%d\n end type te%d\n" % (ring(n, k), k, k, k, k)
        body += " type, extends(te0) :: tt\n  integer :: ct\n contains\n  procedure :: fe => ft\n end type tt\ncontains\n"
        for k in range(n):
            body += " subroutine fe%d(self)\n  class(te%d) :: self\n end subroutine fe%d\n" % (k, k, k)
        body += " subroutine ft(self)\n  class(tt) :: self\n  call self%fe()\n end subroutine ft\nend module me\n"
        put("e.f90", body)
    elif kind == "pointer_tail":
        decl = "".join(" integer, pointer :: pp%d => pp%d\n" % (k, ring(n, k)) for k in range(n))
        put("p.f90", "program ppg\n implicit none\n%s integer, pointer :: pt => pp0\n pt = 1\n print *, pt\nend program ppg\n" % decl)
    elif kind == "pointer_x_use":
        for k in range(n):
            put("x%d.f90" % k, "module mx%d\n use mx%d\n integer, pointer :: px%d => px%d\ncontains\n subroutine sx%d()\n  px%d = 1\n end subroutine sx%d\nend module mx%d\n" % (
                k, ring(n, k), k, ring(n, k), k, k, k, k))
    elif kind == "procptr_x_use":
        for k in range(n):
            put("y%d.f90" % k, "module my%d\n use my%d\n procedure(qy%d), pointer :: qy%d => qy%d\ncontains\n subroutine sy%d()\n  call qy%d()\n end subroutine sy%d\nend module my%d\n" % (
                k, ring(n, k), ring(n, k), k, ring(n, k), k, k, k, k))
    elif kind == "pointer_x_submodule":
        for k in range(n):
            put("z%d.f90" % k, "submodule (sz%d) sz%d\n integer, pointer :: pz%d => pz%d\ncontains\n subroutine tz%d()\n  pz%d = 1\n end subroutine tz%d\nend submodule sz%d\n" % (
                ring(n, k), k, k, ring(n, k), k, k, k, k))
    # ---- self-reference through a dummy procedure's interface, INCLUDE inside a procedure, preprocessor #include rings
    elif kind == "dummy_proc":
        body = "module md\ncontains\n"
        for k in range(n):
            body += " subroutine sd%d(pd%d)\n  procedure(sd%d) :: pd%d\n  call pd%d(pd%d)\n end subroutine sd%d\n" % (k, k, ring(n, k), k, k, k, k)
        put("d.f90", body + "end module md\n")
    elif kind == "dummy_result":
        body = "module mr\ncontains\n"
        for k in range(n):
            body += " function fr%d(pr%d) result(rr%d)\n  procedure(fr%d) :: pr%d\n  procedure(fr%d), pointer :: rr%d\n  rr%d => pr%d\n end function fr%d\n" % (
                k, k, k, ring(n, k), k, ring(n, k), k, k, k, k)
        put("r.f90", body + "end module mr\n")
    elif kind == "include_nested":
        # every second file carries its INCLUDE inside a procedure, the others at top level
        for k in range(n):
            if k % 2 == 0:
                put("j%d.f90" % k, "integer :: vj%d\nsubroutine sj%d()\n include 'j%d.f90'\n vj%d = 1\nend subroutine sj%d\n" % (k, k, ring(n, k), k, k))
            else:
                put("j%d.f90" % k, "integer :: vj%d\ninclude 'j%d.f90'\n" % (k, ring(n, k)))
    elif kind == "include_nested_all":
        for k in range(n):
            put("k%d.f90" % k, "integer :: vk%d\nsubroutine sk%d()\n include 'k%d.f90'\n vk%d = 1\nend subroutine sk%d\n" % (k, k, ring(n, k), k, k))
    elif kind == "submodule_x_interface":
        # submodules naming each other as parent next to a healthy module whose separate module procedures are searched for their
        # bodies (one body in a child submodule, one in a grandchild, one missing)
        for k in range(n):
            put("t%d.f90" % k, "submodule (st%d) st%d\ncontains\n subroutine tt%d()\n end subroutine tt%d\nend submodule st%d\n" % (ring(n, k), k, k, k, k))
        put("geo.f90", "module geo\n implicit none\n interface\n  module subroutine area(r)\n   real :: r\n  end subroutine area\n"
                       "  module subroutine rescale(r, f)\n   real :: r, f\n  end subroutine rescale\n"
                       "  module subroutine deep(r)\n   real :: r\n  end subroutine deep\n end interface\nend module geo\n")
        put("geo_a.f90", "submodule (geo) geo_a\ncontains\n module subroutine area(r)\n  real :: r\n  r = 1.0\n end subroutine area\nend submodule geo_a\n")
        put("geo_b.f90", "submodule (geo:geo_a) geo_b\ncontains\n module subroutine deep(r)\n  real :: r\n  r = 2.0\n end subroutine deep\nend submodule geo_b\n")
        put("geo_main.f90", "program pg\n use geo\n real :: radius\n call area(radius)\n call rescale(radius, 2.0)\n call deep(radius)\nend program pg\n")
    elif kind == "dummy_many":
        # one procedure, n + 5 dummy procedures that all name it as their interface
        m = n + 5
        names = ", ".join("pm%d" % i for i in range(m))
        put("dm.f90", "module mdm\ncontains\n subroutine sdm(%s)\n  procedure(sdm) :: %s\n  call pm0(%s)\n end subroutine sdm\nend module mdm\n" % (names, names, names))
    elif kind == "include_twice":
        # f is included by two procedures (of g and of h) and itself includes g from inside a procedure; the file names decide the
        # order of resolution (the first permutation builds a stale child link that only the children direction of the guard sees)
        nf, ng, nh = [("w3.f90", "w2.f90", "w1.f90"), ("w1.f90", "w2.f90", "w3.f90"), ("w2.f90", "w3.f90", "w1.f90"), ("w3.f90", "w1.f90", "w2.f90")][n - 1]
        put(nf, "integer :: xf\nsubroutine dw()\n include '%s'\n xf = 1\nend subroutine dw\n" % ng)
        put(ng, "integer :: xg\nsubroutine ew1()\n include '%s'\n xg = 1\nend subroutine ew1\n" % nf)
        put(nh, "integer :: xh\nsubroutine ew2()\n include '%s'\n xh = 1\nend subroutine ew2\n" % nf)
    elif kind == "pp_include":
        # headers that include each other without guards, two #include lines per file
        for k in range(n):
            put("h%d.h" % k, '#include "h%d.h"\n#define HH%d %d\n#include "h%d.h"\n' % (ring(n, k), k, k, ring(n, k)))
        put("main_h.F90", '#include "h0.h"\nprogram ph\n integer :: vh\n vh = HH0\nend program ph\n')
    return files


KINDS = ["use", "extends", "submodule", "pointer", "procptr", "associate", "binding", "include",
         "submodule_tail", "extends_tail", "pointer_tail", "pointer_x_use", "procptr_x_use", "pointer_x_submodule",
         "dummy_proc", "dummy_result", "include_nested", "include_nested_all", "include_twice", "pp_include", "submodule_x_interface", "dummy_many"]


def identifiers(text):
    out = []
    for li, line in enumerate(text.split("\n")):
        for m in re.finditer(r"[A-Za-z_]\w*", line):
            out.append((li, m.start() + 1))
    return out


def run_workspace(ctx, kind, n, split, coq_exprs, coq_meta):
    root = tempfile.mkdtemp(prefix="verif_c20_")
    files = catalogue(kind, n, split)
    try:
        for name, text in files.items():
            with open(os.path.join(root, name), "w") as f:
                f.write(text)
        old = signal.signal(signal.SIGALRM, _alarm)
        bad = []
        nreq = 0
        try:
            ARMED[0] = True
            signal.setitimer(signal.ITIMER_REAL, 60, 0.25)   # repeating: bare excepts may swallow one delivery
            srv, conn = impl.make_server(root, extra=["--nthreads", "1"])
            init_msgs = [o for o in conn.take() if o[0] == "e"]
            if init_msgs:
                bad.append(("initialize", None, None, init_msgs[0][2:]))
            for name, text in files.items():
                path = os.path.join(root, name)
                conn.take()
                t0 = time.time()
                impl.did_open(srv, path)
                dt = time.time() - t0
                out = conn.take()
                for o in out:
                    if o[0] == "e" or (o[0] == "n" and o[1] == "window/showMessage" and o[2].get("type") == 1):
                        bad.append(("didOpen", name, None, repr(o)[:200]))
                # the notification is carried out: diagnostics are published, in time (an endless walk inside the diagnostics pass is
                # cut by the alarm, which the server's own exception handling may swallow: it shows as a missing publication)
                if dt > 10.0 or not any(o[0] == "n" and o[1] == "textDocument/publishDiagnostics" for o in out):
                    bad.append(("didOpen", name, None, "no diagnostics published / %.1f s" % dt))
                for (li, ch) in identifiers(text):
                    for m in METHODS:
                        p = impl.pos_params(path, li, ch)
                        if m.endswith("rename"):
                            p["newName"] = "zz"
                        if m.endswith("references"):
                            p["context"] = {"includeDeclaration": True}
                        t0 = time.time()
                        r, _ = impl.request(srv, conn, m, p)
                        nreq += 1
                        dt = time.time() - t0
                        if r is None or r[0] == "e" or dt > 2.0:
                            bad.append((m, name, (li, ch), (r[3] if r and r[0] == "e" else "no answer" if r is None else "slow %.1fs" % dt)))
            if kind.startswith("include"):
                # every file of the cycle is saved again with a line added: the notification is carried out (diagnostics are published)
                for name, text in files.items():
                    path = os.path.join(root, name)
                    with open(path, "a") as f:
                        f.write("\n")
                    conn.take()
                    impl.did_save(srv, path)
                    if not any(o[0] == "n" and o[1] == "textDocument/publishDiagnostics" for o in conn.take()):
                        bad.append(("didSave", name, None, "no diagnostics published after saving a file of the cycle (the notification was aborted)"))
            correspondence(srv, coq_exprs, coq_meta, (kind, n, split))
            forest_correspondence(ctx, srv, coq_exprs, coq_meta, (kind, n, split), files)
        except Timeout:
            ARMED[0] = False
            bad.append(("timeout", None, None, "workspace took more than 60 s (endless loop / unbounded recursion)"))
        finally:
            ARMED[0] = False
            signal.setitimer(signal.ITIMER_REAL, 0)
            signal.signal(signal.SIGALRM, old)
        ctx.count((kind, n, split), True, sample={"kind": kind, "length": n, "split": split, "files": {k: v[:200] for k, v in list(files.items())[:2]}})
        ctx.extra["requests"] = ctx.extra.get("requests", 0) + nreq
        if bad:
            ctx.report("C20:%s" % kind, "a %s cycle of length %d makes a request fail: %s" % (kind, n, bad[0]),
                       {"kind": "counterexample", "input": {"cycle": kind, "length": n, "split": split, "files": files},
                        "implementation": [list(map(str, b)) for b in bad[:8]]})
    finally:
        shutil.rmtree(root, ignore_errors=True)


def correspondence(srv, exprs, meta, tag):
    """extract the pointer graphs and compare the implementation's walks with Shared.Walks.walk"""
    objs = []
    for f in srv.workspace.values():
        ast = f.ast
        for sc in list(ast.scope_list) + list(ast.variable_list):
            if not any(sc is o for o in objs):
                objs.append(sc)

    def idx(o):
        for i, x in enumerate(objs):
            if x is o:
                return i
        objs.append(o)
        return len(objs) - 1
    from fortls.parsers.internal.submodule import Submodule
    from fortls.parsers.internal.type import Type
    from fortls.parsers.internal.variable import Variable
    # close the object set under the three pointers
    changed = True
    while changed:
        changed = False
        for o in list(objs):
            for attr in ("ancestor_obj", "inherit_var", "link_obj"):
                t = getattr(o, attr, None)
                if t is not None and not any(t is x for x in objs):
                    objs.append(t); changed = True
    n = len(objs)

    def graph(attr):
        return [(i, idx(getattr(o, attr))) for i, o in enumerate(objs) if getattr(o, attr, None) is not None]
    g_anc, g_inh, g_link = graph("ancestor_obj"), graph("inherit_var"), graph("link_obj")

    def cg(g):
        return clist(g, lambda p: "(%s, %s)" % (cnat(p[0]), cnat(p[1])))
    for i, o in enumerate(objs):
        if isinstance(o, Submodule):
            got = [idx(a) for a in o.get_ancestors()]
            start = idx(o.ancestor_obj) if o.ancestor_obj is not None else None
            # the loop of get_ancestors ends on None, on self or on a visited node
            ended_on_guard = False
            cur = o.ancestor_obj
            seen = []
            while cur is not None and cur is not o and not any(cur is s for s in seen):
                seen.append(cur); cur = getattr(cur, "ancestor_obj", None)
            ended_on_guard = cur is not None
            exprs.append("chk_walk %s (Some %s) %s %s %s %s" % (cg(g_anc), cnat(i), cnat(n), "None" if start is None else "(Some %s)" % cnat(start),
                                                             clist(got, cnat), "true" if ended_on_guard else "false"))
            meta.append((tag, "get_ancestors", o.name))
        if isinstance(o, Type):
            visited = []
            try:
                o.get_overridden("zz_none", visited)
            except TypeError:
                visited = None
            if visited is not None:
                got = [idx(v) for v in visited]
                cur = o
                seen = []
                while cur is not None and not any(cur is s for s in seen):
                    seen.append(cur); cur = getattr(cur, "inherit_var", None)
                exprs.append("chk_walk %s None %s (Some %s) %s %s" % (cg(g_inh), cnat(n), cnat(i), clist(got, cnat), "true" if cur is not None else "false"))
                meta.append((tag, "get_overridden", o.name))
        if isinstance(o, Variable):
            for j, w in enumerate(objs):
                if isinstance(w, Variable) and (j % 3 == i % 3):
                    if not hasattr(o, "is_linked_from"):
                        continue
                    got = o.is_linked_from(w)
                    exprs.append("match walk (nextf %s) (Some %s) (%s + 1) [] (Some %s) with Some (_, c) => Bool.eqb c %s | None => false end" % (
                        cg(g_link), cnat(i), cnat(n), cnat(j), "true" if got else "false"))
                    meta.append((tag, "is_linked_from", o.name + "/" + w.name))


def forest_correspondence(ctx, srv, exprs, meta, tag, files):
    """the scope graph after INCLUDE resolution: no cycle in the parent links nor in the children lists (the invariant of
    C20.Forest, observed), and ast.encloses on the real objects = Shared.Walks.encloses on the extracted graph"""
    objs = []

    def idx(o):
        for i, x in enumerate(objs):
            if x is o:
                return i
        objs.append(o)
        return len(objs) - 1
    for f in srv.workspace.values():
        ast = f.ast
        for sc in list(ast.scope_list) + [x for x in (ast.none_scope, ast.inc_scope) if x is not None]:
            idx(sc)
    k = 0
    while k < len(objs):          # close under parent and children
        o = objs[k]
        if getattr(o, "parent", None) is not None:
            idx(o.parent)
        for c in getattr(o, "children", None) or []:
            idx(c)
        k += 1
    n = len(objs)
    par = [(i, idx(o.parent)) for i, o in enumerate(objs) if getattr(o, "parent", None) is not None]
    ch = [(i, [idx(c) for c in (getattr(o, "children", None) or [])]) for i, o in enumerate(objs)]
    ch = [(i, l) for (i, l) in ch if l]
    # observed invariant
    pmap, cmap = dict(par), dict(ch)
    for i in range(n):
        cur, steps = pmap.get(i), 0
        while cur is not None and cur != i and steps <= n:
            cur, steps = pmap.get(cur), steps + 1
        seen, stack, cyc = set(), list(cmap.get(i, [])), False
        while stack:
            x = stack.pop()
            if x == i:
                cyc = True
                break
            if x not in seen:
                seen.add(x); stack.extend(cmap.get(x, []))
        if cur == i or steps > n or cyc:
            ctx.report("C20:scope-graph-cycle", "after INCLUDE resolution the scope '%s' is its own %s" % (objs[i].name, "descendant" if cyc else "ancestor"),
                       {"kind": "counterexample", "input": {"cycle": tag[0], "length": tag[1], "split": tag[2], "files": files},
                        "implementation": {"parent": par, "children": ch, "object": i}})
            return
    try:
        from fortls.parsers.internal.ast import encloses as impl_encloses
    except ImportError:
        if ctx.extra.get("encloses_missing"):
            return
        ctx.extra["encloses_missing"] = True
        ctx.report("C20:encloses-missing", "fortls.parsers.internal.ast.encloses (the guard of resolve_includes) is gone",
                   {"kind": "broken-correspondence", "correspondence": "FV.Shared.Walks.encloses vs fortls.parsers.internal.ast.encloses"}, found_input=False)
        return
    pairs = [(i, j) for i in range(n) for j in range(n)]
    if len(pairs) > 120:
        pairs = ctx.rng.sample(pairs, 120)
    cases = [(i, j, bool(impl_encloses(objs[i], objs[j]))) for (i, j) in pairs]
    deg = max([len(l) for (_, l) in ch] + [0])
    exprs.append("chk_enc %s %s %s %s" % (
        clist(par, lambda p: "(%s, %s)" % (cnat(p[0]), cnat(p[1]))), clist(ch, lambda p: "(%s, %s)" % (cnat(p[0]), clist(p[1], cnat))),
        cnat(n * (deg + 1) + 2), clist(cases, lambda t: "(%s, %s, %s)" % (cnat(t[0]), cnat(t[1]), "true" if t[2] else "false"))))
    meta.append((tag, "ast.encloses", "%d objects, %d pairs" % (n, len(cases))))


INCLUDE_ORDER_FILES = {
    "p_inc.f90": "integer :: xp\ninterface\n  subroutine sp()\n    include 'q_inc.f90'\n  end subroutine sp\nend interface\n",
    "q_inc.f90": "integer :: xq\ninterface\n  subroutine sq()\n    include 'p_inc.f90'\n  end subroutine sq\nend interface\n",
    "main.f90": "module m\n  include 'q_inc.f90'\n  integer :: xm\ncontains\n  subroutine s()\n    xm = xq\n  end subroutine s\nend module m\n",
}


def check_include_orders(ctx):
    """two files that INCLUDE each other from inside interface bodies and a third that includes one of them, opened one by one on a
    server started on the empty directory, in all six orders: every didOpen publishes diagnostics, nothing is answered with an error"""
    import itertools
    for order in itertools.permutations(sorted(INCLUDE_ORDER_FILES)):
        root = tempfile.mkdtemp(prefix="verif_c20_o_")
        bad = []
        old = signal.signal(signal.SIGALRM, _alarm)
        try:
            ARMED[0] = True
            signal.setitimer(signal.ITIMER_REAL, 30, 0.25)
            srv, conn = impl.make_server(root, extra=["--nthreads", "1"])
            conn.take()
            for name, text in INCLUDE_ORDER_FILES.items():
                with open(os.path.join(root, name), "w") as f:
                    f.write(text)
            for name in order:
                path = os.path.join(root, name)
                t0 = time.time()
                impl.did_open(srv, path)
                dt = time.time() - t0
                out = conn.take()
                if dt > 10.0 or not any(o[0] == "n" and o[1] == "textDocument/publishDiagnostics" for o in out) or \
                        any(o[0] == "e" or (o[0] == "n" and o[1] == "window/showMessage" and o[2].get("type") == 1) for o in out):
                    bad.append(("didOpen", name, "no diagnostics published / error / %.1f s" % dt))
            for name in order:
                path = os.path.join(root, name)
                for (li, ch) in identifiers(INCLUDE_ORDER_FILES[name]):
                    for m in ("textDocument/hover", "textDocument/definition"):
                        r, _ = impl.request(srv, conn, m, impl.pos_params(path, li, ch))
                        if r is None or r[0] == "e":
                            bad.append((m, name, (li, ch)))
        except Timeout:
            bad.append(("timeout", None, "more than 30 s"))
        except RecursionError:
            bad.append(("RecursionError", None, "outside the request handlers"))
        finally:
            ARMED[0] = False
            signal.setitimer(signal.ITIMER_REAL, 0)
            signal.signal(signal.SIGALRM, old)
            shutil.rmtree(root, ignore_errors=True)
        ctx.count(("include-order", order), True)
        if bad:
            ctx.report("C20:include-open-order", "files of an INCLUDE cycle opened in the order %s: %s" % (list(order), bad[0]),
                       {"kind": "counterexample", "input": {"files": INCLUDE_ORDER_FILES, "open_order": list(order)}, "implementation": [list(map(str, b)) for b in bad[:6]]})


def search_failing(ctx):
    return None


def run(ctx):
    ctx.cov["trusted_base"] = BASE_TRUST + [
        "hand-written model Shared/Walks.v tied to Submodule.get_ancestors / Type.get_overridden / FortranObj.is_linked_from by running them on "
        "pointer graphs extracted from the implementation's own objects (this run)",
        "Shared/ScopeMachine.v (trace-validated in C03) for the parent-pointer theorem",
    ]
    ctx.assumptions = [
        "the walks are modelled by their recursion skeleton; what they compute along the way is not part of the termination theorems",
        "'bounded time' is observed (2 s per request, 60 s per workspace), the theorems bound the number of steps by the number of objects",
    ]
    ctx.cov["rule"] = ("catalogue: %d cycle kinds (USE, EXTENDS, submodule ancestry, pointer, procedure pointer, ASSOCIATE, type-bound binding, INCLUDE, lassos entering a "
                       "cycle from outside, link cycles laid over USE/ancestry cycles, dummy procedures whose interface is the enclosing procedure, INCLUDE inside "
                       "procedures, unguarded #include rings) " % len(KINDS) +
                       "x lengths 1-4 x one file or one unit per file; every identifier occurrence x 8 position-based methods; "
                       "non-trivial: all; distinct by (kind, length, placement)")
    ctx.proof_obligations(search=lambda: search_failing(ctx))
    coq = ctx.coq(IMPORTS)
    exprs, meta = [], []
    lengths = [1, 2, 3] if ctx.quick() else [1, 2, 3, 4]
    for kind in KINDS:
        for n in lengths:
            for split in ([False] if ctx.quick() or kind not in ("use", "submodule") else [False, True]):
                run_workspace(ctx, kind, n, split, exprs, meta)
    check_include_orders(ctx)
    bad = coq.bools(exprs, shard=200)
    ctx.cov["traces_validated_against_impl"] += len(exprs)
    for b in bad[:5]:
        ctx.report("C20:model-impl-mismatch", "%s differs from Shared.Walks.walk on the extracted pointer graph (%s)" % (meta[b][1], meta[b]),
                   {"kind": "broken-correspondence", "input": {"workspace": list(map(str, meta[b][0])), "object": meta[b][2]},
                    "correspondence": "FV.Shared.Walks.walk vs %s" % meta[b][1]}, found_input=False)


def replay(ctx, path):
    with open(path) as f:
        doc = json.load(f)
    inp = doc["input"]
    exprs, meta = [], []
    n0 = ctx.violations
    run_workspace(ctx, inp["cycle"], inp["length"], inp.get("split", False), exprs, meta)
    shutil.rmtree(ctx.workdir, ignore_errors=True)
    return 1 if ctx.violations > n0 else 0
