"""C14 -- fixed-form sources are recognised and understood like their free-form twin.

Obligations: C14/Props.v.  Correspondence: C14.Model.detect_fixed against detect_fixed_format on printed
fixed/free programs, ill-formed variants, preprocessor lines and small-alphabet strings.
Oracle: a generated program printed in both forms (x.f / x.f90): same classification as printed, same dump
modulo the line map.
"""
from __future__ import annotations

import json
import os
import shutil
import tempfile

from ..common import BASE_TRUST, clist, cstr
from .. import impl
from . import c04, c13

IMPORTS = "From FV Require Import Base.Str C14.Model."

COMMENT_WORDS = ["o not edit", "all it twice", "ontains nothing", "ata follows", "a note", " fixed-form comment", "--- section ---", " end subroutine fake", " integer :: not_a_decl", "omment", " module x", "", "     & looks like a continuation"]


def labelled(units, rng):
    """turn some DO constructs into labelled ones (DO <label> ... <label> CONTINUE); directly nested ones may share the label"""
    lab = [100]

    def walk(nodes, shared=None):
        for idx, nd in enumerate(nodes):
            if "leaf" in nd:
                continue
            if nd["kind"] == "KDo" and ": " not in nd["open"] and rng.random() < 0.6:
                last = idx == len(nodes) - 1
                if shared is not None and last and rng.random() < 0.6:
                    nd["label"] = shared
                    nd["noend"] = True
                else:
                    lab[0] += 10
                    nd["label"] = str(lab[0])
                nd["open"] = "do %s i = 1, 3" % nd["label"]
                walk(nd["body"], nd["label"])
            else:
                walk(nd["body"], None)
    walk(units)


EXTRA_DECLS = [None, 0]     # rng (set by check_pairs), counter


def statements(units):
    """[(label or None, text, kind)]"""
    out = []

    def walk(nodes):
        for nd in nodes:
            if "leaf" in nd:
                t = nd["text"]
                if nd["leaf"].startswith("LVar"):
                    k = "decl"
                elif t.strip().lower() in ("contains", "implicit none") or t.strip().lower().startswith(("use ", "private", "public")):
                    k = "plain"
                else:
                    k = "exec"
                out.append((None, t, k))
                if k == "decl" and EXTRA_DECLS[0] is not None and EXTRA_DECLS[0].random() < 0.4:
                    # declarations whose first letter is a fixed-form comment flag
                    EXTRA_DECLS[1] += 1
                    out.append((None, EXTRA_DECLS[0].choice(["double precision :: dq%d", "character(len=4) :: cq%d", "complex :: zq%d", "doubleprecision dr%d"]) % EXTRA_DECLS[1], "decl"))
            else:
                out.append((None, nd["open"].strip(), "struct"))
                walk(nd["body"])
                if nd.get("noend"):
                    continue
                if "label" in nd:
                    out.append((nd["label"], "continue", "struct"))
                else:
                    out.append((None, nd["end"].strip(), "struct"))
    walk(units)
    return out


def layout_plan(stmts, rng):
    """decisions shared by both renderings: comment lines, blank lines, continuation cut points, inline comments"""
    plan = []
    for idx, (lab, t, kind) in enumerate(stmts):
        d = {"comments": [], "blank": 0, "cut": None, "inline": None}
        if plan and plan[-1].get("join"):
            plan.append(d)      # written on the previous statement's line
            continue
        if rng.random() < 0.2:
            d["comments"] = [rng.choice(COMMENT_WORDS) for _ in range(rng.choice([1, 1, 2]))]
        if rng.random() < 0.15:
            d["blank"] = rng.choice([1, 2])
        if kind in ("exec", "decl") and rng.random() < 0.3:
            # cut before a blank (the continuation starts with the blank) or after it (the continuation starts with a token)
            cut = [k for k in range(len(t)) if t[k] == " " and t[:k].strip() and t[k:].strip()]
            cut += [k + 1 for k in cut if t[k + 1] != " "]
            if cut:
                d["cut"] = rng.choice(cut)
                # comment and blank lines may stand between an initial line and its continuation
                d["between"] = [rng.choice(["inside a continued statement", ""]) for _ in range(rng.choice([0, 0, 1, 2]))]
        elif rng.random() < 0.15 and kind != "plain":
            d["inline"] = rng.choice([" ! note", " !x"])
        if (d["cut"] is None and kind in ("exec", "decl") and lab is None and idx + 1 < len(stmts) and stmts[idx + 1][2] == kind and stmts[idx + 1][0] is None
                and rng.random() < 0.25):
            d["join"] = rng.choice([";", "; ", " ;"])      # the next statement follows on the same line
        plan.append(d)
    return plan


def render(stmts, plan, rng, fixed):
    lines, start = [], []
    skip = False
    for idx, ((lab, t, kind), d) in enumerate(zip(stmts, plan)):
        if skip:
            skip = False
            start.append(len(lines) - 1)
            continue
        if d.get("join"):
            t = t.rstrip() + d["join"] + stmts[idx + 1][1].strip()
            skip = True
        for _ in range(d["blank"]):
            lines.append("")
        for c in d["comments"]:
            # fixed form: flagged in column 1, or a `!` comment that starts in columns 2-5 or from column 7 on
            lines.append(rng.choice([rng.choice("Cc*!dD") + c, rng.choice("Cc*!dD") + c, " " * rng.choice([1, 2, 4]) + "!" + c, "       !" + c]) if fixed else ("  !" + c))
        start.append(len(lines))
        if fixed:
            head = (lab or "").ljust(5) + " " + " " * rng.choice([0, 0, 1, 3])
        else:
            head = ((lab + " ") if lab else "") + "  " + " " * rng.choice([0, 1, 2])
        if d["cut"] is not None:
            a, b = t[:d["cut"]], t[d["cut"]:]
            between = d.get("between", [])
            if fixed:
                lines.append(head + a)
                lines += [("C " + x if x else "") for x in between]
                lines.append("     " + rng.choice("&1+$.!*") + b)
            else:
                lines.append(head + a + " &")
                lines += [("  ! " + x if x else "") for x in between]
                lines.append("     " + rng.choice(["", "&"]) + b)
        else:
            lines.append(head + t + (d["inline"] or ""))
    return "\n".join(lines) + "\n", start


def check_pairs(ctx, n):
    from fortls.helper_functions import detect_fixed_format
    for k in range(n):
        g = c04.Gen(ctx.rng, keyword_names=False)
        units = [g.unit() for _ in range(ctx.rng.choice([1, 2]))]
        labelled(units, ctx.rng)
        EXTRA_DECLS[0] = ctx.rng
        stmts = statements(units)
        EXTRA_DECLS[0] = None
        plan = layout_plan(stmts, ctx.rng)
        ftext, fstart = render(stmts, plan, ctx.rng, True)
        rtext, rstart = render(stmts, plan, ctx.rng, False)
        nlab = sum(1 for s in stmts if s[0])
        ctx.count(("pair", ftext), nlab > 0 or any(d["cut"] is not None for d in plan), sample={"fixed": ftext[:500]})
        inp = {"fixed": ftext, "free": rtext}
        if not detect_fixed_format(ftext.split("\n")[:-1]):
            ctx.report("C14:fixed-not-recognised", "a program printed in fixed form is classified as free form", {"kind": "counterexample", "input": inp})
            continue
        if detect_fixed_format(rtext.split("\n")[:-1]):
            ctx.report("C14:free-as-fixed", "an indented free-form program is classified as fixed form", {"kind": "counterexample", "input": inp})
            continue
        fd = c13.dump(ftext, ".f")
        rd = c13.dump(rtext, ".f90")
        if fd is None or rd is None:
            ctx.report("C14:no-index", "no outline for a generated program", {"kind": "counterexample", "input": inp})
            continue
        if k < (4 if ctx.quick() else 60):
            check_pasted(ctx, ftext, rtext, fd, rd)
        fm = c13.map_dump(fd, fstart)
        rm = c13.map_dump(rd, rstart)
        if fm != rm:
            ctx.report("C14:twin", "the fixed-form rendering is understood differently from its free-form twin",
                       {"kind": "counterexample", "input": inp,
                        "implementation": {"symbols": [x for x in fm[0] if x not in rm[0]][:8], "diagnostics": [x for x in fm[1] if x not in rm[1]][:8]},
                        "oracle": {"symbols": [x for x in rm[0] if x not in fm[0]][:8], "diagnostics": [x for x in rm[1] if x not in fm[1]][:8]}})


def pasted_dump(text, ext, initial):
    """the same outline as c13.dump, but the text arrives by one ranged edit into a document whose on-disk content is `initial`"""
    root = tempfile.mkdtemp(prefix="verif_c14_p_")
    try:
        path = os.path.join(root, "t" + ext)
        with open(path, "w") as f:
            f.write(initial)
        srv, conn = impl.make_server(root, extra=["--nthreads", "1"])
        impl.did_open(srv, path)
        n0 = initial.count("\n")
        impl.did_change(srv, path, [{"range": {"start": {"line": 0, "character": 0}, "end": {"line": n0, "character": 0}}, "text": text}])
        fobj = srv.workspace.get(path)
        resp, _ = impl.request(srv, conn, "textDocument/documentSymbol", {"textDocument": {"uri": impl.uri(path)}})
        syms = []
        if resp and resp[0] == "r" and resp[2] is not None:
            for sy in resp[2]:
                rg = sy["location"]["range"]
                syms.append((sy["name"].lower(), sy["kind"], rg["start"]["line"], rg["end"]["line"], (sy.get("containerName") or "").lower()))
        return (fobj.fixed if fobj is not None else None), sorted(syms)
    finally:
        shutil.rmtree(root, ignore_errors=True)


def check_pasted(ctx, ftext, rtext, fd, rd):
    """the source form is a function of the current text: a free-form program pasted into an empty document (empty text is classified
    as fixed form) and a fixed-form program pasted over a free-form one are understood like the same text read from disk"""
    for (what, text, ext, initial, want_fixed, ref) in (("free-form program pasted into an empty document", rtext, ".f90", "", False, rd),
                                                        ("fixed-form program pasted over a free-form line", ftext, ".f", "  integer :: placeholder\n", True, fd)):
        fixed, syms = pasted_dump(text, ext, initial)
        ctx.count(("pasted", what, text), True)
        if fixed != want_fixed or syms != sorted(ref[0]):
            ctx.report("C14:pasted-text", "%s: classified as %s form, outline %s the one of the same text read from disk" % (
                what, "fixed" if fixed else "free", "equals" if syms == sorted(ref[0]) else "differs from"),
                {"kind": "counterexample", "input": {"text": text, "initial_text": initial, "edit": "one ranged didChange replacing everything"},
                 "implementation": {"fixed": fixed, "symbols": syms[:12]}, "oracle": {"fixed": want_fixed, "symbols": sorted(ref[0])[:12]}})


# hand-written twins: the same program in fixed and in free form, line by line
DIRECTED_TWINS = [
    # statements joined by `;` whose second part starts with a letter that flags a comment in column 1 (c, d), a labelled DO,
    # comment lines of every kind between the statements
    ("      subroutine tw(n, total)\n      integer n, i;double precision total\nC     a remark\n      total = 0;do 10 i = 1, n\n      total = total + i;continue\n"
     "   10 continue\n* another\n      integer k;character(len=3) s;complex z\n      end\n",
     "subroutine tw(n, total)\n  integer n, i;double precision total\n  ! a remark\n  total = 0;do 10 i = 1, n\n  total = total + i;continue\n"
     "10 continue\n  ! another\n  integer k;character(len=3) s;complex z\nend\n"),
]


def check_directed_twins(ctx):
    for ftext, rtext in DIRECTED_TWINS:
        fd = c13.dump(ftext, ".f", hover_words=("total", "s", "z", "k"))
        rd = c13.dump(rtext, ".f90", hover_words=("total", "s", "z", "k"))
        ctx.count(("directed-twin", ftext), True)
        if fd is None or rd is None or fd != rd:
            ctx.report("C14:twin", "a hand-written fixed-form program is understood differently from its free-form twin",
                       {"kind": "counterexample", "input": {"fixed": ftext, "free": rtext}, "implementation": fd, "oracle": rd})


def detection_inputs(ctx, n):
    r = ctx.rng
    out = []
    kws = ["integer", "REAL", "double precision", "DOUBLE  COMPLEX", "complex", "character", "logical", "procedure", "external", "class", "type", "typo", "rea", "doubles", "double"]
    for _ in range(n):
        kind = r.choice(["fixed", "free", "pp", "alpha", "kw", "mutfixed"])
        if kind in ("fixed", "mutfixed", "free"):
            g = c04.Gen(r, keyword_names=False)
            units = [g.unit()]
            labelled(units, r)
            stmts = statements(units)
            text, _ = render(stmts, layout_plan(stmts, r), r, kind != "free")
            ls = text.split("\n")[:-1][:r.choice([3, 8, 40])]
            if kind == "mutfixed" and ls:
                i = r.randrange(len(ls))
                ls[i] = r.choice([ls[i][r.choice([1, 2, 3, 5]):], ls[i] + " &", " " * r.choice([0, 2, 5, 6]) + r.choice(kws) + " :: q", ls[i].replace("C", "Complex", 1),
                                  ls[i] + " ! x &", ls[i] + "& ! c", "\t" + ls[i], ls[i] + " &\t ", ls[i] + " &\xa0"])
            out.append(ls)
        elif kind == "pp":
            body = r.choice([" free format", "C fixed", "  x = 1 &", "      x = 1"])
            out.append(r.choice([
                ["#if defined(A) \\", " && !defined(B)", body, "#endif"],
                ["#if defined(A) \\ ", "&& \\", "!defined(B)", body, "#endif"],
                ["#define X \\\t", " integer :: a", body],
                ["#define X \\ x", " integer :: a", body],
                ["  #if 1", body], ["#", body], ["#\\", " a", body]]))
        elif kind == "alpha":
            out.append(["".join(r.choice(" aZ1!&c*#\\") for _ in range(r.choice([0, 1, 2, 4, 7, 9]))) for _ in range(r.choice([1, 1, 2, 3]))])
        else:
            out.append([" " * r.choice([0, 1, 4, 5, 6, 7]) + r.choice(kws) + r.choice(["", " :: x", "(3)", "x"])])
    return out


def check_detection(ctx, n):
    from fortls.helper_functions import detect_fixed_format
    coq = ctx.coq(IMPORTS)
    exprs, meta = [], []
    for ls in detection_inputs(ctx, n):
        if any(ord(c) > 255 for l in ls for c in l):
            continue
        got = detect_fixed_format(ls)
        ctx.count(("detect", tuple(ls)), len(ls) > 1)
        exprs.append("Bool.eqb (detect_fixed %s) %s" % (clist(ls, cstr), "true" if got else "false"))
        meta.append((ls, got))
    bad = coq.bools(exprs, shard=250)
    ctx.cov["traces_validated_against_impl"] += len(exprs)
    for b in bad[:3]:
        ctx.report("C14:model-impl-mismatch", "detect_fixed_format differs from C14.Model.detect_fixed",
                   {"kind": "broken-correspondence", "input": {"lines": meta[b][0]}, "implementation": meta[b][1], "correspondence": "FV.C14.Model.detect_fixed"}, found_input=False)


def theorem_instances(ctx):
    """instances of indented_free_form_never_fixed and fixed_form_recognised on the implementation"""
    from fortls.helper_functions import detect_fixed_format
    r = ctx.rng
    bodies = ["program p", "x = 1", "call foo(x)", "do i = 1, 3", "end do", "print *, x", "contains", "subroutine s(a)", "end subroutine s", "end program p", "if (x > 0) y = 2"]
    for indent in (1, 2, 3, 4):
        for _ in range(6):
            ls = [" " * indent + r.choice(bodies) for _ in range(r.choice([1, 2, 5]))]
            ctx.count(("inst-free", tuple(ls)), True)
            if detect_fixed_format(ls):
                ctx.report("C14:free-as-fixed", "a free-form program whose statements are indented by %d blanks is classified as fixed form" % indent,
                           {"kind": "counterexample", "input": {"lines": ls}, "implementation": True, "oracle": False})
    # continuation_or_declaration_never_fixed: a declaration starting before column 7, or a trailing & outside a column-1 comment
    for kw in ["integer", "real", "double precision", "complex", "double complex", "character(len=3)", "logical", "procedure(p)", "external", "class(t)", "type(t)",
               "CHARACTER", "Double  Precision", "Class(t), allocatable"]:
        for ind in (0, 1, 5):
            ls = [r.choice(["program p", "c = 1", "* = 2"]), " " * ind + kw + " :: zz", "end"]
            ctx.count(("inst-decl", kw, ind), True)
            if detect_fixed_format(ls):
                ctx.report("C14:free-as-fixed", "a free-form text with a declaration starting in column %d is classified as fixed form" % (ind + 1),
                           {"kind": "counterexample", "input": {"lines": ls}, "implementation": True, "oracle": False})
    for ls in (["program p", "x = 1 + &", "    2", "end"], ["a = [1, & ! c", "2]"], ["x = s(a, &", "b)"]):
        ctx.count(("inst-amp", tuple(ls)), True)
        if detect_fixed_format(ls):
            ctx.report("C14:free-as-fixed", "a free-form text with a trailing & is classified as fixed form",
                       {"kind": "counterexample", "input": {"lines": ls}, "implementation": True, "oracle": False})
    for _ in range(40):
        ls = []
        for _ in range(r.choice([1, 3, 6])):
            k = r.choice(["c", "s", "s", "k"])
            if k == "c":
                ls.append(r.choice("Cc*!dD") + r.choice([" text", "", "omment", " integer :: x", "    x = 1", " trailing &"]))
            elif k == "s":
                ls.append(r.choice(["     ", "10   ", "  20 ", "    5", "12345"]) + " " + " " * r.choice([0, 2]) + r.choice(bodies) + r.choice(["", " ! c", " ! c &"]))
            else:
                ls.append("     " + r.choice("&1+$.9!") + r.choice([" x", "x + 1", " , y ! c"]))
        ctx.count(("inst-fixed", tuple(ls)), True)
        if not detect_fixed_format(ls):
            ctx.report("C14:fixed-not-recognised", "a program printed in fixed form is classified as free form",
                       {"kind": "counterexample", "input": {"lines": ls}, "implementation": False, "oracle": True})


def check_gather(ctx, n):
    """C14.Gather.joined_fixed against get_code_line (fixed branch) + the join of the parse loop; lines without character literals"""
    from fortls.parsers.internal.parser import FortranFile
    coq = ctx.coq("From FV Require Import Base.Str C14.Gather.")
    r = ctx.rng
    stmts = ["integer alpha, beta, gam", "call ext_sub(x, y, z + 1)", "x = y * (z + 1) - arr(2)", "real v_one(3), v_two", "print *, x, y, z"]
    fillers = ["", "   ", "C a comment", "c     & looks like one", "* star", "! bang", "d debug", "\t", "   ! indented comment", "      ! comment in column 7", " !x"]
    tails = ["", "", " ! note", "! a & b", "  !", " ! trailing ! twice"]
    stops = [[], ["      end"], ["10    continue"], ["      x = 2", "     & + 3"], ["#ifdef X"]]
    exprs, meta = [], []
    for _ in range(n):
        stmt = r.choice(stmts)
        cuts = sorted(r.sample(range(1, len(stmt)), r.choice([0, 1, 2, 3, 4])))
        bodies = [stmt[a:b] for a, b in zip([0] + cuts, cuts + [len(stmt)])]
        lines = [" " * r.choice([6, 7, 9]) + bodies[0] + r.choice(tails)]
        for b in bodies[1:]:
            lines += [r.choice(fillers) for _ in range(r.choice([0, 0, 1, 2]))]
            lines.append("     " + r.choice("&1+$.!*x") + b + r.choice(tails))
        lines += [r.choice(fillers) for _ in range(r.choice([0, 1]))]
        lines += r.choice(stops)
        f = FortranFile("/nonexistent/gather.f")
        f.set_contents(list(lines))
        f.fixed = True
        _, cur, post = f.get_code_line(0, backward=False)
        got = "".join([cur] + post)
        ctx.count(("gather", tuple(lines)), len(bodies) > 1)
        # what the statement readers see: the joined line up to its first `!` (the trailing comment of the last line)
        if got.split("!")[0].replace(" ", "") != stmt.replace(" ", ""):
            ctx.report("C14:continuation", "a fixed-form statement split over continuation lines is not reassembled",
                       {"kind": "counterexample", "input": {"lines": lines, "statement": stmt}, "implementation": got})
        # line by line (the empty entries kept for skipped lines decide where the parser goes on reading), and joined
        exprs.append("list_eqb str_eqb (fgather %s [%s] []) %s && str_eqb (joined_fixed %s %s) %s" % (
            clist(lines[1:], cstr), cstr(lines[0]), clist([cur] + post, cstr), cstr(lines[0]), clist(lines[1:], cstr), cstr(got)))
        meta.append({"lines": lines, "implementation": got})
    bad = coq.bools(exprs, shard=300)
    ctx.cov["traces_validated_against_impl"] += len(exprs)
    for b in bad[:3]:
        ctx.report("C14:model-impl-mismatch", "get_code_line (fixed form) differs from C14.Gather.joined_fixed", {"kind": "broken-correspondence", "input": meta[b],
                   "correspondence": "FV.C14.Gather.joined_fixed vs FortranFile.get_code_line(forward, fixed) + join"}, found_input=False)


KNOWN = [
    ("C14:unindented-free-as-fixed", ["program p", "call foo()", "end program p"], False,
     "a free-form program without any indented line, declaration or '&' is classified as fixed form (then `call ...` reads as a comment)"),
    ("C14:comment-starts-keyword", ["Complex numbers here", "      program p", "      end"], True,
     "a fixed-form comment line that starts a type keyword (Complex ..., Character ..., Double precision ...) makes the whole file free form"),
]


def known(ctx):
    from fortls.helper_functions import detect_fixed_format
    for sig, ls, want, what in KNOWN:
        ctx.count(("known", sig), True)
        if detect_fixed_format(ls) != want:
            ctx.report(sig, what, {"kind": "counterexample", "input": {"lines": ls}, "implementation": not want, "oracle": want})


def search_failing(ctx):
    """after a broken obligation: look for a printed fixed-form program that is not recognised / a twin mismatch"""
    theorem_instances(ctx)
    check_pairs(ctx, 60)
    return None


def run(ctx):
    ctx.cov["trusted_base"] = BASE_TRUST + [
        "hand model of detect_fixed_format validated differentially on every run; regex translator + bounded agreement obligation",
        "paired-rendering oracle over the C04 program generator (harness/props/c14.py)",
    ]
    ctx.assumptions = [
        "partial: the fixed-form branches of get_code_line/strip_comment are exercised by the paired rendering only",
        "domain of the detection correspondence: code points below 256",
        "hypotheses of fixed_form_recognised: no comment line starts a type keyword (known finding C14:comment-starts-keyword), no statement ends in `&`, "
        "continuation marks are not letters; of indented_free_form_never_fixed: some statement indented by 1..4 blanks (known finding C14:unindented-free-as-fixed)",
    ]
    ctx.cov["rule"] = ("generated programs (C04 generator, labelled DO incl. shared terminal labels) printed in fixed and free form with the same comment "
                       "lines, blank lines, continuation cuts and inline comments; detection inputs: printed programs, mutated ones, preprocessor "
                       "continuations, small-alphabet strings, keyword probes; non-trivial = has a label or a continuation / more than one line")
    ctx.proof_obligations(search=lambda: search_failing(ctx))
    from .. import regexfid
    regexfid.run(ctx, 25 if ctx.quick() else 600)
    q = ctx.quick()
    known(ctx)
    theorem_instances(ctx)
    check_gather(ctx, 300 if q else 6000)
    check_detection(ctx, 1500 if q else 30000)
    check_pairs(ctx, 40 if q else 1000)
    check_directed_twins(ctx)


def replay(ctx, path):
    with open(path) as f:
        doc = json.load(f)
    inp = doc["input"]
    from fortls.helper_functions import detect_fixed_format
    if "lines" in inp:
        print("detect_fixed_format:", detect_fixed_format(inp["lines"]))
    else:
        print("fixed:", c13.dump(inp["fixed"], ".f"))
        print("free:", c13.dump(inp["free"], ".f90"))
    shutil.rmtree(ctx.workdir, ignore_errors=True)
    return 0
