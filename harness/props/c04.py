"""C04 -- outline and workspace symbols mirror the program's block structure.

Obligations: C04/Props.v.  Correspondence: for generated program trees, the scope objects the
implementation builds for the rendered text equal C04.Model.recss of the tree (the object of
theorem outline_of_render), documentSymbol equals C04.Model.doc_symbols, workspace/symbol
equals the sorted filter.  Oracle: the generator's ground truth (units, procedures, types,
named interfaces: once each, kind, container, opening and END lines).
"""
from __future__ import annotations

import json
import os
import shutil
import tempfile

from .. import impl, scopetrace
from ..common import BASE_TRUST, clist, cnat, cstr

IMPORTS = ("From Coq Require Import String.\nFrom FV Require Import Base.Str Shared.ScopeMachine C03.Model C04.Model C04.WsSymbols.\n"
           "Definition sym_eqb (a : symbol) (e : str * nat * nat * nat * option str) : bool :=\n"
           "  let '(n, k, sl, el, c) := e in str_eqb (y_name a) n && (y_kind a =? k) && (y_sline a =? sl) && (y_eline a =? el) &&\n"
           "  match y_container a, c with None, None => true | Some x, Some y => str_eqb x y | _, _ => false end.\n"
           "Fixpoint syms_eqb (a : list symbol) (b : list (str * nat * nat * nat * option str)) : bool :=\n"
           "  match a, b with [], [] => true | x :: a', y :: b' => sym_eqb x y && syms_eqb a' b' | _, _ => false end.\n")

SAFE = ["alpha", "beta", "gam", "delta", "eps", "zeta", "eta", "theta", "kap", "lam", "mu", "nu", "xi", "rho", "sig", "tau", "phi", "chi", "psi", "om"]
KWPREF = ["blocksize", "do_x", "endif_v", "type_a", "if_cond", "where_v", "selector", "interface_x", "module_v", "enddo", "contains_x",
          "function_f", "program_p", "critical_v", "associate_a", "end_v", "use_it", "implicit_v", "data_blk"]


class Gen:
    def __init__(self, rng, keyword_names=False):
        self.rng = rng
        self.pool = KWPREF if keyword_names else SAFE
        self.n = 0
        self.counters = {"do": 0, "if": 0, "block": 0}

    def name(self, pre=""):
        self.n += 1
        return "%s%s%d" % (pre, self.rng.choice(self.pool), self.n)

    # a node: dict(kind, name, open (text), end (text), bare, ends, body)
    def leaf(self, text, tok):
        return {"leaf": tok, "text": text}

    def decl(self):
        r = self.rng
        return self.leaf("%s :: %s" % (r.choice(["integer", "real(8)", "logical", "character(len=10)", "integer, dimension(3)"]), self.name("v_")), "LVar false")

    def exec_stmt(self):
        r = self.rng
        if self.pool is KWPREF and r.random() < 0.5:
            # statements that *start* with a keyword-prefixed identifier
            return self.leaf(r.choice(["blocksize(1) = 3", "do_x = 1", "endif_v = 2", "type_a = 1", "where_v(1) = 2", "if_cond = 3", "selector = 1",
                                       "interface_x = 1", "module_v = 2", "enddo = 1", "contains_x = 1", "function_f = 2", "program_p = 1",
                                       "critical_v = 1", "associate_a = 1", "use_it = 1", "implicit_v = 1", "data_blk = 1", "call blocksize(x)",
                                       "blocksize = blocksize + 1", "print *, blocksize",
                                       # variables named exactly like a construct keyword (element or component assignments)
                                       "block(1) = 3", "block = 3", "where(1) = 3", "associate(1) = 2", "block%x = 1", "where(2)%w = 1"]), "LPlain")
        v = r.choice(["x", "y", "arr(1)"])
        return self.leaf(r.choice(["%s = %s + 1" % (v, v), "call ext_sub(%s)" % v, "print *, %s" % v, "continue", "%s=2" % v]), "LPlain")

    def construct(self, depth):
        r = self.rng
        kind = r.choice(["do", "if", "block", "associate", "where", "critical", "named_do", "named_block", "label_do", "label_do"])
        if kind == "label_do":
            # DO <label> closed by a labelled END DO or a labelled CONTINUE; labels are re-used by later loops of the same procedure
            self.counters["do"] += 1
            lab = r.choice(["10", "20"])
            return {"kind": "KDo", "name": "#DO%d" % self.counters["do"], "open": "do %s i = 1, 3" % lab, "end": r.choice(["%s end do", "%s continue", "%s   enddo"]) % lab,
                    "bare": False, "ends": ["ERDo"], "body": [self.exec_stmt() for _ in range(r.choice([0, 1]))]}
        # counters advance in order of appearance: the construct is numbered before its body
        if kind in ("do", "named_do"):
            self.counters["do"] += 1
            nm = "#DO%d" % self.counters["do"]
            label = (self.name("l_") + ": ") if kind == "named_do" else ""
            endw = r.choice(["end do", "enddo", "END DO", "End  Do"]) + ((" " + label[:-2]) if label else "")
            return {"kind": "KDo", "name": nm, "open": "%sdo i = 1, 3" % label, "end": endw, "bare": False, "ends": ["ERDo"], "body": self.exec_body(depth + 1)}
        if kind == "if":
            self.counters["if"] += 1
            nm = "#IF%d" % self.counters["if"]
            return {"kind": "KIf", "name": nm, "open": "if (x > 0) then", "end": r.choice(["end if", "endif", "END IF"]),
                    "bare": False, "ends": ["ERIf"], "body": self.exec_body(depth + 1)}
        if kind == "block":
            self.counters["block"] += 1
            nm = "#BLOCK%d" % self.counters["block"]
            return {"kind": "KBlock", "name": nm, "open": r.choice(["block", "BLOCK", " block "]), "end": r.choice(["end block", "endblock"]),
                    "bare": False, "ends": ["ERBlock"], "body": [self.decl()] + self.exec_body(depth + 1)}
        if kind == "named_block":
            nm = self.name("b_")
            return {"kind": "KBlock", "name": nm, "open": "%s: block" % nm, "end": "end block %s" % nm, "bare": False, "ends": ["ERBlock"],
                    "body": self.exec_body(depth + 1)}
        if kind == "critical":
            self.counters["block"] += 1
            nm = "#BLOCK%d" % self.counters["block"]
            return {"kind": "KBlock", "name": nm, "open": "critical", "end": "end critical", "bare": False, "ends": ["ERBlock"], "body": self.exec_body(depth + 1)}
        if kind == "associate":
            self.counters["block"] += 1
            nm = "#ASSOC%d" % self.counters["block"]
            return {"kind": "KAssoc", "name": nm, "open": "associate (zz => x)", "end": r.choice(["end associate", "endassociate"]),
                    "bare": False, "ends": ["ERAssoc"], "body": self.exec_body(depth + 1)}
        self.counters["do"] += 1
        return {"kind": "KWhere", "name": "#WHERE%d" % self.counters["do"], "open": "where (arr > 0)", "end": r.choice(["end where", "endwhere"]),
                "bare": False, "ends": ["ERWhere"], "body": [self.leaf("arr = 1", "LPlain")]}

    def exec_body(self, depth):
        r = self.rng
        out = []
        for _ in range(r.choice([0, 1, 1, 2])):
            out.append(self.construct(depth) if (depth < 3 and r.random() < 0.4) else self.exec_stmt())
        return out

    def proc(self, depth, in_interface=False):
        r = self.rng
        is_fun = r.random() < 0.4
        nm = self.name("f_" if is_fun else "s_")
        body = [self.leaf("integer :: x, y, i, arr(3)", "LVar false")]
        if not in_interface:
            for _ in range(r.choice([0, 1, 2])):
                body.append(self.decl())
            body += self.exec_body(depth + 1)
            if depth < 2 and r.random() < 0.3:
                body.append(self.leaf("contains", "LPlain"))
                for _ in range(r.choice([1, 2])):
                    body.append(self.proc(depth + 1))
        bare = r.random() < 0.15
        word = "function" if is_fun else "subroutine"
        endw = "end" if bare else r.choice(["end %s" % word, "end %s %s" % (word, nm), "END %s" % word.upper(), "end%s" % word])
        return {"kind": "KFun" if is_fun else "KSub", "name": nm, "open": "%s %s(%s)" % (word, nm, "x" if r.random() < 0.7 else ""),
                "end": endw, "bare": bare, "ends": [] if bare else ["ERFun" if is_fun else "ERSub"], "body": body, "sym": "proc"}

    def typ(self):
        r = self.rng
        nm = self.name("t_")
        body = []
        members = []
        for _ in range(r.choice([0, 1, 2, 3])):
            d = self.decl()
            members.append((d["text"].split("::")[1].strip(), 13))
            body.append(d)
        if r.random() < 0.5:
            body.append(self.leaf("contains", "LPlain"))
            for _ in range(r.choice([1, 2])):
                b = self.name("bnd_")
                members.append((b, 6))
                body.append(self.leaf("procedure :: %s => impl_%s" % (b, b), "LVar true"))
        return {"kind": "KType", "name": nm, "open": r.choice(["type :: %s", "type %s", "TYPE, public :: %s"]) % nm,
                "end": r.choice(["end type", "end type %s" % nm, "endtype"]), "bare": False, "ends": ["ERType"], "body": body, "sym": "type", "members": members}

    def interface(self):
        r = self.rng
        style = r.choice(["named", "abstract", "unnamed", "generic_spec"])
        body = [self.proc(2, in_interface=True) for _ in range(r.choice([1, 2]))]
        if style == "named":
            nm = self.name("gi_")
            return {"kind": "KInt", "name": nm, "open": "interface %s" % nm, "end": r.choice(["end interface", "end interface %s" % nm]), "bare": False,
                    "ends": ["ERInt"], "body": body, "sym": "interface"}
        self.gen_int = getattr(self, "gen_int", 0) + 1
        if style == "generic_spec":
            # an interface for an operator or assignment: not a named interface; its END may repeat the generic spec
            spec = r.choice(["operator(.dot.)", "operator(+)", "assignment(=)", "operator( == )"])
            return {"kind": "KInt", "name": "#GEN_INT%d" % self.gen_int, "open": "interface %s" % spec,
                    "end": r.choice(["end interface", "end interface %s" % spec, "END INTERFACE %s" % spec.upper()]), "bare": False, "ends": ["ERInt"], "body": body, "sym": None}
        return {"kind": "KInt", "name": "#GEN_INT%d" % self.gen_int, "open": "abstract interface" if style == "abstract" else "interface",
                "end": "end interface", "bare": False, "ends": ["ERInt"], "body": body, "sym": None}

    def unit(self):
        r = self.rng
        kind = r.choice(["module", "module", "program", "sub", "fun"])
        if kind in ("sub", "fun"):
            p = self.proc(0)
            p["sym"] = "proc"
            return p
        nm = self.name("m_" if kind == "module" else "p_")
        body = [self.leaf("implicit none", "LPlain")]
        for _ in range(r.choice([0, 1, 2])):
            body.append(self.decl())
        types_here = []
        for _ in range(r.choice([0, 1, 2])):
            item = r.choice([self.typ, self.interface])()
            if item.get("sym") == "type":
                types_here.append(item["name"])
            elif item.get("sym") == "interface" and types_here and r.random() < 0.5:
                # a generic interface with the name of a derived type of the same unit (a user-defined constructor)
                tn = types_here[-1]
                item["open"] = "interface %s" % tn
                item["end"] = "end interface %s" % tn if "end interface " in item["end"] else item["end"]
                item["name"] = tn
            body.append(item)
        if kind == "program":
            body.append(self.leaf("integer :: x, y, i, arr(3)", "LVar false"))
            body += self.exec_body(1)
        if r.random() < 0.7:
            body.append(self.leaf("contains", "LPlain"))
            for _ in range(r.choice([1, 2, 3])):
                body.append(self.proc(1))
        bare = r.random() < 0.1
        endw = "end" if bare else r.choice(["end %s" % kind, "end %s %s" % (kind, nm), "END %s" % kind.upper()])
        return {"kind": "KMod" if kind == "module" else "KProg", "name": nm, "open": "%s %s" % (kind, nm), "end": endw, "bare": bare,
                "ends": [] if bare else ["ERMod" if kind == "module" else "ERProg"], "body": body, "sym": "unit"}


def render_text(nodes, rng, out, indent=0):
    for nd in nodes:
        pad = " " * (rng.choice([0, 1, 2, 4]) if rng else indent)
        if "leaf" in nd:
            out.append(pad + nd["text"])
        else:
            nd["sline"] = len(out) + 1
            out.append(pad + nd["open"])
            render_text(nd["body"], rng, out, indent + 2)
            nd["eline"] = len(out) + 1
            out.append(pad + nd["end"])


def coq_tree(nd):
    if "leaf" in nd:
        return "(Leaf %s)" % ("(%s)" % nd["leaf"] if " " in nd["leaf"] else nd["leaf"])
    return "(Node %s %s %s %s %s)" % (nd["kind"], cstr(nd["name"]), "true" if nd["bare"] else "false", clist(nd["ends"]), clist(nd["body"], coq_tree))


SYM_KIND = {"KMod": 2, "KProg": 2, "KSub": 12, "KFun": 12, "KType": 5, "KInt": 11}


def expected_symbols(units):
    """ground truth of the statement: (name, kind, sline-1, eline-1, container) for units and their direct procedures/types/named interfaces"""
    out = []
    for u in units:
        out.append((u["name"], SYM_KIND[u["kind"]], u["sline"] - 1, u["eline"] - 1, None))
        for c in u["body"]:
            if "leaf" not in c and c.get("sym") in ("proc", "type", "interface"):
                out.append((c["name"], SYM_KIND[c["kind"]], c["sline"] - 1, c["eline"] - 1, u["name"].lower()))
    return out


def check_programs(ctx, n, keyword_names):
    coq = ctx.coq(IMPORTS)
    root = tempfile.mkdtemp(prefix="verif_c04_")
    exprs = []
    meta = []
    try:
        srv, conn = impl.make_server(root, extra=["--nthreads", "1", "--symbol_skip_mem"])
        srv_mem, conn_mem = impl.make_server(root, extra=["--nthreads", "1"])
        for k in range(n):
            g = Gen(ctx.rng, keyword_names)
            units = [g.unit() for _ in range(ctx.rng.choice([1, 1, 2, 3]))]
            lines = []
            render_text(units, ctx.rng, lines)
            text = "\n".join(lines) + "\n"
            case_text = text if ctx.rng.random() < 0.6 else "".join(c.upper() if ctx.rng.random() < 0.5 else c for c in text)
            # scope objects (through the recording wrappers) against recss of the tree
            toks, recs, errs, last, err = scopetrace.parse_recorded(text, os.path.join(root, "p%d.f90" % k))
            path = os.path.join(root, "p%d.f90" % k)
            with open(path, "w") as f:
                f.write(text)
            impl.did_open(srv, path)
            resp, _ = impl.request(srv, conn, "textDocument/documentSymbol", {"textDocument": {"uri": impl.uri(path)}})
            impl.did_open(srv_mem, path)
            resp_mem, _ = impl.request(srv_mem, conn_mem, "textDocument/documentSymbol", {"textDocument": {"uri": impl.uri(path)}})
            inp = {"text": text}
            ctx.count(("prog", keyword_names, text), len(lines) > 8, sample={"text": text[:600]})
            if err is not None or recs is None or resp is None or resp[0] != "r":
                ctx.report("C04:no-outline", "no outline for a generated program", {"kind": "counterexample", "input": inp, "implementation": repr(err or resp)[:300]})
                continue
            got = [(s["name"], s["kind"], s["location"]["range"]["start"]["line"], s["location"]["range"]["end"]["line"], s.get("containerName")) for s in resp[2]]
            want = expected_symbols(units)
            missing = [w for w in want if got.count(w) != 1]
            stray = [g_ for g_ in got if g_ not in want and not g_[0].lower().startswith(("b_",)) and g_[1] != 11]
            # members of types under their type
            mem_ok = True
            memdetail = None
            if resp_mem and resp_mem[0] == "r":
                allmem = [(s["name"], s["kind"], s.get("containerName")) for s in resp_mem[2]]
                for u in units:
                    for c in u["body"]:
                        if "leaf" not in c and c.get("sym") == "type":
                            for mn, mk in c["members"]:
                                if allmem.count((mn, mk, c["name"])) != 1:
                                    mem_ok = False; memdetail = (mn, mk, c["name"])
            if missing or stray or not mem_ok:
                ctx.report("C04:outline", "the outline differs from the program's block structure",
                           {"kind": "counterexample", "input": inp, "implementation": got, "oracle": want, "missing_or_duplicated": missing,
                            "stray": stray, "member_problem": memdetail, "keyword_prefixed_names": keyword_names})
                continue
            trees = clist(units, coq_tree)
            e1 = "scopes_eqb (recss 0 None 1 %s) %s" % (trees, scopetrace.coq_scopes(recs))
            e2 = "syms_eqb (doc_symbols (recss 0 None 1 %s)) %s" % (trees, clist(got, lambda s: "(%s, %s, %s, %s, %s)" % (
                cstr(s[0]), cnat(s[1]), cnat(s[2]), cnat(s[3]), "None" if s[4] is None else "(Some %s)" % cstr(s[4]))))
            e3 = "wfs %s && forallb top_ok %s" % (trees, trees)
            exprs.append("(%s) && (%s) && (%s)" % (e1, e2, e3))
            meta.append(inp)
            # workspace symbols on this document's names
            impl.did_close(srv, path); impl.did_close(srv_mem, path)
            if k in (40, 110):
                ws_check(ctx, srv, conn, coq, model=True)      # model comparison while the literal stays small
                ws_rename_check(ctx, srv, conn, root)
                check_directed_outlines(ctx, srv, conn, root)
        ws_check(ctx, srv, conn, coq, model=False)
    finally:
        shutil.rmtree(root, ignore_errors=True)
    bad = coq.bools(exprs, shard=40)
    ctx.cov["traces_validated_against_impl"] += len(exprs)
    for b in bad[:5]:
        ctx.report("C04:model-impl-mismatch", "scope objects / documentSymbol differ from C04.Model (recss, doc_symbols) on a generated tree",
                   {"kind": "broken-correspondence", "input": meta[b], "correspondence": "FV.C04.Model.recss / doc_symbols vs FortranFile.parse / serve_document_symbols"},
                   found_input=False)


DIRECTED_OUTLINES = [
    # (text, expected (name, kind, first line, last line, container)) -- shapes the random generator reaches only now and then
    ("module shapes\n implicit none\n type :: circle\n  real :: r\n end type circle\n interface circle\n  module procedure new_circle\n end interface circle\ncontains\n"
     " function new_circle(r) result(c)\n  real :: r\n  type(circle) :: c\n end function new_circle\nend module shapes\n",
     [("shapes", 2, 0, 13, None), ("circle", 5, 2, 4, "shapes"), ("circle", 11, 5, 7, "shapes"), ("new_circle", 12, 9, 12, "shapes")]),
    ("module shapes2\n implicit none\n interface square\n  module procedure new_square\n end interface square\n type :: square\n  real :: a\n end type square\ncontains\n"
     " function new_square(a) result(c)\n  real :: a\n  type(square) :: c\n end function new_square\nend module shapes2\n",
     [("shapes2", 2, 0, 13, None), ("square", 11, 2, 4, "shapes2"), ("square", 5, 5, 7, "shapes2"), ("new_square", 12, 9, 12, "shapes2")]),
    ("subroutine twice()\nend subroutine twice\nmodule holder\ncontains\n subroutine twice()\n end subroutine twice\nend module holder\n",
     [("twice", 12, 0, 1, None), ("holder", 2, 2, 6, None), ("twice", 12, 4, 5, "holder")]),
]


def check_directed_outlines(ctx, srv, conn, root):
    for k, (text, want) in enumerate(DIRECTED_OUTLINES):
        path = os.path.join(root, "directed%d.f90" % k)
        with open(path, "w") as f:
            f.write(text)
        impl.did_open(srv, path)
        resp, _ = impl.request(srv, conn, "textDocument/documentSymbol", {"textDocument": {"uri": impl.uri(path)}})
        got = [(s["name"], s["kind"], s["location"]["range"]["start"]["line"], s["location"]["range"]["end"]["line"], s.get("containerName")) for s in resp[2]] \
            if resp and resp[0] == "r" and resp[2] is not None else None
        ctx.count(("directed-outline", k), True)
        if got is None or sorted(got, key=repr) != sorted(want, key=repr):
            ctx.report("C04:outline", "the outline of a hand-written program differs from its block structure",
                       {"kind": "counterexample", "input": {"text": text}, "implementation": got, "oracle": want})
        impl.did_close(srv, path)
        os.remove(path)


def ws_rename_check(ctx, srv, conn, root):
    """workspace/symbol after a document was re-parsed with a top-level unit renamed and another one removed: the index holds the
    units of the current text only"""
    path = os.path.join(root, "ws_ren.f90")
    old_text = "module ws_ren_old\n integer :: ws_ren_var\ncontains\n subroutine ws_ren_inner()\n end subroutine ws_ren_inner\nend module ws_ren_old\nsubroutine ws_ren_ext()\nend subroutine ws_ren_ext\n"
    new_text = old_text.replace("ws_ren_old", "ws_ren_new").split("subroutine ws_ren_ext")[0]
    with open(path, "w") as f:
        f.write(old_text)
    impl.did_open(srv, path)

    def names():
        r, _ = impl.request(srv, conn, "workspace/symbol", {"query": "ws_ren_"})
        return sorted((x["name"], x.get("containerName") or "") for x in (r[2] or [])) if r and r[0] == "r" else None
    before = names()
    impl.did_change(srv, path, [{"range": {"start": {"line": 0, "character": 0}, "end": {"line": 9, "character": 0}}, "text": new_text}])
    after = names()
    want_before = [("ws_ren_ext", ""), ("ws_ren_inner", "ws_ren_old"), ("ws_ren_old", ""), ("ws_ren_var", "ws_ren_old")]
    want_after = [("ws_ren_inner", "ws_ren_new"), ("ws_ren_new", ""), ("ws_ren_var", "ws_ren_new")]
    ctx.count(("ws-rename",), True)
    if before != want_before or after != want_after:
        ctx.report("C04:workspace-symbol-after-edit", "workspace/symbol does not list exactly the units and members of the current text after a unit was renamed and one removed",
                   {"kind": "counterexample", "input": {"text": old_text, "changed_to": new_text, "query": "ws_ren_"}, "implementation": {"before": before, "after": after},
                    "oracle": {"before": want_before, "after": want_after}})
    # the file is deleted and the document closed: the same query, and a longer one, must not list its units any more
    os.remove(path)
    impl.did_close(srv, path)
    gone = names()
    r, _ = impl.request(srv, conn, "workspace/symbol", {"query": "ws_ren_i"})
    gone2 = [x["name"] for x in (r[2] or [])] if r and r[0] == "r" else None
    ctx.count(("ws-deleted",), True)
    if gone != [] or gone2 != []:
        ctx.report("C04:workspace-symbol-after-delete", "workspace/symbol still lists the units of a file that was deleted and closed",
                   {"kind": "counterexample", "input": {"text": new_text, "query": ["ws_ren_", "ws_ren_i"], "history": "didOpen, query, didChange, query, delete file, didClose, query"},
                    "implementation": {"same_query": gone, "longer_query": gone2}, "oracle": []})


def ws_check(ctx, srv, conn, coq, model):
    """workspace/symbol on the documents opened so far: equals the stable sort by name of the
    case-insensitive substring filter over top-level units and module members"""
    resp_all, _ = impl.request(srv, conn, "workspace/symbol", {"query": ""})
    if not resp_all or resp_all[0] != "r":
        return
    universe = [(s["name"], s.get("containerName") or "") for s in resp_all[2]]
    queries = ["", "a", "s_", "T_", "ALPHA", "zz_none", "1", "m_", "_"] + [ctx.rng.choice(universe)[0][:ctx.rng.randrange(1, 5)] for _ in range(8) if universe]
    # candidate order = obj_tree order: recover it from the query "" answer is impossible (sorted); compare as sorted multiset
    for q in queries:
        resp, _ = impl.request(srv, conn, "workspace/symbol", {"query": q})
        got = [(s["name"], s.get("containerName") or "") for s in resp[2]] if resp and resp[0] == "r" else None
        want = sorted([u for u in universe if q.lower() in u[0].lower()], key=lambda u: u[0])
        ctx.count(("ws", q, len(universe)), True)
        if got is None or sorted(got) != sorted(want) or [g[0] for g in got] != sorted(g[0] for g in got):
            ctx.report("C04:workspace-symbol", "workspace/symbol is not the name-sorted filter of the indexed units and module members",
                       {"kind": "counterexample", "input": {"query": q, "universe": universe[:60]}, "implementation": got, "oracle": want})
    # the sort/filter model on the same data (a universe of thousands of names makes the Coq literal
    # cost gigabytes: the model is evaluated on the early, smaller universes; the oracle above on all)
    if not model and len(universe) > 600:
        return
    exprs = []
    for q in queries[:8]:
        resp, _ = impl.request(srv, conn, "workspace/symbol", {"query": q})
        got = [s["name"] for s in resp[2]]
        cands = clist(list(enumerate(universe)), lambda iu: "(CA %s %s)" % (cstr(iu[1][0]), cnat(iu[0])))
        exprs.append("list_eqb str_eqb (map c_name (ws_symbols %s %s)) %s" % (cands, cstr(q), clist(got, cstr)))
    bad = coq.bools(exprs, shard=10)
    for b in bad[:2]:
        ctx.report("C04:ws-model-mismatch", "workspace/symbol differs from C04.WsSymbols.ws_symbols",
                   {"kind": "broken-correspondence", "input": {"query": queries[b]}, "correspondence": "FV.C04.WsSymbols.ws_symbols"}, found_input=False)


def search_failing(ctx):
    return None


def run(ctx):
    ctx.cov["trusted_base"] = BASE_TRUST + [
        "Shared/ScopeMachine.v trace-validated against FortranFile.parse (C03) and, here, end to end: scope objects of the rendered text = recss of the tree",
        "regex translator + engine fidelity for the END patterns (bounded END-recognition example)",
        "generator ground truth (harness/props/c04.py) as oracle",
    ]
    ctx.assumptions = [
        "the proved fragment: constructs opened by one statement and closed by their own END word or a bare END (no SELECT regions, labelled DO, "
        "GENERIC, MODULE PROCEDURE); those are covered by the trace validation of C03 only",
        "the outline filter (doc_symbols) and workspace/symbol are hand models checked by differential execution",
    ]
    ctx.cov["rule"] = ("generated files of 1-3 program units (modules with types incl. components/bindings, named/abstract/unnamed interfaces with bodies, "
                       "CONTAINS nesting to depth 2, programs, external procedures) with DO/IF/BLOCK/ASSOCIATE/WHERE/CRITICAL nests, random "
                       "indentation, END spellings, bare END, letter case; second stream with keyword-prefixed identifiers; non-trivial = more than 8 lines")
    ctx.proof_obligations(search=lambda: search_failing(ctx))
    from .. import regexfid
    regexfid.run(ctx, 60 if ctx.quick() else 1500, only={"END_WORD", "END_MOD", "END_SUB", "END_FUN", "END_DO", "END_IF", "END_BLOCK", "END_TYPED",
                                                         "END_INT", "END_PROG", "END_SMOD", "END_WHERE", "END_ASSOCIATE", "END_SELECT", "END_ENUMD", "END_PRO", "BLOCK", "DO"})
    q = ctx.quick()
    check_programs(ctx, 120 if q else 3000, keyword_names=False)
    check_programs(ctx, 60 if q else 1500, keyword_names=True)


def replay(ctx, path):
    with open(path) as f:
        doc = json.load(f)
    text = doc["input"].get("text")
    if text is None:
        return 2
    toks, recs, errs, last, err = scopetrace.parse_recorded(text, "/nonexistent/r.f90")
    print("scopes:", recs, "errors:", errs, "exception:", err)
    shutil.rmtree(ctx.workdir, ignore_errors=True)
    return 0
