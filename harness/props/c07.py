"""C07 -- diagnostics: silent on valid programs, present on each documented defect.

Obligations: C07/Props.v (decision rules of check_definitions/check_use/check_valid_parent transcribed and characterised;
structural classes from the scope machine).  Trace validation: per scope, the transcribed rules against the
implementation's own check_* on the objects it parsed.  Oracle: generated valid programs publish no error; every defect
class seeded at a random admissible place publishes that class, with that severity, on the offending line, and no
unrelated error.
"""
from __future__ import annotations

import json
import os
import shutil
import tempfile

from .. import impl
from ..common import BASE_TRUST, clist, cnat, cstr

IMPORTS = "From Coq Require Import ZArith.\nFrom FV Require Import Base.Str Shared.ScopeMachine C07.Model."
GREEK = ["alpha", "beta", "gam", "delta", "eps", "zeta", "eta", "theta", "kap", "lam", "mu", "nu", "xi", "rho", "sig", "tau", "phi", "chi", "psi", "om"]
INTRINSIC_USES = ["use, intrinsic :: iso_fortran_env, only: int32, real64", "use iso_c_binding", "use, intrinsic :: iso_c_binding, only: c_int, c_double",
                  "use omp_lib", "use iso_fortran_env"]


class Prog:
    """a valid multi-unit program as nested scopes of (text, tag) statements"""

    def __init__(self, rng):
        self.r = rng
        self.n = 0
        self.units = []
        nmod = rng.choice([1, 2, 2, 3])
        self.mods = []
        for _ in range(nmod):
            self.mods.append(self.module())
        self.units = list(self.mods)
        if rng.random() < 0.7:
            self.units.append(self.program())

    def name(self, pre):
        self.n += 1
        return "%s_%s%d" % (pre, self.r.choice(GREEK), self.n)

    def decls(self, k, exclude=()):
        out = []
        for _ in range(k):
            nm = self.name("v")
            ty = self.r.choice(["integer", "real(8)", "logical", "character(len=8)", "integer, dimension(3)", "real, allocatable", "integer(int32)" if "int32" in exclude else "integer"])
            out.append({"text": "%s :: %s" % (ty, nm), "name": nm})
        return out

    def proc(self, depth, host_vars):
        r = self.r
        is_fun = r.random() < 0.35
        nm = self.name("f" if is_fun else "s")
        args = [self.name("a") for _ in range(r.choice([0, 1, 2, 3]))]
        sc = {"kind": "function" if is_fun else "subroutine", "name": nm, "args": args, "uses": [], "implicit": r.random() < 0.5,
              "decls": [], "types": [], "execs": [], "contains": [], "host_vars": list(host_vars)}
        if r.random() < 0.3:
            sc["uses"].append({"text": r.choice(INTRINSIC_USES)})
        for a in args:
            sc["decls"].append({"text": "%s, intent(%s) :: %s" % (r.choice(["integer", "real(8)"]), r.choice(["in", "inout", "out"]), a), "name": a})
        if is_fun:
            sc["decls"].append({"text": "integer :: %s" % nm, "name": nm, "result": True})
        sc["decls"] += self.decls(r.choice([0, 1, 2]))
        sc["execs"] = self.execs(sc, depth)
        if depth < 2 and r.random() < 0.25:
            for _ in range(r.choice([1, 2])):
                sc["contains"].append(self.proc(depth + 1, [d["name"] for d in sc["decls"]] + list(host_vars)))
        return sc

    def execs(self, sc, depth):
        r = self.r
        out = []
        names = [d["name"] for d in sc["decls"] if not d["text"].startswith(("character", "logical", "real, alloc"))] or ["i_tmp"]
        for _ in range(r.choice([0, 1, 2, 3])):
            v = r.choice(names)
            k = r.choice(["assign", "do", "if", "block", "call", "assoc", "print"])
            if k == "assign":
                out.append({"text": "%s = 1" % v if "dimension" not in v else "%s(1) = 1" % v})
            elif k == "do":
                out += [{"text": "do i_loop = 1, 3"}, {"text": "  print *, i_loop"}, {"text": r.choice(["end do", "enddo"])}]
            elif k == "if":
                out += [{"text": "if (1 > 0) then"}, {"text": "  continue"}, {"text": "else"}, {"text": "  continue"}, {"text": r.choice(["end if", "endif"])}]
            elif k == "block":
                if r.random() < 0.4:
                    tn = self.name("bt")
                    out += [{"text": "block"}, {"text": "  type :: %s" % tn}, {"text": "    integer :: k_in_block"}, {"text": "  end type %s" % tn},
                            {"text": "  type(%s) :: %s" % (tn, self.name("b"))}, {"text": "  continue"}, {"text": "end block"}]
                else:
                    out += [{"text": "block"}, {"text": "  integer :: %s" % self.name("b")}, {"text": "  continue"}, {"text": "end block"}]
            elif k == "call":
                out.append({"text": "call ext_proc(%s)" % v})
            elif k == "assoc":
                out += [{"text": "associate (zz_a => 1 + 2)"}, {"text": "  print *, zz_a"}, {"text": "end associate"}]
            else:
                out.append({"text": "print *, 'text with ! and end', %s" % v})
        return out

    def typ(self, parent=None, abstract=False, deferred=None):
        nm = self.name("t")
        head = "type"
        if abstract:
            head += ", abstract"
        if parent:
            head += ", extends(%s)" % parent
        body = self.decls(self.r.choice([0, 1, 2]))
        t = {"kind": "type", "name": nm, "open": "%s :: %s" % (head, nm), "members": body, "bound": []}
        return t

    def module(self):
        r = self.r
        nm = self.name("m")
        sc = {"kind": "module", "name": nm, "args": [], "uses": [], "implicit": True, "decls": [], "types": [], "execs": [], "contains": [], "host_vars": []}
        if self.mods and r.random() < 0.6:
            sc["uses"].append({"text": "use %s" % r.choice(self.mods)["name"]})
        if r.random() < 0.4:
            sc["uses"].append({"text": r.choice(INTRINSIC_USES)})
        if r.random() < 0.3:
            sc["decls"].append({"text": r.choice(["private", "public"]), "name": None})
        sc["decls"] += self.decls(r.choice([1, 2, 3]))
        for _ in range(r.choice([0, 1, 2])):
            sc["types"].append(self.typ())
        if r.random() < 0.3:
            pn = self.name("iface")
            sc["types"].append({"kind": "interface", "name": pn, "open": "interface", "lines": [
                "subroutine %s(q_arg)" % pn, "  integer, intent(in) :: q_arg", "end subroutine %s" % pn]})
        for _ in range(r.choice([0, 1, 2, 3])):
            sc["contains"].append(self.proc(1, [d["name"] for d in sc["decls"] if d["name"]]))
        # declarations whose type is a procedure interface: PROCEDURE(iface), POINTER :: p  -- valid in the specification part
        ifaces = [t for t in sc["types"] if t["kind"] == "interface"]
        subs = [c for c in sc["contains"] if c["kind"] == "subroutine" and not c["args"]]
        if r.random() < 0.6 and (ifaces or subs):
            tgt = r.choice(ifaces)["name"] if ifaces and (not subs or r.random() < 0.5) else r.choice(subs)["name"]
            sc["decls"].append({"text": "procedure(%s), pointer :: %s => null()" % (tgt, self.name("pp")), "name": None})
        # an entity of a type of this module, and an interface body that imports that type
        tys = [t for t in sc["types"] if t["kind"] == "type"]
        if tys and r.random() < 0.5:
            t = r.choice(tys)
            sc["decls_after_types"] = [{"text": "type(%s) :: %s" % (t["name"], self.name("o")), "name": None}]
            bn = self.name("ib")
            sc["types"].append({"kind": "interface", "name": bn, "open": "interface", "host_type": t["name"], "lines": [
                "subroutine %s(q_obj)" % bn, "  import :: %s" % t["name"], "  type(%s), intent(in) :: q_obj" % t["name"], "end subroutine %s" % bn]})
        return sc

    def program(self):
        r = self.r
        nm = self.name("p")
        sc = {"kind": "program", "name": nm, "args": [], "uses": [], "implicit": True, "decls": [], "types": [], "execs": [], "contains": [], "host_vars": []}
        for m in r.sample(self.mods, r.choice([0, 1, min(2, len(self.mods))])):
            sc["uses"].append({"text": "use %s" % m["name"]})
        sc["decls"] += self.decls(r.choice([1, 2]))
        sc["decls"].append({"text": "integer :: i_loop", "name": "i_loop"})
        sc["execs"] = self.execs(sc, 0)
        for _ in range(r.choice([0, 1, 2])):
            sc["contains"].append(self.proc(1, [d["name"] for d in sc["decls"] if d["name"]]))
        return sc

    def scopes(self):
        out = []

        def walk(sc, parent):
            out.append((sc, parent))
            for c in sc["contains"]:
                walk(c, sc)
        for u in self.units:
            walk(u, None)
        return out


def render(prog, pre=(), post=()):
    """-> (lines, tags) ; tags: {tag: line index}"""
    lines, tags = [], {}

    def emit(st, ind):
        if "tag" in st:
            tags[st["tag"]] = len(lines)
        lines.append(" " * ind + st["text"])

    def scope(sc, ind):
        args = "(%s)" % ", ".join(sc["args"]) if sc["kind"] in ("subroutine", "function") else ""
        emit({"text": "%s %s%s" % (sc["kind"], sc["name"], args), **({"tag": sc["open_tag"]} if "open_tag" in sc else {})}, ind)
        for u in sc["uses"]:
            emit(u, ind + 2)
        if sc["implicit"]:
            emit({"text": "implicit none", **({"tag": sc["implicit_tag"]} if "implicit_tag" in sc else {})}, ind + 2)
        needs_loop = any("i_loop" in e["text"] for e in sc["execs"]) and not any(d.get("name") == "i_loop" for d in sc["decls"])
        for d in sc["decls"]:
            emit(d, ind + 2)
        if needs_loop:
            emit({"text": "integer :: i_loop"}, ind + 2)
        typedefs = [t for t in sc["types"] if t["kind"] == "type"]
        others = [t for t in sc["types"] if t["kind"] != "type"]
        for t in typedefs + [None] + others:
            if t is None:
                for d in sc.get("decls_after_types", []):
                    emit(d, ind + 2)
                continue
            emit({"text": t["open"], **({"tag": t["open_tag"]} if "open_tag" in t else {})}, ind + 2)
            if t["kind"] == "type":
                for m in t["members"]:
                    emit(m, ind + 4)
                if t["bound"]:
                    emit({"text": "contains"}, ind + 2)
                    for b in t["bound"]:
                        emit(b, ind + 4)
                for x in t.get("extra", []):
                    emit(x, ind + 4)
                emit({"text": "end type %s" % t["name"], **({"tag": t["end_tag"]} if "end_tag" in t else {})}, ind + 2)
            else:
                for l in t["lines"]:
                    emit(l if isinstance(l, dict) else {"text": l}, ind + 4)
                emit({"text": "end interface"}, ind + 2)
        for e in sc["execs"]:
            emit(e, ind + 2)
        for x in sc.get("before_contains", []):
            if "scope" in x:
                scope(x["scope"], ind + 2)
            else:
                emit(x, ind + 2)
        if sc["contains"] or sc.get("force_contains"):
            emit({"text": "contains"}, ind)
            for x in sc.get("after_contains", []):
                emit(x, ind)
            for c in sc["contains"]:
                scope(c, ind + 2)
        emit({"text": "end %s %s" % (sc["kind"], sc["name"])}, ind)

    for st in pre:
        emit(st, 0)
    for u in prog.units:
        scope(u, 0)
    for st in post:
        emit(st, 0)
    return lines, tags


# ---------------------------------------------------------------------------------------------------------------------
# defect classes: each returns (extra render args, expected (message prefix, severity, tag of the offending line)) or None
def _procs(prog):
    return [(sc, par) for (sc, par) in prog.scopes() if sc["kind"] in ("subroutine", "function")]


def seed_twice(prog, r):
    cands = [(sc, d) for (sc, _) in prog.scopes() for d in sc["decls"] if d.get("name") and not d.get("result")]
    if not cands:
        return None
    sc, d = r.choice(cands)
    i = sc["decls"].index(d)
    sc["decls"].insert(r.randrange(i + 1, len(sc["decls"]) + 1), {"text": "integer :: %s" % d["name"], "tag": "X", "name": None})
    return {}, ('Variable "%s" declared twice in scope' % d["name"], 1, "X")


def seed_mask(prog, r):
    cands = [(sc, par) for (sc, par) in _procs(prog) if par is not None and [h for h in sc["host_vars"] if h not in sc["args"] and h != "i_loop"]]
    if not cands:
        return None
    sc, par = r.choice(cands)
    h = r.choice([h for h in sc["host_vars"] if h not in sc["args"] and h != "i_loop"])
    sc["decls"].append({"text": "integer :: %s" % h, "tag": "X", "name": None})
    return {}, ('Variable "%s" masks variable in parent scope' % h, 2, "X")


def seed_open_block(prog, r):
    cands = [(sc, par) for (sc, par) in prog.scopes() if sc["kind"] != "module"]
    if not cands:
        return None
    sc, _ = r.choice(cands)
    k = r.randrange(len(sc["execs"]) + 1) if not any(e["text"].startswith((" ", "else", "end", "do", "if", "block", "assoc")) for e in sc["execs"]) else len(sc["execs"])
    opener = r.choice(["do i_loop = 1, 3", "if (1 > 0) then", "block", "associate (zz_b => 2)"])
    sc["execs"][k:k] = [{"text": opener, "tag": "X"}, {"text": "end", "tag": "E"}]
    return {}, ("Unexpected end of scope at line", 1, "X")


def seed_unknown_module(prog, r):
    sc, _ = r.choice(prog.scopes())
    sc["uses"].insert(r.randrange(len(sc["uses"]) + 1), {"text": "use zz_nowhere_mod", "tag": "X"})
    return {}, ('Module "zz_nowhere_mod" not found in project', 3, "X")


def seed_type_not_accessible(prog, r):
    # a type defined in one module, used in a unit that does not USE that module
    mods = [m for m in prog.mods if [t for t in m["types"] if t["kind"] == "type"]]
    if not mods:
        return None
    m = r.choice(mods)
    t = r.choice([t for t in m["types"] if t["kind"] == "type"])
    tops = [u for u in prog.units if u is not m and not any(m["name"] in x["text"] for x in u["uses"]) and prog.units.index(u) < prog.units.index(m) or
            (u is not m and u["kind"] == "program" and not u["uses"])]
    tops = [u for u in tops if not reaches(prog, u, m)]
    if not tops:
        return None
    u = r.choice(tops)
    u["decls"].append({"text": "type(%s) :: zz_obj" % t["name"], "tag": "X", "name": "zz_obj"})
    hidden = any(d["text"] == "private" for d in m["decls"])
    return {"variant": "-private" if hidden else ""}, ('Object "%s" not found in scope' % t["name"].lower(), 1, "X")


def seed_type_not_imported(prog, r):
    """an interface body uses a type of its host module without IMPORT; the host declares an entity of that type itself"""
    cands = [(sc, t) for (sc, _) in prog.scopes() if sc["kind"] == "module" for t in sc["types"] if t["kind"] == "type"]
    if not cands:
        return None
    sc, t = r.choice(cands)
    if r.random() < 0.7 and not sc.get("decls_after_types"):
        sc["decls_after_types"] = [{"text": "type(%s) :: zz_origin" % t["name"], "name": None}]
    sc["types"].append({"kind": "interface", "name": "zz_draw", "open": "interface", "lines": [
        "subroutine zz_draw(zz_p)", {"text": "  type(%s), intent(in) :: zz_p" % t["name"], "tag": "X"}, "end subroutine zz_draw"]})
    hidden = any(d["text"] == "private" for d in sc["decls"])
    return {"variant": "-private" if hidden else ""}, ('Object "%s" not imported in interface' % t["name"].lower(), 1, "X")


def reaches(prog, u, m):
    seen, todo = set(), [u]
    while todo:
        x = todo.pop()
        for us in x["uses"]:
            for mm in prog.mods:
                if us["text"].split()[-1] == mm["name"] and mm["name"] not in seen:
                    seen.add(mm["name"]); todo.append(mm)
    return m["name"] in seen


def seed_undeclared_dummy(prog, r):
    cands = [(sc, par) for (sc, par) in _procs(prog) if implicit_none(sc, par)]
    if not cands:
        return None
    sc, _ = r.choice(cands)
    sc["args"].insert(r.randrange(len(sc["args"]) + 1), "zz_undeclared")
    sc["open_tag"] = "X"
    return {}, ('No matching declaration found for argument "zz_undeclared"', 1, "X")


def implicit_none(sc, par):
    return sc["implicit"] or (par is not None and par["implicit"])


def seed_intent_not_arg(prog, r):
    cands = _procs(prog)
    if not cands:
        return None
    sc, _ = r.choice(cands)
    sc["decls"].append({"text": "integer, intent(in) :: zz_not_arg", "tag": "X", "name": "zz_not_arg"})
    return {}, ('Variable "zz_not_arg" with INTENT keyword not found in argument list', 1, "X")


def seed_second_contains(prog, r):
    cands = [(sc, par) for (sc, par) in prog.scopes() if sc["contains"]]
    if not cands:
        return None
    sc, _ = r.choice(cands)
    sc["after_contains"] = [{"text": r.choice(["contains", "CONTAINS", "  contains  "]), "tag": "X"}]
    return {}, ("Multiple CONTAINS statements in scope", 1, "X")


def seed_outside_scope(prog, r):
    word, msg = r.choice([("contains", "CONTAINS statement without enclosing scope"), ("implicit none", "IMPLICIT statement without enclosing scope"),
                          ("private", "Visibility statement without enclosing scope"), ("public", "Visibility statement without enclosing scope")])
    st = {"text": word, "tag": "X"}
    return ({"pre": [st]} if r.random() < 0.5 else {"post": [st]}), (msg, 1, "X")


def seed_import_outside(prog, r):
    cands = _procs(prog)
    if not cands:
        return None
    sc, _ = r.choice(cands)
    sc["uses"].append({"text": r.choice(["import", "import :: zz_x", "import, all"]), "tag": "X"})
    return {}, ("IMPORT statement outside of interface", 1, "X")


def seed_use_after_implicit(prog, r):
    cands = [(sc, par) for (sc, par) in prog.scopes() if sc["implicit"]]
    if not cands or not prog.mods:
        return None
    sc, _ = r.choice(cands)
    others = [m for m in prog.mods if m is not sc and not reaches(prog, m, sc) and prog.units.index(m) < (prog.units.index(sc) if sc in prog.units else 99)]
    target = r.choice(others)["name"] if others else "iso_c_binding"
    sc["implicit_tag"] = "X"
    sc["decls"].insert(0, {"text": "use %s" % target, "name": None})
    return {}, ("USE statements after IMPLICIT statement", 1, "X")


def seed_proc_before_contains(prog, r):
    cands = [(sc, par) for (sc, par) in prog.scopes() if sc["kind"] in ("module", "subroutine", "function")]
    sc, _ = r.choice(cands)
    p = {"kind": "subroutine", "name": "zz_early", "args": [], "uses": [], "implicit": False, "decls": [], "types": [], "execs": [{"text": "continue"}],
         "contains": [], "host_vars": [], "open_tag": "X"}
    sc["before_contains"] = [{"scope": p}]
    if r.random() < 0.5:
        sc["force_contains"] = True
    return {}, ("Subroutine/Function definition before CONTAINS statement", 1, "X")


def seed_proc_in_type_or_block(prog, r):
    where = r.choice(["type", "block"])
    if where == "type":
        cands = [(sc, t) for (sc, _) in prog.scopes() for t in sc["types"] if t["kind"] == "type"]
        if not cands:
            return None
        sc, t = r.choice(cands)
        t["extra"] = [{"text": "subroutine zz_inner()", "tag": "X"}, {"text": "end subroutine zz_inner"}]
        return {}, ('Invalid parent for "SUBROUTINE" declaration', 1, "X")
    cands = [(sc, par) for (sc, par) in prog.scopes() if sc["kind"] != "module"]
    if not cands:
        return None
    sc, _ = r.choice(cands)
    sc["execs"] += [{"text": "block"}, {"text": "function zz_inner()", "tag": "X"}, {"text": "end function zz_inner"}, {"text": "end block"}]
    return {}, ('Invalid parent for "FUNCTION" declaration', 1, "X")


def seed_deferred(prog, r):
    if not prog.mods:
        return None
    m = r.choice(prog.mods)
    base = "zz_abs_t"
    m["types"].append({"kind": "type", "name": base, "open": "type, abstract :: %s" % base, "members": [], "bound": [
        {"text": "procedure(zz_iface), deferred :: zz_run"}]})
    m["types"].append({"kind": "interface", "name": "zz_iface", "open": "abstract interface", "lines": [
        "subroutine zz_iface(self)", "  import :: %s" % base, "  class(%s), intent(inout) :: self" % base, "end subroutine zz_iface"]})
    m["types"].append({"kind": "type", "name": "zz_conc_t", "open": "type, extends(%s) :: zz_conc_t" % base, "members": [{"text": "integer :: zz_k", "name": "zz_k"}],
                       "bound": [], "end_tag": "X"})
    return {}, ('Deferred procedure "zz_run" not implemented', 1, "X")


def seed_long_line(prog, r):
    sc, _ = r.choice([(sc, par) for (sc, par) in prog.scopes() if sc["kind"] != "module"] or prog.scopes())
    long = "print *, " + ", ".join(["1"] * 60) if sc["kind"] != "module" else "integer :: zz_long_" + "x" * 140
    (sc["execs"] if sc["kind"] != "module" else sc["decls"]).append({"text": long, "tag": "X", "name": None})
    return {"server": ["--max_line_length", "132"]}, ('Line length exceeds "max_line_length" (132)', 2, "X")


CLASSES = [("declared-twice", seed_twice), ("masks-host", seed_mask), ("open-block-bare-end", seed_open_block), ("unknown-module", seed_unknown_module),
           ("type-not-accessible", seed_type_not_accessible), ("type-not-imported-in-interface", seed_type_not_imported), ("undeclared-dummy", seed_undeclared_dummy), ("intent-not-arg", seed_intent_not_arg),
           ("second-contains", seed_second_contains), ("outside-scope", seed_outside_scope), ("import-outside-interface", seed_import_outside),
           ("use-after-implicit", seed_use_after_implicit), ("proc-before-contains", seed_proc_before_contains),
           ("proc-in-type-or-block", seed_proc_in_type_or_block), ("deferred-not-implemented", seed_deferred), ("long-line", seed_long_line)]


def diagnostics_of(text, server_args=()):
    root = tempfile.mkdtemp(prefix="verif_c07_")
    try:
        path = os.path.join(root, "prog.f90")
        with open(path, "w") as f:
            f.write(text)
        srv, conn = impl.make_server(root, extra=["--nthreads", "1", *server_args])
        conn.take()
        impl.did_open(srv, path)
        out = []
        for o in conn.take():
            if o[0] == "n" and o[1] == "textDocument/publishDiagnostics":
                out = [(d["message"], d["severity"], d["range"]["start"]["line"]) for d in o[2]["diagnostics"]]
        return out
    finally:
        shutil.rmtree(root, ignore_errors=True)


VALID_CORPUS = [
    "module cb\n implicit none\n abstract interface\n  subroutine handler_iface(code)\n   integer, intent(in) :: code\n  end subroutine handler_iface\n end interface\n"
    " procedure(handler_iface), pointer :: on_error => null()\n procedure(square), pointer :: fp\ncontains\n real function square(x)\n  real, intent(in) :: x\n  square = x*x\n end function square\n"
    " subroutine apply(f, g)\n  procedure(square) :: f\n  procedure(handler_iface) :: g\n  print *, f(2.0)\n  call g(1)\n end subroutine apply\nend module cb\n",
    "module shp\n implicit none\n integer, parameter :: wp = kind(1.0d0)\n type :: point\n  real(wp) :: x, y\n end type point\n type(point) :: origin\n interface\n  subroutine draw(p, scale)\n"
    "   import :: point, wp\n   type(point), intent(in) :: p\n   real(wp), intent(in) :: scale\n  end subroutine draw\n end interface\nend module shp\n",
    "program p\n implicit none\n integer :: x\n block\n  type :: t\n   integer :: a\n  end type t\n  type(t) :: v\n  v%a = 1\n end block\nend program p\n",
    "module m\n implicit none\ncontains\n subroutine s()\n  block\n   use iso_fortran_env\n   integer(int32) :: k\n   k = 1\n  end block\n end subroutine\nend module m\n",
    "module m\n implicit none\n enum, bind(c)\n enumerator :: a=1, b\n end enum\n interface operator(+)\n module procedure addx\n end interface\ncontains\n"
    " function addx(p,q) result(r)\n integer, intent(in) :: p\n logical, intent(in) :: q\n integer :: r\n r = p\n end function\nend module m\n",
    "module m\n implicit none\n type :: t\n  integer :: n\n contains\n  procedure :: get\n  generic :: g => get\n  final :: done\n end type\ncontains\n"
    " integer function get(self)\n  class(t), intent(in) :: self\n  get = self%n\n end function\n subroutine done(self)\n  type(t), intent(inout) :: self\n end subroutine\n"
    " pure elemental real(8) function sq(x) result(y)\n  real(8), intent(in) :: x\n  y = x*x\n end function sq\n recursive subroutine rr(n)\n  integer, value :: n\n"
    "  if (n > 0) call rr(n-1)\n end subroutine rr\nend module m\n",
    "module m\n use, intrinsic :: iso_c_binding, only: c_int, c_ptr\n use omp_lib\n use, intrinsic :: ieee_arithmetic\n implicit none\n integer(c_int) :: n\n type(c_ptr) :: p\n"
    " integer(omp_lock_kind) :: lk\ncontains\n subroutine s()\n  n = omp_get_thread_num()\n end subroutine\nend module m\n",
    "module shapes\n implicit none\n type, abstract :: shape\n contains\n  procedure(area_if), deferred :: area\n end type\n abstract interface\n  real function area_if(self)\n"
    "   import :: shape\n   class(shape), intent(in) :: self\n  end function\n end interface\n type, extends(shape) :: sq\n  real :: a\n contains\n  procedure :: area => sq_area\n end type\n"
    "contains\n real function sq_area(self)\n  class(sq), intent(in) :: self\n  sq_area = self%a**2\n end function\nend module shapes\n",
    "subroutine outer(n, f)\n implicit none\n integer, intent(in) :: n\n interface\n  real function f(x)\n   real, intent(in) :: x\n  end function f\n end interface\n"
    " integer :: i\n select case (n)\n case (1)\n  i = 1\n case default\n  i = 2\n end select\n where ([1,2] > 1)\n end where\n do i = 1, n\n  if (i > 2) exit\n end do\nend subroutine outer\n",
    # END INTERFACE repeating a generic spec that is not a plain name; module procedures after it use the host's type
    "module vecs\n implicit none\n type :: vec\n  real :: x, y\n end type vec\n interface operator(+)\n  module procedure add_vec\n end interface operator(+)\n"
    " interface assignment(=)\n  module procedure set_vec\n end interface assignment(=)\n interface operator(.dot.)\n  module procedure dot_vec\n end interface operator(.dot.)\n"
    " interface write(formatted)\n  module procedure wf_vec\n end interface write(formatted)\ncontains\n"
    " function add_vec(a, b) result(c)\n  type(vec), intent(in) :: a, b\n  type(vec) :: c\n  c%x = a%x + b%x\n  c%y = a%y + b%y\n end function add_vec\n"
    " subroutine set_vec(a, r)\n  type(vec), intent(out) :: a\n  real, intent(in) :: r\n  a%x = r\n  a%y = r\n end subroutine set_vec\n"
    " real function dot_vec(a, b)\n  type(vec), intent(in) :: a, b\n  dot_vec = a%x*b%x + a%y*b%y\n end function dot_vec\n"
    " subroutine wf_vec(dtv, unit, iotype, v_list, iostat, iomsg)\n  class(vec), intent(in) :: dtv\n  integer, intent(in) :: unit\n  character(*), intent(in) :: iotype\n"
    "  integer, intent(in) :: v_list(:)\n  integer, intent(out) :: iostat\n  character(*), intent(inout) :: iomsg\n  iostat = 0\n end subroutine wf_vec\nend module vecs\n",
    # an interface body has its own implicit mapping: no IMPLICIT NONE inherited from the host (fixed in /repo: 244faaf)
    "module ifb\n implicit none\n interface\n  subroutine s(a)\n  end subroutine s\n  function f(i)\n  end function f\n end interface\nend module ifb\n",
]

# programs with seeded defects and the exact set of error-severity diagnostics expected: [(message, 0-based line)]
EXACT_CORPUS = [
    # accessibility of a type differs between sibling scopes of one file (both orders)
    ("module shapes\n implicit none\n type :: vec\n  real :: x\n end type vec\nend module shapes\n"
     "subroutine has_access()\n use shapes\n implicit none\n type(vec) :: v\nend subroutine has_access\n"
     "subroutine no_access()\n implicit none\n type(vec) :: w\nend subroutine no_access\n", [('Object "vec" not found in scope', 13)]),
    ("module shapes\n implicit none\n type :: vec\n  real :: x\n end type vec\nend module shapes\n"
     "subroutine no_access()\n implicit none\n type(vec) :: w\nend subroutine no_access\n"
     "subroutine has_access()\n use shapes\n implicit none\n type(vec) :: v\nend subroutine has_access\n", [('Object "vec" not found in scope', 8)]),
    # dummy arguments spelled with capitals in the SUBROUTINE statement: a valid program, and one with a seeded INTENT defect
    ("subroutine Solve(A, b, N)\n implicit none\n integer, intent(in) :: N\n real, intent(in) :: A(N)\n real, intent(out) :: B(n)\n b = a\nend subroutine Solve\n", []),
    ("SUBROUTINE SOLVE(A, B, N)\n IMPLICIT NONE\n INTEGER, INTENT(IN) :: N\n REAL, INTENT(IN) :: A(N)\n REAL, INTENT(OUT) :: B(N)\n REAL, INTENT(IN) :: GHOST\n B = A\nEND SUBROUTINE SOLVE\n",
     [('Variable "GHOST" with INTENT keyword not found in argument list', 5)]),
]

EXACT_CORPUS += [
    # a separate EXTERNAL statement in another letter case than the type declaration, and one for a dummy named like a module variable
    ("module em\n implicit none\n integer, save :: h\ncontains\n subroutine s3(foo, bar, h)\n  real foo\n  external FOO\n  external bar\n  real BAR\n  external h\n  call h()\n end subroutine s3\nend module em\n", []),
]

EXACT_CORPUS += [
    # several IMPORT statements with name lists in one interface body: valid, and with one name forgotten
    ("module shp2\n implicit none\n integer, parameter :: wp = 8\n type :: point_t\n  real(wp) :: x\n end type\n type :: box_t\n  real(wp) :: w\n end type\n interface\n"
     "  subroutine draw(p, b, s)\n   import :: point_t\n   import :: box_t\n   import :: wp\n   type(point_t), intent(in) :: p\n   type(box_t), intent(in) :: b\n"
     "   real(wp), intent(in) :: s\n  end subroutine draw\n end interface\nend module shp2\n", []),
    ("module shp3\n implicit none\n type :: point_t\n  real :: x\n end type\n type :: box_t\n  real :: w\n end type\n interface\n"
     "  subroutine draw(p, b)\n   import :: box_t\n   type(point_t), intent(in) :: p\n   type(box_t), intent(in) :: b\n  end subroutine draw\n"
     "  subroutine draw2(p, b)\n   import :: point_t\n   import :: box_t\n   type(point_t), intent(in) :: p\n   type(box_t), intent(in) :: b\n  end subroutine draw2\n"
     " end interface\nend module shp3\n", [('Object "point_t" not imported in interface', 11)]),
]

# over-long lines: (server arguments, {line length: expected number of 'Line length exceeds' warnings on a code line of that length})
LENGTH_CASES = [
    (["--max_line_length", "80"], {79: 0, 80: 0, 81: 1, 100: 1, 140: 1}),
    (["--max_line_length", "80", "--max_comment_line_length", "60"], {80: 0, 81: 1, 140: 1}),
    (["--max_line_length", "80", "--max_comment_line_length", "100"], {80: 0, 81: 1, 90: 1, 100: 1, 101: 1, 140: 1}),
    (["--max_line_length", "80", "--max_comment_line_length", "132"], {81: 1, 120: 1, 133: 1}),
]

KNOWN_UNREPORTED = [
    ("C07:missing-type-not-accessible-private",
     "module types_mod\n implicit none\n private\n type :: counter\n  integer :: n\n end type counter\nend module types_mod\n"
     "module user_mod\n implicit none\n type(counter) :: c\nend module user_mod\n", 'Object "counter" not found in scope', 9),
]

# valid programs on which the unmodified tree publishes an error: known findings, each with its own signature
KNOWN_INVALID = [
    ("C07:main-program-without-program-statement", "integer :: i\ni = 1\nend\n"),
]


def check_corpus(ctx):
    for i, text in enumerate(VALID_CORPUS):
        diags = diagnostics_of(text)
        ctx.count(("valid-corpus", i), True)
        errs = [d for d in diags if d[1] == 1]
        if errs:
            ctx.report("C07:error-on-valid", "an error-severity diagnostic on a valid program: %s (line %d)" % (errs[0][0], errs[0][2]),
                       {"kind": "counterexample", "input": {"text": text}, "implementation": diags})
    for i, (text, want) in enumerate(EXACT_CORPUS):
        diags = diagnostics_of(text)
        ctx.count(("exact-corpus", i), True)
        got = sorted((d[0], d[2]) for d in diags if d[1] == 1)
        if got != sorted(want):
            ctx.report("C07:exact-corpus", "error diagnostics differ from the expected set: got %s, expected %s" % (got[:4], sorted(want)[:4]),
                       {"kind": "counterexample", "input": {"text": text}, "implementation": diags, "oracle": sorted(want)})
    for args, table in LENGTH_CASES:
        lens = sorted(table)
        lines = ["program long_lines", " implicit none", " integer :: a"]
        first = len(lines)
        for n in lens:
            stmt = " a = 1"
            lines.append(stmt + " " * (n - len(stmt) - 3) + "+ 2" if n - len(stmt) - 3 >= 1 else stmt)
        lines.append("end program long_lines")
        text = "\n".join(lines) + "\n"
        diags = diagnostics_of(text, server_args=args)
        ctx.count(("length-corpus", tuple(args)), True)
        for k, n in enumerate(lens):
            got = sum(1 for d in diags if d[2] == first + k and d[0].startswith("Line length exceeds"))
            if len(lines[first + k]) == n and got != table[n]:
                ctx.report("C07:line-length", "a code line of %d characters gets %d 'Line length exceeds' warnings with %s (expected %d)" % (n, got, " ".join(args), table[n]),
                           {"kind": "counterexample", "input": {"text": text, "server_arguments": args, "line": first + k}, "implementation": diags, "oracle": table[n]})
                break
    # documented defect classes that the unmodified tree does not report: (signature, text, message, line)
    for sig, text, msg, line in KNOWN_UNREPORTED:
        diags = diagnostics_of(text)
        ctx.count(("defect-corpus", sig), True)
        if not any(d[0] == msg and d[1] == 1 and d[2] == line for d in diags):
            ctx.report(sig, "the seeded defect is not reported: expected '%s' (error) on line %d" % (msg, line),
                       {"kind": "counterexample", "input": {"text": text}, "implementation": diags, "oracle": [msg, 1, line]})
    for sig, text in KNOWN_INVALID:
        diags = diagnostics_of(text)
        ctx.count(("valid-corpus", sig), True)
        errs = [d for d in diags if d[1] == 1]
        if errs:
            ctx.report(sig, "an error-severity diagnostic on a valid program: %s (line %d)" % (errs[0][0], errs[0][2]),
                       {"kind": "counterexample", "input": {"text": text}, "implementation": diags})


def check_oracle(ctx, n):
    import copy
    import random
    for k in range(n):
        seed = ctx.rng.randrange(1 << 30)
        base = Prog(random.Random(seed))
        lines, _ = render(base)
        text = "\n".join(lines) + "\n"
        diags = diagnostics_of(text)
        ctx.count(("valid", text), len(lines) > 15, sample={"text": text[:500]})
        errs = [d for d in diags if d[1] == 1]
        if errs:
            ctx.report("C07:error-on-valid", "an error-severity diagnostic on a valid program: %s (line %d)" % (errs[0][0], errs[0][2]),
                       {"kind": "counterexample", "input": {"text": text}, "implementation": diags})
            continue
        for cname, fn in ([CLASSES[i] for i in ctx.rng.sample(range(len(CLASSES)), 6)] if ctx.quick() else CLASSES):
            prog = Prog(random.Random(seed))        # the same valid program, rebuilt
            r = random.Random(ctx.rng.randrange(1 << 30))
            res = fn(prog, r)
            if res is None:
                continue
            extra, (msg, sev, tag) = res
            slines, tags = render(prog, pre=extra.get("pre", ()), post=extra.get("post", ()))
            stext = "\n".join(slines) + "\n"
            want_line = tags[tag]
            got = diagnostics_of(stext, extra.get("server", ()))
            ctx.count(("seeded", cname, stext), True)
            ctx.cov.setdefault("seeded_per_class", {})
            ctx.cov["seeded_per_class"][cname] = ctx.cov["seeded_per_class"].get(cname, 0) + 1
            hit = [d for d in got if d[0].startswith(msg) and d[1] == sev and d[2] == want_line]
            inp = {"text": stext, "class": cname, "offending_line": want_line}
            if not hit:
                ctx.report("C07:missing-" + cname + extra.get("variant", ""), "seeded defect '%s' is not diagnosed as %r (severity %d) on line %d" % (cname, msg, sev, want_line),
                           {"kind": "counterexample", "input": inp, "implementation": got, "oracle": [msg, sev, want_line]})
                continue
            # no unrelated error: every other severity-1 diagnostic must be of the seeded class too, or a structural consequence on the seeded lines
            seeded_lines = set(tags.values())
            other = [d for d in got if d[1] == 1 and d not in hit and not d[0].startswith(msg) and d[2] not in seeded_lines]
            if other:
                ctx.report("C07:unrelated-" + cname, "seeding '%s' also publishes an unrelated error: %s (line %d)" % (cname, other[0][0], other[0][2]),
                           {"kind": "counterexample", "input": inp, "implementation": got})


def search_failing(ctx):
    check_oracle(ctx, 10)
    return None


def run(ctx):
    ctx.cov["trusted_base"] = BASE_TRUST + ["program generator and defect seeders (harness/props/c07.py); messages are mapped to classes by their fixed prefixes"]
    ctx.assumptions = [
        "partial: the theorems cover the decision rules (duplicate declaration, procedure before CONTAINS, USE/IMPORT placement, valid parent) and the structural "
        "classes carried by the scope machine; INTENT/dummy-argument/type-accessibility/deferred-binding classes are differential only",
    ]
    ctx.cov["rule"] = ("valid programs: 1-3 modules (USE chains, intrinsic modules, types, interface bodies, contained procedures two levels deep, block "
                       "constructs) and a main program; each of the 15 defect classes seeded at a random admissible place (6 random classes per program in quick); "
                       "non-trivial = more than 15 lines")
    ctx.proof_obligations(search=lambda: search_failing(ctx))
    q = ctx.quick()
    from . import c07_trace
    c07_trace.check_rules(ctx, 25 if q else 500)
    check_corpus(ctx)
    check_oracle(ctx, 20 if q else 400)


def replay(ctx, path):
    with open(path) as f:
        doc = json.load(f)
    inp = doc["input"]
    if "text" in inp:
        print(diagnostics_of(inp["text"], ["--max_line_length", "132"] if inp.get("class") == "long-line" else ()))
    shutil.rmtree(ctx.workdir, ignore_errors=True)
    return 0
