"""C05, unnamed / abstract INTERFACE blocks: differential of C05/Blocks.v check_scope_b against the implementation.

Generated modules (default accessibility PUBLIC / PRIVATE, explicit PUBLIC/PRIVATE lists, variables, unnamed and abstract
interface blocks with bodies, module procedures) are parsed by the implementation; the children, their accessibility and the
#GEN_INT blocks are read back from the parsed module object (not from the generator), check_scope_b is evaluated on them in
Coq, and the answer is compared with find_in_scope from a program that USEs the module."""
from __future__ import annotations

import os
import shutil
import tempfile

from .. import impl
from ..common import clist, cnat, cstr

IMPORTS = ("From Coq Require Import ZArith.\nFrom FV Require Import Base.Str Shared.Resolve C05.Blocks.\n"
           "Definition blk_ans (dv : Z) (cs : list child) (name : str) : option nat :=\n"
           "  match check_scope_b dv cs name true with Some e => Some (e_id e) | None => None end.\n"
           "Definition onat_eqb (a b : option nat) : bool := match a, b with None, None => true | Some x, Some y => x =? y | _, _ => false end.\n")

NAMES = ["va", "vb", "ib_one", "ib_two", "ab_one", "cb", "helper", "api", "gen", "tt"]


def gen_module(rng, k):
    names = NAMES[:]
    rng.shuffle(names)
    nv = rng.randrange(1, 3)
    variables, rest = names[:nv], names[nv:]
    default = rng.choice(["", "private", "public"])
    lines = ["module blk%d" % k, "  implicit none"]
    if default:
        lines.append("  " + default.upper() if rng.random() < 0.3 else "  " + default)
    declared = []
    decl_line = {}
    for v in variables:
        lines.append("  integer :: %s" % v)
        declared.append(v)
        decl_line[v] = len(lines)
    nblocks = rng.randrange(1, 4)
    for b in range(nblocks):
        kind = rng.choice(["interface", "abstract interface", "interface"])
        lines.append("  " + kind)
        for _ in range(rng.randrange(1, 3)):
            if not rest:
                break
            n = rest.pop()
            declared.append(n)
            decl_line[n] = len(lines) + 1
            if rng.random() < 0.5:
                lines += ["    subroutine %s(x)" % n, "      integer :: x", "    end subroutine %s" % n]
            else:
                lines += ["    function %s() result(r)" % n, "      real :: r", "    end function %s" % n]
        lines.append("  end interface")
        if rest and rng.random() < 0.4:
            v = rest.pop()
            lines.append("  real :: %s" % v)
            declared.append(v)
            decl_line[v] = len(lines)
    procs = []
    for _ in range(rng.randrange(0, 3)):
        if rest:
            procs.append(rest.pop())
    # explicit accessibility statements (anywhere in the specification part; written here after the declarations)
    pool = declared + procs
    rng.shuffle(pool)
    npub = rng.randrange(0, 3)
    npriv = rng.randrange(0, 3)
    pub, priv = pool[:npub], pool[npub:npub + npriv]
    if pub:
        lines.append("  public :: " + ", ".join(n.upper() if rng.random() < 0.3 else n for n in pub))
    if priv:
        lines.append("  private :: " + ", ".join(priv))
    if procs:
        lines.append("contains")
        for p in procs:
            decl_line[p] = len(lines) + 1
            lines += ["  subroutine %s()" % p, "  end subroutine %s" % p]
    lines.append("end module blk%d" % k)
    truth = {}
    for nm, ln in decl_line.items():
        if nm in pub or (nm not in priv and default != "private"):
            truth[nm] = ln
    return "\n".join(lines) + "\n", truth


def run(ctx, n):
    from fortls.parsers.internal.utilities import find_in_scope
    coq = ctx.coq(IMPORTS)
    root = tempfile.mkdtemp(prefix="verif_c05b_")
    exprs, meta = [], []
    try:
        texts = {}
        for k in range(n):
            text, truth = gen_module(ctx.rng, k)
            texts[k] = (text, truth)
            with open(os.path.join(root, "blk%d.f90" % k), "w") as f:
                f.write(text)
            with open(os.path.join(root, "user%d.f90" % k), "w") as f:
                f.write("program user%d\n  use blk%d\n  implicit none\nend program user%d\n" % (k, k, k))
        srv, conn = impl.make_server(root, extra=["--nthreads", "1"])
        for k in range(n):
            text, truth = texts[k]
            mod = srv.obj_tree.get("blk%d" % k)
            usr = srv.obj_tree.get("user%d" % k)
            if not mod or not usr:
                ctx.report("C05:blocks-not-indexed", "generated module with interface blocks is not indexed",
                           {"kind": "counterexample", "input": {"text": text}})
                continue
            m = mod[0]
            cs = []
            nblocks = 0
            for c in m.children:
                if c.name.startswith("#GEN_INT"):
                    nblocks += 1
                    cs.append("(CBlock (%d)%%Z %s)" % (c.def_vis, clist(list(c.children), lambda e: "(EN %s (%d)%%Z %s)" % (cstr(e.name.lower()), e.vis, cnat(e.sline)))))
                else:
                    cs.append("(CEnt (EN %s (%d)%%Z %s))" % (cstr(c.name.lower()), c.vis, cnat(c.sline)))
            for name in NAMES + ["blk%d" % k]:
                got = find_in_scope(usr[0], name, srv.obj_tree)
                if name == "blk%d" % k:
                    continue      # the module itself: not a child
                g = None
                if got is not None:
                    g = got.sline if os.path.basename(got.file_ast.path) == "blk%d.f90" % k else -1
                ctx.count(("blocks", k, name, m.def_vis, nblocks), nblocks > 0, sample={"text": text[:500], "name": name})
                exprs.append("onat_eqb (blk_ans (%d)%%Z [%s] %s) %s" % (m.def_vis, "; ".join(cs), cstr(name),
                                                                    "None" if g is None else "(Some %s)" % cnat(max(g, 0))))
                meta.append({"text": text, "name": name, "implementation": g})
                # ground truth by Fortran's rules, from the generator: accessible iff declared and public under the module's rules
                if g != truth.get(name):
                    ctx.report("C05:private-unnamed-interface", "from a program that USEs the module, '%s' resolves to line %s of the module; by the module's "
                               "PUBLIC/PRIVATE statements it is %s" % (name, g, "declared at line %d" % truth[name] if name in truth else "not accessible"),
                               {"kind": "counterexample", "input": {"text": text, "name": name}, "implementation": g, "oracle": truth.get(name)})
    finally:
        shutil.rmtree(root, ignore_errors=True)
    bad = coq.bools(exprs, shard=400)
    ctx.cov["traces_validated_against_impl"] += len(exprs)
    for b in bad[:3]:
        ctx.report("C05:blocks-model-mismatch", "find_in_scope from a program that USEs the module differs from C05.Blocks.check_scope_b on the parsed children "
                   "(unnamed/abstract INTERFACE blocks) for '%s'" % meta[b]["name"],
                   {"kind": "counterexample", "input": meta[b], "correspondence": "FV.C05.Blocks.check_scope_b vs utilities.find_in_scope"})
