"""C06 -- references and rename cover exactly the occurrences of the entity.

Obligations: C06/Props.v.  Correspondence: the NAME_REGEX the code compiles (template read from
the source by the translator) and C06.Model.scan_regex / scan_direct on generated lines.
Oracle: on generated workspaces (the C05 generator with expression statements, `$` names,
occurrences next to literals and comments) references / documentHighlight / rename against the
generator's ground truth; rename is applied and re-checked with a fresh server.
"""
from __future__ import annotations

import json
import os
import re
import shutil
import tempfile

from .. import impl
from ..common import BASE_TRUST, clist, cnat, cstr
from ..translators import regex as regex_tr
from .. import marked
from . import c05

IMPORTS = ("From FV Require Import Base.Str Base.Regex Gen.GenRegex C06.Model.\n"
           "Definition spans_eqb (a b : list (nat * nat)) : bool := list_eqb (fun x y => (fst x =? fst y) && (snd x =? snd y)) a b.\n")


# ----------------------------------------------------------------------------- line scan correspondence

def check_scan(ctx, n):
    pat, flags = regex_tr.name_regex_template()
    coq = ctx.coq(IMPORTS)
    exprs = []
    meta = []
    rng = ctx.rng
    names = ["i", "ij", "a_b", "x1", "v$", "$t", "n", "Name", "k9_"]
    alpha = "iIjJab_x1nNk9$ +-*/=(),%'\"!&"
    for _ in range(n):
        name = rng.choice(names)
        parts = []
        for _ in range(rng.choice([1, 2, 3, 5, 8])):
            r = rng.random()
            if r < 0.45:
                parts.append(rng.choice([name, name.upper(), name.lower(), name + "x", "x" + name, name + "$", "_" + name]))
            else:
                parts.append("".join(rng.choice(alpha) for _ in range(rng.choice([1, 1, 2, 3]))))
        line = "".join(parts)
        if pat is None:
            got = None
        else:
            rx = re.compile(pat.replace(regex_tr.PLACEHOLDER, re.escape(name)), flags)
            got = [m.span(1) for m in rx.finditer(line)]
        ctx.count(("scan", name, line), len(got or []) >= 2, sample={"name": name, "line": line, "spans": got})
        if got is None:
            continue
        sp = clist(got, lambda ab: "(%s, %s)" % (cnat(ab[0]), cnat(ab[1])))
        exprs.append("spans_eqb (scan_regex %s %s) %s && spans_eqb (scan_direct %s %s) %s" % (cstr(name.lower()), cstr(line), sp, cstr(name.lower()), cstr(line), sp))
        meta.append((name, line, got))
    bad = coq.bools(exprs, shard=300)
    ctx.cov["traces_validated_against_impl"] += len(exprs)
    for b in bad[:5]:
        name, line, got = meta[b]
        # decide by the property: spans must be exactly the whole identifiers equal to the name
        want = [(m.start(), m.end()) for m in re.finditer(r"[A-Za-z0-9_$]+", line) if m.group(0).lower() == name.lower()]
        ctx.report("C06:scan", "the occurrence scan of '%s' in %r finds %s, the identifiers equal to the name are at %s" % (name, line, got, want),
                   {"kind": "counterexample" if got != want else "broken-correspondence", "input": {"name": name, "line": line},
                    "implementation": got, "oracle": want, "correspondence": "FV.C06.Model.scan_regex/scan_direct vs NAME_REGEX"},
                   found_input=(got != want))


# ----------------------------------------------------------------------------- end to end

class World6(c05.World):
    """the C05 world with expression statements: several occurrences per line, `$` names, literals and comments"""

    def __init__(self, rng):
        super().__init__(rng, intermediate_private=False)

    def site_lines(self, lines, path, si):
        rng = self.rng
        visible = []
        for n in sorted(set(c05.NAMES)):
            t = self.lookup(si, n)
            if t is not None and t != "ambiguous" and t[0] == "ent":
                visible.append(n)
        self.occ = getattr(self, "occ", [])   # (path, line, start, end, entity id)
        for _ in range(rng.choice([2, 3, 5])):
            if not visible:
                break
            k = rng.choice([1, 2, 2, 3])
            names = [rng.choice(visible) for _ in range(k)]
            sep = [rng.choice(["+", "*", "-", " + ", "/"]) for _ in range(k - 1)]
            txt = "qq="
            spans = []
            for j, n in enumerate(names):
                spell = n if rng.random() < 0.7 else n.upper()
                spans.append((len(txt), len(txt) + len(n), n))
                txt += spell
                if j < k - 1:
                    txt += sep[j]
            tail = rng.choice(["", "", " ! %s in a comment" % names[0], " ; print *, \"%s!\", %s" % (names[0], names[0])])
            if tail.startswith(" ;"):
                off = len(txt) + tail.rindex(names[0])
                spans.append((off, off + len(names[0]), names[0]))
            txt += tail
            for (a, b, n) in spans:
                t = self.lookup(si, n)
                self.occ.append((path, len(lines), a, b, t[1]))
                self.sites.append((path, len(lines), a + 1, si, n))
            lines.append(txt)


def decl_occurrences(w):
    """the declaration itself is an occurrence: (path, line, start, end, eid)"""
    out = []
    for eid, (path, line) in w.decl.items():
        with open(path) as f:
            text = f.read().split("\n")[line]
        name = w.ents[eid][1]
        a = text.index(":: " + name) + 3
        out.append((path, line, a, a + len(name), eid))
    return out


def only_occurrences(w, files):
    """names in ONLY lists are occurrences too (of the remote entity; the local alias of a rename is a different identifier)"""
    out = []
    for k, sc in enumerate(w.scopes):
        for (j, only) in sc["uses"]:
            if only is None:
                continue
            pub = w.public_names(j)
            for path, ls in files.items():
                for li, text in enumerate(ls):
                    if text.startswith("use %s, only:" % w.scopes[j]["name"]) and same_unit(w, k, path, li, files):
                        for local, remote in only:
                            if remote in pub and len(pub[remote]) == 1:
                                eid = next(iter(pub[remote]))
                                if local == remote:
                                    for m in re.finditer(r"(?<![\w$])%s(?![\w$])" % re.escape(remote), text[text.index("only:"):]):
                                        a = text.index("only:") + m.start()
                                        out.append((path, li, a, a + len(remote), eid))
    return out


def same_unit(w, k, path, li, files):
    return True


def run_worlds(ctx, n):
    for k in range(n):
        w = World6(ctx.rng)
        root = tempfile.mkdtemp(prefix="verif_c06_")
        try:
            files = w.render(root)
            srv, conn = impl.make_server(root, extra=["--nthreads", "1"])
            for pth in files:
                impl.did_open(srv, pth)
            occ = list(getattr(w, "occ", [])) + decl_occurrences(w)
            text = {os.path.relpath(p, root): "\n".join(ls) for p, ls in files.items()}
            by_ent = {}
            for (path, line, a, b, eid) in occ:
                by_ent.setdefault(eid, set()).add((os.path.relpath(path, root), line, a, b))
            ctx.count(json.dumps(text, sort_keys=True), True, sample={"files": {k2: v[:300] for k2, v in list(text.items())[:2]}})
            for eid, truth in by_ent.items():
                # entities that are imported through an ONLY list somewhere have further textual occurrences there: skip the strict
                # comparison for those, keep it for the others
                name = w.ents[eid][1]
                in_only = any(only and any(r == name for _, r in only) for sc in w.scopes for (_, only) in sc["uses"])
                answers = set()
                for (rel, line, a, b) in sorted(truth):
                    path = os.path.join(root, rel)
                    p = impl.pos_params(path, line, a + 1)
                    p["context"] = {"includeDeclaration": True}
                    resp, _ = impl.request(srv, conn, "textDocument/references", p)
                    got = None
                    if resp and resp[0] == "r" and resp[2] is not None:
                        got = frozenset((os.path.relpath(c05.impl_path(r["uri"]), root), r["range"]["start"]["line"], r["range"]["start"]["character"],
                                         r["range"]["end"]["character"]) for r in resp[2])
                    answers.add(got)
                    if got is None or (not in_only and got != frozenset(truth)) or (in_only and not frozenset(truth) <= got):
                        ctx.report("C06:references", "find-references on '%s' does not return exactly the occurrences bound to it" % name,
                                   {"kind": "counterexample", "input": {"files": text, "at": [rel, line, a]},
                                    "implementation": sorted(got) if got else None, "oracle": sorted(truth),
                                    "missing": sorted(frozenset(truth) - (got or frozenset())), "extra": sorted((got or frozenset()) - frozenset(truth)) if not in_only else []})
                        break
                if len(answers) > 1:
                    ctx.report("C06:references-differ", "find-references on '%s' depends on the occurrence it is invoked from" % name,
                               {"kind": "counterexample", "input": {"files": text, "entity": name}, "implementation": [sorted(a) if a else None for a in answers]})
            # rename one entity and re-check with a fresh server
            cand = [e for e in by_ent if not any(only and any(r == w.ents[e][1] or l == w.ents[e][1] for l, r in only) for sc in w.scopes for (_, only) in sc["uses"])]
            if cand:
                eid = ctx.rng.choice(sorted(cand))
                rename_check(ctx, w, root, files, text, srv, conn, eid, by_ent[eid])
        finally:
            shutil.rmtree(root, ignore_errors=True)


def rename_check(ctx, w, root, files, text, srv, conn, eid, truth):
    name = w.ents[eid][1]
    new = "zz_renamed"
    rel, line, a, b = sorted(truth)[0]
    p = impl.pos_params(os.path.join(root, rel), line, a + 1)
    p["newName"] = new
    resp, _ = impl.request(srv, conn, "textDocument/rename", p)
    if not resp or resp[0] != "r" or not resp[2]:
        ctx.report("C06:rename", "rename of '%s' returns no edit" % name, {"kind": "counterexample", "input": {"files": text, "at": [rel, line, a]},
                                                                           "implementation": repr(resp)[:200]})
        return
    edits = set()
    for u, es in resp[2]["changes"].items():
        for e in es:
            edits.add((os.path.relpath(c05.impl_path(u), root), e["range"]["start"]["line"], e["range"]["start"]["character"], e["range"]["end"]["character"], e["newText"]))
    want = {(r, l, s, e, new) for (r, l, s, e) in truth}
    if edits != want:
        ctx.report("C06:rename", "rename of '%s' edits %s, the occurrences are %s" % (name, sorted(edits)[:6], sorted(want)[:6]),
                   {"kind": "counterexample", "input": {"files": text, "at": [rel, line, a], "newName": new},
                    "implementation": sorted(edits), "oracle": sorted(want)})
        return
    # apply and ask a fresh server: every renamed occurrence must still bind to the (renamed) declaration
    root2 = tempfile.mkdtemp(prefix="verif_c06_r_")
    try:
        for relp, t in text.items():
            ls = t.split("\n")
            for (r, l, s, e, nt) in sorted(edits, key=lambda x: (x[0], x[1], -x[2])):
                if r == relp:
                    ls[l] = ls[l][:s] + nt + ls[l][e:]
            with open(os.path.join(root2, relp), "w") as f:
                f.write("\n".join(ls) + "\n")
        srv2, conn2 = impl.make_server(root2, extra=["--nthreads", "1"])
        for relp in text:
            impl.did_open(srv2, os.path.join(root2, relp))
        # positions shift by (len(new) - len(name)) for occurrences to the left on the same line
        shifted = set()
        for (r, l, s, e) in truth:
            k = sum(1 for (r2, l2, s2, e2) in truth if r2 == r and l2 == l and s2 < s)
            d = k * (len(new) - len(name))
            shifted.add((r, l, s + d, s + d + len(new)))
        r0, l0, s0, e0 = sorted(shifted)[0]
        p2 = impl.pos_params(os.path.join(root2, r0), l0, s0 + 1)
        p2["context"] = {"includeDeclaration": True}
        resp2, _ = impl.request(srv2, conn2, "textDocument/references", p2)
        got2 = None
        if resp2 and resp2[0] == "r" and resp2[2] is not None:
            got2 = {(os.path.relpath(c05.impl_path(x["uri"]), root2), x["range"]["start"]["line"], x["range"]["start"]["character"], x["range"]["end"]["character"]) for x in resp2[2]}
        ctx.count(("rename", name, json.dumps(text, sort_keys=True)), True)
        if got2 != shifted:
            ctx.report("C06:rename", "after applying the rename of '%s' the occurrences no longer all resolve to the renamed declaration" % name,
                       {"kind": "counterexample", "input": {"files": text, "at": [rel, line, a], "newName": new},
                        "implementation": sorted(got2) if got2 else None, "oracle": sorted(shifted)})
    finally:
        shutil.rmtree(root2, ignore_errors=True)


def search_failing(ctx):
    pat, flags = regex_tr.name_regex_template()
    if pat is None:
        return None
    for name, line in (("i", "x=i+i"), ("i", "i*i*i"), ("v$", "v$=v$+1"), ("n", "a(n,n)")):
        rx = re.compile(pat.replace(regex_tr.PLACEHOLDER, re.escape(name)) if "(?#raw)" not in pat else pat.replace("(?#raw)", "").replace(regex_tr.PLACEHOLDER, name), flags)
        got = [m.span(1) for m in rx.finditer(line)]
        want = [(m.start(), m.end()) for m in re.finditer(r"[A-Za-z0-9_$]+", line) if m.group(0).lower() == name.lower()]
        if got != want:
            return ("C06:scan", "the occurrence scan of '%s' in %r finds %s, the identifiers equal to the name are at %s" % (name, line, got, want),
                    {"kind": "counterexample", "input": {"name": name, "line": line}, "implementation": got, "oracle": want})
    return None


def run(ctx):
    ctx.cov["trusted_base"] = BASE_TRUST + [
        "regex translator incl. the NAME_REGEX f-string template (-> Gen/GenRegex.v name_re); engine fidelity measured on the generated lines",
        "C05's generator (ground truth of which occurrence binds to which declaration)",
    ]
    ctx.assumptions = [
        "partial: the theorems cover the occurrence scan (candidates); binding of each candidate is C05's resolution, checked by differential here",
        "entities that appear in ONLY lists have further textual occurrences in those lists; for them the oracle demands a superset",
        "names are made of identifier characters (letters, digits, _, $)",
    ]
    ctx.cov["rule"] = ("scan: random lines mixing the name in several spellings with look-alikes and operators; non-trivial = at least two occurrences. "
                       "end to end: C05 workspaces with 1-3 occurrences per statement separated by single operator characters, upper-case spellings, "
                       "trailing comments and literals containing '!' and the name; references from every occurrence; one rename per workspace applied and re-checked")
    ctx.proof_obligations(search=lambda: search_failing(ctx))
    q = ctx.quick()
    check_scan(ctx, 1500 if q else 30000)
    marked.check_references(ctx)
    run_worlds(ctx, 40 if q else 1200)


def replay(ctx, path):
    with open(path) as f:
        doc = json.load(f)
    inp = doc["input"]
    if "line" in inp:
        print(search_failing(ctx))
        return 0
    shutil.rmtree(ctx.workdir, ignore_errors=True)
    return 0
