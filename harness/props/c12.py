"""C12 -- completion offers exactly the accessible names matching the typed prefix.

Obligations: C12/Props.v (prefix filter exact; PRIVATE and ONLY respected for all programs; what is offered through USE
resolves -- over the transcription of get_candidates and the resolution model of C05).
Correspondence: C12.Model.complete against textDocument/completion on generated workspaces (C05 generator).
Oracle: the generator's ground truth of accessibility; an annotated catalogue for `%`, USE, ONLY: and CALL contexts.
"""
from __future__ import annotations

import json
import os
import shutil
import tempfile

from .. import impl
from ..common import BASE_TRUST, clist, cnat, cstr
from . import c05

IMPORTS = "From Coq Require Import ZArith.\nFrom FV Require Import Base.Str Shared.Resolve C12.Model."
POOL = set(c05.NAMES) | {"r_" + n for n in c05.NAMES}
HELPERS = {"qq", "ww", "ssub"}


def labels_at(srv, conn, path, line, ch):
    r, _ = impl.request(srv, conn, "textDocument/completion", impl.pos_params(path, line, ch))
    if not r or r[0] != "r":
        return None, r
    items = r[2] or []
    if isinstance(items, dict):
        items = items.get("items", [])
    return [(i["label"], i.get("kind")) for i in items], r


def run_worlds(ctx, n, intermediate_private):
    coq = ctx.coq(IMPORTS)
    exprs, meta = [], []
    for k in range(n):
        w = c05.World(ctx.rng, intermediate_private)
        root = tempfile.mkdtemp(prefix="verif_c12_")
        try:
            files = w.render(root)
            srv, conn = impl.make_server(root, extra=["--nthreads", "1"])
            for pth in files:
                impl.did_open(srv, pth)
            term = w.coq()
            text = {os.path.relpath(p, root): "\n".join(ls) for p, ls in files.items()}
            ctx.count(json.dumps(text, sort_keys=True), len(w.scopes) > 3, sample={"files": {k2: v[:300] for k2, v in list(text.items())[:2]}})
            sites = list(w.sites)
            ctx.rng.shuffle(sites)
            for (path, line, col, si, name) in sites[:8]:
                kk = ctx.rng.choice([1, 1, 2, len(name)])
                prefix = name[:kk]
                # the line reads "qq = <name>"; the cursor sits after the first kk characters of the name
                ch = len("qq = ") + kk
                labs, raw = labels_at(srv, conn, path, line, ch)
                inp = {"files": text, "file": os.path.relpath(path, root), "line": line, "character": ch, "prefix": prefix}
                if labs is None:
                    ctx.report("C12:no-answer", "completion answers with an error", {"kind": "counterexample", "input": inp, "implementation": repr(raw)[:300]})
                    continue
                got_pool = sorted({l.lower() for l, _ in labs if l.lower() in POOL})
                want = sorted(nm for nm in POOL if nm.startswith(prefix) and isinstance(w.lookup(si, nm), tuple) and w.lookup(si, nm)[0] == "ent")
                amb = [nm for nm in POOL if nm.startswith(prefix) and w.lookup(si, nm) == "ambiguous"]
                ctx.count(("site", json.dumps(text, sort_keys=True), line, prefix), len(want) > 0)
                missing = [x for x in want if x not in got_pool]
                extra = [x for x in got_pool if x not in want and x not in amb]
                wrong_prefix = [l for l, _ in labs if not l.lower().startswith(prefix)]
                if wrong_prefix:
                    ctx.report("C12:prefix", "completion for '%s' offers %s" % (prefix, wrong_prefix[:3]), {"kind": "counterexample", "input": inp, "implementation": wrong_prefix})
                # the two known root causes (shared with C05) are told apart per name: a missing renamed name reached through a USE diamond,
                # an extra name leaking through an intermediate module with default PRIVATE
                for part, names in (("missing", missing), ("extra", extra)):
                    if not names:
                        continue
                    sig = "C12:candidates"
                    if part == "missing" and all(c05.rename_lost_diamond(w, si, nm, w.lookup(si, nm), None) for nm in names):
                        sig = "C12:rename-lost-diamond"
                    elif part == "extra" and intermediate_private and c05.reexport_private_involved(w, si, None):
                        sig = "C12:private-reexport"
                    ctx.report(sig, "completion for '%s' %s" % (prefix, ("misses %s" % names) if part == "missing" else ("offers inaccessible %s" % names)),
                               {"kind": "counterexample", "input": inp, "implementation": got_pool, "oracle": want})
                # model correspondence on the user-declared labels
                chain = [w.prog] if si == w.prog else [w.prog, w.sub]
                universe = clist(sorted(POOL | HELPERS), cstr)
                got_u = sorted({l.lower() for l, _ in labs if l.lower() in POOL | HELPERS})
                e = ("match complete %s (flat_map (fun i => match scope_at %s i with Some s => [s] | None => [] end) %s) %s with "
                     "Some ls => strs_same (filter (fun x => smem x %s) ls) %s | None => false end") % (
                    term, term, clist(chain, cnat), cstr(prefix), universe, clist(got_u, cstr))
                exprs.append(e)
                meta.append(dict(inp, model_expression=e))
        finally:
            shutil.rmtree(root, ignore_errors=True)
    bad = coq.bools(exprs, shard=60)
    ctx.cov["traces_validated_against_impl"] += len(exprs)
    for b in bad[:3]:
        ctx.report("C12:model-impl-mismatch", "completion labels differ from C12.Model.complete", {"kind": "broken-correspondence", "input": meta[b],
                   "correspondence": "FV.C12.Model.complete vs serve_autocomplete.get_candidates"}, found_input=False)


# ---- contexts other than a plain executable statement: hand-written workspace, expected label sets written out -----------
CATALOGUE_FILES = {
    "geo_base.f90": """module geo_base
  implicit none
  private
  public :: shape_t, area_of, pub_count, Mixed_Name
  integer :: pub_count
  integer :: mixed_name
  integer :: hidden_count
  type :: shape_t
    integer :: id
    real :: area
  contains
    procedure :: describe => shape_describe
  end type shape_t
contains
  subroutine shape_describe(self)
    class(shape_t), intent(in) :: self
  end subroutine shape_describe
  real function area_of(s)
    type(shape_t), intent(in) :: s
    area_of = s%area
  end function area_of
  subroutine hidden_helper()
  end subroutine hidden_helper
end module geo_base
""",
    "geo_poly.f90": """module geo_poly
  use geo_base
  implicit none
  type, extends(shape_t) :: poly_t
    integer :: nsides
  contains
    procedure :: perimeter => poly_perimeter
  end type poly_t
contains
  real function poly_perimeter(self)
    class(poly_t), intent(in) :: self
    poly_perimeter = 1.0
  end function poly_perimeter
  subroutine poly_reset(p)
    type(poly_t), intent(inout) :: p
    p%nsides = 0
  end subroutine poly_reset
end module geo_poly
""",
    "geo_rect.f90": """module geo_rect
  use geo_poly
  implicit none
  type, extends(poly_t) :: quad_t
    real :: diag
  contains
    procedure :: stretch => quad_stretch
  end type quad_t
  type, extends(quad_t) :: rect_t
    real :: width
  end type rect_t
contains
  subroutine quad_stretch(self)
    class(quad_t), intent(inout) :: self
  end subroutine quad_stretch
  subroutine use_rect()
    type(rect_t) :: rc
    rc%
    call rc%s
    rc%a
  end subroutine use_rect
end module geo_rect
""",
    "geo_alias.f90": """program geo_alias
  use geo_base, only: ra => pub_count
  use geo_base, only: rb => area_of
  implicit none
  integer :: qv
  qv = r
  qv = mi
  qv = sh
end program geo_alias
""",
    "geo_alias2.f90": """subroutine alias_two()
  use geo_base, lc => pub_count
  implicit none
  integer :: wv
  wv = l
  wv = mi
end subroutine alias_two
""",
    "kn_kinds.f90": """module kn_kinds
  implicit none
  integer, parameter :: k_sp = 4, k_dp = 8, k_long = 16
end module kn_kinds
""",
    "kn_utils.f90": """module kn_utils
  use kn_kinds, only: k_dp
  implicit none
contains
  subroutine u_help()
  end subroutine u_help
end module kn_utils
""",
    "kn_main.f90": """program kn_main
  use kn_utils, only: u_help
  implicit none
  integer :: j
  j = k_
  call u_
end program kn_main
""",
    "kn_main2.f90": """subroutine kn_main2()
  use kn_utils, only: u_help
  use kn_kinds, only: k_sp
  implicit none
  integer :: j
  j = k_
end subroutine kn_main2
""",
    "kx_a.f90": """module ka_g1
  implicit none
  type :: grand1_t
    integer :: g1_val
  end type grand1_t
end module ka_g1
module ka_p2
  use kb_g2
  implicit none
  type, extends(grand2_t) :: parent2_t
    integer :: p2_val
  end type parent2_t
end module ka_p2
module ka_c1
  use kb_p1
  implicit none
  type, extends(parent1_t) :: child1_t
    integer :: c1_val
  end type child1_t
contains
  subroutine use_c1()
    type(child1_t) :: o1
    o1%
  end subroutine use_c1
end module ka_c1
""",
    "kx_b.f90": """module kb_g2
  implicit none
  type :: grand2_t
    integer :: g2_val
  end type grand2_t
end module kb_g2
module kb_p1
  use ka_g1
  implicit none
  type, extends(grand1_t) :: parent1_t
    integer :: p1_val
  end type parent1_t
end module kb_p1
module kb_c2
  use ka_p2
  implicit none
  type, extends(parent2_t) :: child2_t
    integer :: c2_val
  end type child2_t
contains
  subroutine use_c2()
    type(child2_t) :: o2
    o2%
  end subroutine use_c2
end module kb_c2
""",
    "cm_types.f90": """module cm_types
  implicit none
  type :: mesh
    real :: spacing
    integer :: ncell
  end type mesh
  type :: solver
    type(mesh) :: mesh
    integer :: iters
  end type solver
  type, extends(solver) :: multigrid
    type(mesh) :: coarse
  end type multigrid
contains
  subroutine cm_use()
    type(multigrid) :: mg
    mg%mesh%
    mg%coarse%sp
    mg%
  end subroutine cm_use
end module cm_types
""",
    "geo_main.f90": """program geo_main
  use geo_poly, only: poly_t, poly_reset
  use geo_base, only: s
  use geo_base, only: h
  use geo
  implicit none
  type(poly_t) :: pg
  integer :: plain_var
  pg%
  pg%n
  call p
  call pg%
end program geo_main
""",
}
# (file, line, character, which labels to look at, expected subset present, expected absent)
CATALOGUE_CASES = [
    ("member: components and bindings, inherited ones included", "geo_main.f90", 8, 5, None,
     {"id", "area", "nsides", "describe", "perimeter"}, {"plain_var", "pg", "poly_reset", "pub_count", "hidden_count"}),
    ("member with prefix", "geo_main.f90", 9, 6, None, {"nsides"}, {"id", "area", "describe", "perimeter"}),
    ("ONLY: public members of that module only", "geo_main.f90", 2, 23, None, {"shape_t"},
     {"shape_describe", "poly_t", "plain_var", "geo_poly"}),
    ("ONLY: private members are not offered", "geo_main.f90", 3, 23, None, set(), {"hidden_count", "hidden_helper"}),
    ("USE: modules only", "geo_main.f90", 4, 9, None, {"geo_base", "geo_poly"}, {"plain_var", "pg", "poly_t", "poly_reset", "shape_t"}),
    # an object of derived type may start a call statement (call pg%proc()), so it is not counted as a violation
    ("CALL: callable entities only", "geo_main.f90", 10, 8, None, {"poly_reset"}, {"plain_var", "poly_t", "pub_count"}),
    ("member four levels deep: members from every ancestor", "geo_rect.f90", 17, 7, None,
     {"id", "area", "describe", "nsides", "perimeter", "diag", "stretch", "width"}, {"rc", "use_rect"}),
    ("CALL on a four-level object with prefix", "geo_rect.f90", 18, 13, None, {"stretch"}, {"width", "diag", "id"}),
    ("member with prefix from the root type", "geo_rect.f90", 19, 8, None, {"area"}, {"width", "id"}),
    ("two USE ONLY statements with renames in one scope", "geo_alias.f90", 5, 8, None, {"ra", "rb"}, {"pub_count", "area_of"}),
    ("ONLY lists hide the rest of the module", "geo_alias.f90", 6, 9, None, set(), {"mixed_name"}),
    ("rename without ONLY", "geo_alias2.f90", 4, 8, None, {"lc"}, set()),
    ("PUBLIC list written in another case", "geo_alias2.f90", 5, 9, None, {"mixed_name"}, set()),
    ("derived type in an executable statement", "geo_alias.f90", 7, 9, None, {"shape_t"}, set()),
    ("CALL on an object: bound procedures", "geo_main.f90", 11, 10, None, {"describe", "perimeter"}, {"plain_var", "poly_reset"}),
    ("components of a component that is named like its type", "cm_types.f90", 16, 12, None, {"spacing", "ncell"}, {"iters", "mesh", "coarse"}),
    ("components of an inherited-type's sibling component of the same type", "cm_types.f90", 17, 16, None, {"spacing"}, {"ncell", "iters"}),
    ("members of the extended type", "cm_types.f90", 18, 7, None, {"mesh", "iters", "coarse"}, {"spacing"}),
    ("ONLY lists on two USE levels with nothing in common", "kn_main.f90", 4, 8, None, set(), {"k_dp", "k_sp", "k_long"}),
    ("ONLY list names the used module's own procedure", "kn_main.f90", 5, 9, None, {"u_help"}, set()),
    ("disjoint ONLY lists plus a direct USE ONLY of the inner module", "kn_main2.f90", 5, 8, None, {"k_sp"}, {"k_dp", "k_long"}),
]
# asked right after initialization, before any document is opened: two three-level hierarchies laid crosswise over two files, so that
# whichever file is linked first holds a child whose parent lives in the other
INIT_CASES = [
    ("member three levels deep right after start-up (hierarchy 1)", "kx_a.f90", 22, 7, {"g1_val", "p1_val", "c1_val"}),
    ("member three levels deep right after start-up (hierarchy 2)", "kx_b.f90", 22, 7, {"g2_val", "p2_val", "c2_val"}),
]
# after the root type of the four-level chain (geo_base.f90) gained a component and was saved: (what, file, line, character, present)
AFTER_SAVE_CASES = [
    ("member four levels deep after the root type was saved with a new component", "geo_rect.f90", 17, 7, {"colour", "id", "width", "nsides"}),
    ("member two levels deep after the root type was saved with a new component", "geo_main.f90", 8, 5, {"colour", "id", "nsides"}),
]


def check_catalogue(ctx):
    root = tempfile.mkdtemp(prefix="verif_c12_c_")
    try:
        for n, t in CATALOGUE_FILES.items():
            with open(os.path.join(root, n), "w") as f:
                f.write(t)
        srv, conn = impl.make_server(root, extra=["--nthreads", "1"])
        for (what, fn, line, ch, present) in INIT_CASES:
            labs, raw = labels_at(srv, conn, os.path.join(root, fn), line, ch)
            got = {l.lower() for l, _ in (labs or [])}
            ctx.count(("catalogue", what), True)
            if labs is None or present - got:
                ctx.report("C12:members-at-startup", "%s: misses %s" % (what, sorted(present - got)),
                           {"kind": "counterexample", "input": {"files": CATALOGUE_FILES, "file": fn, "line": line, "character": ch, "history": "initialize only"},
                            "implementation": sorted(got)[:60], "oracle": {"present": sorted(present)}})
        for n in CATALOGUE_FILES:
            impl.did_open(srv, os.path.join(root, n))
        for (what, fn, line, ch, _, present, absent) in CATALOGUE_CASES:
            labs, raw = labels_at(srv, conn, os.path.join(root, fn), line, ch)
            got = {l.lower() for l, _ in (labs or [])}
            ctx.count(("catalogue", what), True)
            missing = sorted(present - got)
            extra = sorted(absent & got)
            if labs is None or missing or extra:
                ctx.report("C12:derived-types-not-offered" if what.startswith("derived type") else "C12:context-" + what.replace(":", "").replace(" ", "-")[:40], "%s: misses %s, offers %s" % (what, missing, extra),
                           {"kind": "counterexample", "input": {"files": CATALOGUE_FILES, "file": fn, "line": line, "character": ch}, "implementation": sorted(got)[:60],
                            "oracle": {"present": sorted(present), "absent": sorted(absent)}})
        # a saved edit of the file that holds the root of the EXTENDS chain: inherited members are rebuilt all the way down
        base = os.path.join(root, "geo_base.f90")
        new_text = CATALOGUE_FILES["geo_base.f90"].replace("    integer :: id\n", "    integer :: id\n    integer :: colour\n", 1)
        with open(base, "w") as f:
            f.write(new_text)
        impl.did_save(srv, base)
        for (what, fn, line, ch, present) in AFTER_SAVE_CASES:
            labs, raw = labels_at(srv, conn, os.path.join(root, fn), line, ch)
            got = {l.lower() for l, _ in (labs or [])}
            ctx.count(("catalogue", what), True)
            if labs is None or present - got:
                ctx.report("C12:stale-members-after-save", "%s: misses %s" % (what, sorted(present - got)),
                           {"kind": "counterexample", "input": {"files": CATALOGUE_FILES, "saved": {"geo_base.f90": new_text}, "file": fn, "line": line, "character": ch},
                            "implementation": sorted(got)[:60], "oracle": {"present": sorted(present)}})
    finally:
        shutil.rmtree(root, ignore_errors=True)


def search_failing(ctx):
    run_worlds(ctx, 10, False)
    return None


def run(ctx):
    ctx.cov["trusted_base"] = BASE_TRUST + ["C05's generator (ground truth of accessibility) and resolution model (Shared/Resolve.v)", "hand-written catalogue for %, USE, ONLY:, CALL contexts"]
    ctx.assumptions = [
        "partial: theorems cover candidates of an executable statement (local, host, USE with ONLY/renames/PRIVATE); the context classifier and the `%`, USE, ONLY:, CALL "
        "contexts are covered by the catalogue only; module names, intrinsics and keywords offered besides user entities are not constrained",
        "known findings shared with C05: C12:rename-lost-diamond, C12:private-reexport (same root causes in get_use_tree)",
    ]
    ctx.cov["rule"] = ("C05 workspaces; 8 random use sites per workspace, prefix of length 1, 2 or the whole name, typed in lower or upper case; labels restricted to the "
                       "generator's spelling pool compared with the ground truth; all labels checked against the prefix; non-trivial = at least one accessible name matches")
    ctx.proof_obligations(search=lambda: search_failing(ctx))
    q = ctx.quick()
    check_catalogue(ctx)
    run_worlds(ctx, 30 if q else 600, False)
    run_worlds(ctx, 8 if q else 150, True)


def replay(ctx, path):
    with open(path) as f:
        doc = json.load(f)
    print(json.dumps(doc.get("input"), indent=1)[:3000])
    shutil.rmtree(ctx.workdir, ignore_errors=True)
    return 0
