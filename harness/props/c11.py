"""C11 -- hover and signature help restate the declaration and its documentation.

Obligations: C11/Props.v (documentation attachment machine; active-parameter rule).
Trace validation: add_doc / add_scope / add_variable recorded while the implementation parses generated modules; final
doc strings compared with C11.Model.drun.  serve_signature's activeParameter compared with C11.Model.active_param.
Oracle: generated declarations and procedures with known type, selector, attributes, value, documentation, argument order:
hover and signatureHelp must restate them (compared after normalising case and blanks).
"""
from __future__ import annotations

import json
import os
import re
import shutil
import tempfile

from .. import impl
from ..common import BASE_TRUST, clist, cnat, cstr

IMPORTS = "From Coq Require Import List.\nImport ListNotations.\nFrom FV Require Import Base.Str C11.Model."
TYPES = ["integer", "real", "real(8)", "real(kind=8)", "integer(kind=4)", "logical", "complex", "character(len=10)", "character(len=*)", "double precision", "type(box_t)"]
WORDS = ["the count", "tolerance of the solver", "an index", "flag: verbose output", "units are m/s", "see eq. (3)", "a, b and c"]


class Decl:
    def __init__(self, rng, name, arg=False, module_level=False):
        r = rng
        self.name = name
        self.type = r.choice(TYPES if not arg else [t for t in TYPES if t != "character(len=*)"] + ["character(len=*)"])
        attrs = []
        self.value = None
        if arg:
            if r.random() < 0.8:
                attrs.append("intent(%s)" % r.choice(["in", "out", "inout"]))
            if r.random() < 0.3:
                attrs.append("optional")
            if r.random() < 0.3 and not self.type.startswith("character(len=*)"):
                attrs.append(r.choice(["dimension(:)", "dimension(3)", "dimension(:,:)"]))
        else:
            if self.type == "character(len=*)" or r.random() < 0.25:
                if self.type.startswith(("integer", "real", "double")):
                    attrs.append("parameter"); self.value = r.choice(["3", "42", "2*3", "selected_real_kind(15, 307)", "max(1, 2)", "2*(3+4)", "(1 + (2*3))", "size([1, 2, 3])"]) if self.type.startswith("integer") else r.choice(["1.0", "2.5e0", "real(3)", "real(max(1, 2))*2.0"])
                elif self.type.startswith("character"):
                    attrs.append("parameter"); self.value = r.choice(['"x y"', "'a!b'", '"it''s"'.replace("''", "")])
                elif self.type == "logical":
                    attrs.append("parameter"); self.value = ".true."
            if "parameter" not in attrs:
                for a in r.sample(["allocatable", "target", "save", r.choice(["dimension(3)", "dimension(:,:)"])], r.choice([0, 0, 1, 2])):
                    if a.startswith("dimension(:") and "allocatable" not in attrs:
                        attrs.append("allocatable")
                    if a == "allocatable" and not any(x.startswith("dimension") for x in attrs):
                        continue
                    attrs.append(a)
            if self.type == "character(len=*)" and "parameter" not in attrs:
                self.type = "character(len=10)"
            if module_level and r.random() < 0.2:
                attrs.append(r.choice(["public", "private"]))
        self.attrs = list(dict.fromkeys(attrs))
        k = r.choice(["none", "none", "after", "before", "before2", "after2"])
        self.doc_kind = k
        self.doc = None if k == "none" else [r.choice(WORDS)] + ([r.choice(WORDS)] if k.endswith("2") else [])

    def lines(self, ind):
        head = ", ".join([self.type] + self.attrs)
        if r_case(self.name):
            head = head.upper()
        stmt = "%s%s :: %s%s" % (ind, head, self.name, "" if self.value is None else " = " + self.value)
        if self.doc is None:
            return [stmt], 0
        if self.doc_kind == "after":
            return [stmt + " !< " + self.doc[0]], 0
        if self.doc_kind == "after2":
            return [stmt + " !< " + self.doc[0], ind + "  !! " + self.doc[1]], 0
        if self.doc_kind == "before":
            return [ind + "!> " + self.doc[0], stmt], 1
        return [ind + "!> " + self.doc[0], ind + "!! " + self.doc[1], stmt], 2


def r_case(name):
    return sum(map(ord, name)) % 3 == 0


def norm(s):
    return re.sub(r"\s+", "", s).upper()


def parse_hover(value):
    """-> (code lines, doc text)"""
    m = re.match(r"```\w*\n(.*?)\n```(?:\n-----\n(.*))?$", value, re.S)
    if not m:
        return None, None
    return m.group(1).split("\n"), m.group(2)


def split_top(s, sep=","):
    out, depth, cur, quote = [], 0, "", None
    for c in s:
        if quote:
            cur += c
            if c == quote:
                quote = None
            continue
        if c in "'\"":
            quote = c
        if c in "([":
            depth += 1
        elif c in ")]":
            depth -= 1
        if c == sep and depth == 0:
            out.append(cur); cur = ""
        else:
            cur += c
    out.append(cur)
    return out


def decl_equiv(code_line, d):
    """does the hover line restate declaration d?"""
    if "::" not in code_line:
        return "no :: in %r" % code_line
    left, right = code_line.split("::", 1)
    parts = [norm(p) for p in split_top(left)]
    if parts[0] != norm(d.type):
        return "type %r, declared %r" % (parts[0], d.type)
    got_attrs = sorted(parts[1:])
    want_attrs = sorted(norm(a) for a in d.attrs if a not in ("public", "private"))
    got_attrs = [a for a in got_attrs if a not in ("PUBLIC", "PRIVATE")]
    if got_attrs != want_attrs:
        return "attributes %s, declared %s" % (got_attrs, want_attrs)
    rhs = right.strip()
    name = rhs.split("=")[0].strip()
    if name.lower() != d.name.lower():
        return "name %r, declared %r" % (name, d.name)
    val = rhs.split("=", 1)[1].strip() if "=" in rhs else None
    if d.value is not None and (val is None or norm(val) != norm(d.value)):
        return "value %r, declared %r" % (val, d.value)
    return None


def doc_equiv(doc, d):
    want = None if d.doc is None else " ".join(d.doc)
    got = None if doc is None else " ".join(doc.split())
    if (want or None) != (got or None):
        return "documentation %r, written %r" % (doc, d.doc)
    return None


class Plain:
    """an expected declaration written out explicitly"""

    def __init__(self, name, type_, attrs):
        self.name, self.type, self.attrs, self.value, self.doc, self.doc_kind = name, type_, attrs, None, None, "none"


def group_decl(rng, k):
    """one statement declaring several names, some with their own shape or length; -> (statement text, [Plain])"""
    r = rng
    kind = r.choice(["num", "num", "char", "ext"])
    if kind == "ext":
        n1, n2 = "g_f%d" % k, "g_g%d" % k
        return ["real :: %s, %s" % (n1, n2), "external %s" % n1], [Plain(n1, "real", ["external"]), Plain(n2, "real", [])]
    if kind == "char":
        base = r.choice(["character(len=5)", "character"])
        names = []
        outs = []
        for i in range(r.choice([2, 3])):
            nm = "g_c%d_%d" % (k, i)
            form = r.choice(["plain", "len", "len+dim"])
            if form == "plain":
                names.append(nm); outs.append(Plain(nm, base, []))
            elif form == "len":
                names.append("%s*7" % nm); outs.append(Plain(nm, "character*7", []))
            else:
                names.append("%s(2)*4" % nm); outs.append(Plain(nm, "character*4", ["dimension(2)"]))
        return ["%s :: %s" % (base, ", ".join(names))], outs
    base = r.choice(["real", "integer", "real(8)"])
    gdim = r.choice([None, "dimension(3)"])
    other = r.choice([[], ["save"], ["target"]])
    names, outs = [], []
    for i in range(r.choice([2, 3])):
        nm = "g_n%d_%d" % (k, i)
        if r.random() < 0.5:
            names.append("%s(4)" % nm); outs.append(Plain(nm, base, other + ["dimension(4)"]))
        else:
            names.append(nm); outs.append(Plain(nm, base, other + ([gdim] if gdim else [])))
    return ["%s :: %s" % (", ".join([base] + ([gdim] if gdim else []) + other), ", ".join(names))], outs


class Module:
    def __init__(self, rng, k):
        r = rng
        self.name = "m_hov%d" % k
        self.groups = [group_decl(r, 10 * k + i) for i in range(r.choice([0, 1, 2]))]
        self.decls = [Decl(r, "v_%s%d" % (r.choice("abcdefgh"), i), module_level=True) for i in range(r.choice([2, 3, 5]))]
        self.procs = []
        for j in range(r.choice([1, 2, 3])):
            is_fun = r.random() < 0.4
            args = [Decl(r, "a_%s%d" % (r.choice("pqrs"), i), arg=True) for i in range(r.choice([0, 1, 2, 4]))]
            # optional arguments last, as the interfaces of real codes do
            args.sort(key=lambda a: "optional" in a.attrs)
            self.procs.append({"name": "%s_%d_%d" % ("fn" if is_fun else "sb", k, j), "fun": is_fun, "args": args,
                               "doc": r.choice([None, [r.choice(WORDS)]])})

    def render(self):
        import random as _random
        self_r = _random.Random(len(self.decls) * 7 + len(self.procs))
        L = ["module %s" % self.name, "  implicit none", "  type :: box_t", "    integer :: w", "  end type box_t"]
        self.decl_line = {}
        for d in self.decls:
            ls, off = d.lines("  ")
            self.decl_line[d.name] = len(L) + off
            L += ls
        self.group_items = []
        for stmts, outs in self.groups:
            for o in outs:
                self.decl_line[o.name] = len(L)
                self.group_items.append(o)
            L += ["  " + st for st in stmts]
        L.append("contains")
        self.proc_line, self.arg_line, self.calls = {}, {}, []
        for p in self.procs:
            if p["doc"]:
                L.append("  !> " + p["doc"][0])
            self.proc_line[p["name"]] = len(L)
            argl = ", ".join(a.name for a in p["args"])
            L.append("  %s %s(%s)%s" % ("function" if p["fun"] else "subroutine", p["name"], argl, " result(res_v)" if p["fun"] else ""))
            for a in p["args"]:
                ls, off = a.lines("    ")
                self.arg_line[(p["name"], a.name)] = len(L) + off
                L += ls
            if p["fun"]:
                L.append("    integer :: res_v")
                L.append("    res_v = 1")
            L.append("  end %s %s" % ("function" if p["fun"] else "subroutine", p["name"]))
        L.append("  subroutine driver_%s()" % self.name)
        L.append("    integer :: tmp_i")
        for p in self.procs:
            # one call line per procedure; cursor positions are computed from the rendered text
            vals = [self_r.choice(["x%d" % i, "max(%d, 2)" % i, '"a,b"', "(/ %d, 2 /)" % i, "f2(g(1, 2), 3)", "x%d /= x0" % i,
                                   # a comparison whose left side is spelled like another dummy argument of the procedure
                                   "%s == %d" % (p["args"][(i + 1) % len(p["args"])].name, i)]) for i in range(len(p["args"]))]
            self.calls.append((p, len(L), "    call %s(" % p["name"] if not p["fun"] else "    tmp_i = %s(" % p["name"], vals))
            L.append(("    call %s(" % p["name"] if not p["fun"] else "    tmp_i = %s(" % p["name"]) + ", ".join(vals) + ")")
            kw = [a for a in p["args"]]
            if kw:
                a = kw[-1]
                # the value of a keyword argument may itself contain `=` characters (relational operators)
                val = self_r.choice(["1", "1", "tmp_i >= 2", "tmp_i == 0", "tmp_i /= 0", "(tmp_i <= 2)"])
                self.calls.append((p, len(L), ("    call %s(" % p["name"] if not p["fun"] else "    tmp_i = %s(" % p["name"]), ["%s = %s" % (a.name.upper(), val)], a.name))
                L.append(("    call %s(" % p["name"] if not p["fun"] else "    tmp_i = %s(" % p["name"]) + "%s = %s)" % (a.name.upper(), val))
        L.append("  end subroutine driver_%s" % self.name)
        L.append("end module %s" % self.name)
        return L


def check_def_list(ctx, n):
    """separate_def_list (the entities of a declaration) against C11.DefList.separate: generated entity lists (array specs,
    constructors, initialisations, blanks around) -- ground truth = the entities written, trimmed -- and arbitrary strings of
    brackets, commas and blanks (None when the list starts with an empty piece).  Literal-free texts: strip_strings is the
    identity on them."""
    from fortls.helper_functions import separate_def_list
    coq = ctx.coq("From FV Require Import Base.Str C11.DefList.\n"
                  "Definition olist_eqb (a b : option (list str)) : bool := match a, b with None, None => true | Some x, Some y => lines_eqb x y | _, _ => false end.\n")
    r = ctx.rng
    exprs, meta = [], []

    def ent():
        name = r.choice(["a", "b1", "var", "x_y"])
        spec = r.choice(["", "", "(3)", "(2, n)", "(:, :)", "(size(v, 1), 0:k)"])
        init = r.choice(["", "", " = 1", " = [1, 2, 3]", " = (/ 1, 2 /)", " => null()", " = f(g(1, 2), [3, 4])", "*8"])
        return r.choice(["", " ", "\t "]) + name + spec + init + r.choice(["", " ", "  "])
    for k in range(n):
        if k % 2 == 0:
            ents = [ent() for _ in range(r.choice([1, 2, 3, 5]))]
            text = ",".join(ents)
            truth = [e.strip() for e in ents]
        else:
            text = "".join(r.choice("ab ,,()[]=\t1") for _ in range(r.choice([0, 1, 2, 4, 7, 12])))
            truth = None
        got = separate_def_list(text)
        ctx.count(("def-list", text), got is not None and len(got) > 1)
        if truth is not None and got != truth:
            ctx.report("C11:def-list", "the entities of a declaration are not read back as written: %r" % (got,),
                       {"kind": "counterexample", "input": {"text": text}, "implementation": got, "oracle": truth})
        exprs.append("olist_eqb (separate ascii_blank %s) %s" % (cstr(text), "None" if got is None else "(Some %s)" % clist(got, cstr)))
        meta.append({"text": text, "implementation": got})
    bad = coq.bools(exprs, shard=400)
    ctx.cov["traces_validated_against_impl"] += len(exprs)
    for b in bad[:3]:
        ctx.report("C11:def-list-model-mismatch", "separate_def_list differs from C11.DefList.separate on %r" % meta[b]["text"],
                   {"kind": "broken-correspondence", "input": meta[b], "correspondence": "FV.C11.DefList.separate vs helper_functions.separate_def_list"}, found_input=False)


def check_level(ctx, n):
    """C11/Level.v against the implementation: get_paren_level (the text of the parenthesis level the cursor is in) and
    strip_strings (literals removed) on generated call prefixes -- ground truth = the number of arguments written -- and on
    arbitrary strings of brackets, quotes and commas."""
    from fortls.helper_functions import get_paren_level, strip_strings
    coq = ctx.coq("From FV Require Import Base.Str C11.Level.\n")
    r = ctx.rng
    exprs, meta = [], []

    def arg(depth=0):
        parts = []
        for _ in range(r.choice([1, 1, 2, 3])):
            k = r.choice(["name", "num", "lit", "call", "arr", "blank", "kw"] if depth < 2 else ["name", "num", "lit"])
            if k == "name":
                parts.append(r.choice(["a", "x_1", "n"]))
            elif k == "num":
                parts.append(r.choice(["1", "2.5", "1_8"]))
            elif k == "lit":
                parts.append(r.choice(["'x,('", '"a)b"', "'say \"hi\"'", '"it\'s, ok"', "''", '"]"']))
            elif k == "call":
                parts.append(r.choice(["f", "g", ""]) + "(" + ", ".join(arg(depth + 1) for _ in range(r.choice([0, 1, 2, 3]))) + ")")
            elif k == "arr":
                parts.append("[" + ", ".join(arg(depth + 1) for _ in range(r.choice([1, 2]))) + "]")
            elif k == "kw":
                parts.append("key=")
            else:
                parts.append(" ")
        return "".join(parts)
    for k in range(n):
        if k % 2 == 0:
            args = [arg() for _ in range(r.choice([1, 2, 3, 4]))]
            pre = r.choice(["call s", "  x = f", "y = g(1, 2) + h", "call obj%bound", "print *, 'p(' // t", ""])
            text = pre + "(" + ",".join(args)
            truth = len(args) - 1
        else:
            text = "".join(r.choice("ab(),[]'\" =") for _ in range(r.choice([0, 1, 2, 4, 7, 12])))
            truth = None
        level = get_paren_level(text)[0]
        bare = strip_strings(level)
        index = len(bare.split(",")) - 1
        ctx.count(("level", text), truth is not None and truth > 0)
        if truth is not None and index != truth:
            ctx.report("C11:argument-index", "the cursor is in argument %d of the call, the level text gives %d" % (truth, index),
                       {"kind": "counterexample", "input": {"text": text}, "implementation": {"level": level, "without_literals": bare, "index": index}, "oracle": truth})
        exprs.append("str_eqb (paren_level %s) %s && str_eqb (remove None %s) %s && Nat.eqb (argument_index %s) %s"
                     % (cstr(text), cstr(level), cstr(level), cstr(bare), cstr(text), cnat(index)))
        meta.append({"text": text, "implementation": {"level": level, "without_literals": bare, "index": index}})
    bad = coq.bools(exprs, shard=400)
    ctx.cov["traces_validated_against_impl"] += len(exprs)
    for b in bad[:3]:
        ctx.report("C11:level-model-mismatch", "get_paren_level / strip_strings differ from C11.Level on %r" % meta[b]["text"],
                   {"kind": "broken-correspondence", "input": meta[b], "correspondence": "FV.C11.Level.paren_level/remove vs helper_functions.get_paren_level/strip_strings"}, found_input=False)


def check_paren_match(ctx, n):
    """find_paren_match against C11.ParenMatch: generated texts between parentheses (nested calls, literals holding parentheses and
    the other quote) followed by `)` and a tail -- ground truth = the length of the text -- and arbitrary strings; then end to end:
    declarations whose kind/length selector holds such a literal are indexed."""
    from fortls.helper_functions import find_paren_match
    coq = ctx.coq("From FV Require Import Base.Str C11.ParenMatch.\n"
                  "Definition onat_eqb (a b : option nat) : bool := match a, b with None, None => true | Some x, Some y => Nat.eqb x y | _, _ => false end.\n")
    r = ctx.rng
    exprs, meta = [], []

    def inner(depth=0):
        parts = []
        for _ in range(r.choice([1, 2, 3])):
            k = r.choice(["name", "lit", "call", "op"] if depth < 3 else ["name", "lit", "op"])
            if k == "name":
                parts.append(r.choice(["len", "n", "kind=8", "x_1", "3"]))
            elif k == "lit":
                parts.append(r.choice(['"can\'t"', "'say \"hi'", '"a)b"', "'(('", "''", '"it\'s (so)"', "'x'"]))
            elif k == "call":
                parts.append(r.choice(["len", "f", ""]) + "(" + inner(depth + 1) + ")")
            else:
                parts.append(r.choice(["+", ", ", "*", " ", "=", ":"]))
        return "".join(parts)
    for k in range(n):
        if k % 2 == 0:
            a = inner()
            text = a + ")" + r.choice(["", " :: x", ") + f(1)", " 'q)'"])
            truth = len(a)
        else:
            text = "".join(r.choice("ab()'\" ,") for _ in range(r.choice([0, 1, 2, 4, 7, 12])))
            truth = None
        got = find_paren_match(text)
        ctx.count(("paren-match", text), "'" in text or '"' in text)
        if truth is not None and got != truth:
            ctx.report("C11:closing-parenthesis", "the closing parenthesis of %r is found at %d, it stands at %d" % (text, got, truth),
                       {"kind": "counterexample", "input": {"text": text}, "implementation": got, "oracle": truth})
        exprs.append("onat_eqb (find_paren_match %s) %s" % (cstr(text), "None" if got < 0 else "(Some %s)" % cnat(got)))
        meta.append({"text": text, "implementation": got})
    bad = coq.bools(exprs, shard=400)
    ctx.cov["traces_validated_against_impl"] += len(exprs)
    for b in bad[:3]:
        ctx.report("C11:paren-match-model-mismatch", "find_paren_match differs from C11.ParenMatch on %r" % meta[b]["text"],
                   {"kind": "broken-correspondence", "input": meta[b], "correspondence": "FV.C11.ParenMatch.find_paren_match vs helper_functions.find_paren_match"}, found_input=False)
    # end to end
    from fortls.parsers.internal.parser import FortranFile
    lines = ["module pm_m", "character(len=len(\"can't\")) :: pm_a", "character(len=len('say \"hi')), parameter :: pm_b = 'x'", "integer(kind=kind(1)) :: pm_c",
             "character(len=3) :: pm_d", "end module pm_m"]
    f = FortranFile("/nonexistent/pm.f90")
    f.set_contents(list(lines))
    try:
        names = sorted(c.name.lower() for c in f.parse().get_scopes()[0].children)
    except Exception as ex:      # noqa: BLE001
        names = repr(ex)
    ctx.count(("paren-match-e2e",), True)
    if names != ["pm_a", "pm_b", "pm_c", "pm_d"]:
        ctx.report("C11:closing-parenthesis", "declarations whose selector holds a literal with the other quote character are not all indexed: %s" % (names,),
                   {"kind": "counterexample", "input": {"text": "\n".join(lines)}, "implementation": names, "oracle": ["pm_a", "pm_b", "pm_c", "pm_d"]})


def check_param_reader(ctx, n):
    """read_parameter_value (the balanced scan behind PARAMETER values in hover) against C11.Param.read_parameter_value"""
    try:
        from fortls.parsers.internal.parser import read_parameter_value
    except ImportError:
        ctx.report("C11:param-reader-missing", "fortls.parsers.internal.parser.read_parameter_value is gone",
                   {"kind": "broken-correspondence", "correspondence": "FV.C11.Param.read_parameter_value vs parser.read_parameter_value"}, found_input=False)
        return
    coq = ctx.coq("From FV Require Import Base.Str C11.Param.\n"
                  "Definition ostr_eqb (a b : option str) : bool := match a, b with None, None => true | Some x, Some y => str_eqb x y | _, _ => false end.\n")
    r = ctx.rng

    def value(depth=0):
        parts = []
        for _ in range(r.choice([1, 1, 2, 3])):
            k = r.choice(["num", "name", "op", "call", "lit", "arr", "blank", "amp"] if depth < 3 else ["num", "name", "op"])
            if k == "num":
                parts.append(r.choice(["1", "42", "2.5e0", "1_8"]))
            elif k == "name":
                parts.append(r.choice(["n", "wp", "huge", "x_1"]))
            elif k == "op":
                parts.append(r.choice(["+", "*", "-", "/", "**", " // ", "==", ".and."]))
            elif k == "call":
                parts.append(r.choice(["max", "kind", "f", ""]) + "(" + ", ".join(value(depth + 1) for _ in range(r.choice([0, 1, 2]))) + ")")
            elif k == "lit":
                parts.append(r.choice(['"a, (b"', "'x!y'", '"it\'s"', "'say \"hi\"'", "''", '"]"']))
            elif k == "arr":
                parts.append(r.choice(["[%s]", "(/ %s /)"]) % ", ".join(value(depth + 1) for _ in range(r.choice([1, 2, 3]))))
            elif k == "blank":
                parts.append(r.choice([" ", "  ", "\t"]))
            else:
                parts.append(" & ")
        return "".join(parts)
    exprs, meta = [], []
    for _ in range(n):
        head = r.choice(["", " ", "  ", "(3)", "(2, n) ", "(:)", "*3", "*(*) ", " * 10 ", "(2)*4 "])
        eq = r.choice([" = ", "=", " =", "= ", " => ", "", " == "])
        tail = r.choice(["", ", other = 2", ", b(2) = [1, 2]", " ! note, with (parens", ",", ")", " ]"])
        text = head + eq + value() + tail
        if r.random() < 0.15:       # malformed: brackets or literals left open
            text = text.replace(")", "", 1) if r.random() < 0.5 else text + r.choice(['"open', "(", "'"])
        got = read_parameter_value(text)
        ctx.count(("param-reader", text), got is not None)
        exprs.append("ostr_eqb (read_parameter_value %s) %s" % (cstr(text), "None" if got is None else "(Some %s)" % cstr(got)))
        meta.append({"text": text, "implementation": got})
    bad = coq.bools(exprs, shard=400)
    ctx.cov["traces_validated_against_impl"] += len(exprs)
    for b in bad[:3]:
        ctx.report("C11:param-reader-mismatch", "read_parameter_value differs from C11.Param.read_parameter_value", {"kind": "broken-correspondence", "input": meta[b],
                   "correspondence": "FV.C11.Param.read_parameter_value vs parser.read_parameter_value"}, found_input=False)


def check_directed(ctx):
    """hand-written cases outside the generator's reach: documentation comments of a fixed-form file (flags C, c, *, d), and
    signature help through `%` on a binding with a passed-object dummy argument"""
    root = tempfile.mkdtemp(prefix="verif_c11_d_")
    try:
        fixed = ("      subroutine axpy(n, alpha, x)\nC> number of elements\n      integer n\n*> the factor\n      double precision alpha\n"
                 "      double precision x(n) !< the vector\nc     an ordinary comment\n      x = alpha * x\n      end\n")
        tb = ("module tbm\n implicit none\n type :: vec\n  real :: v\n contains\n  procedure :: scale => scale_impl\n  procedure, pass(self) :: axpy => axpy_impl\n end type vec\ncontains\n"
              " subroutine scale_impl(self, factor, shift)\n  class(vec), intent(inout) :: self\n  real, intent(in) :: factor !< the factor\n  real, intent(in), optional :: shift\n"
              "  self%v = self%v * factor\n end subroutine scale_impl\n subroutine axpy_impl(a, x, self)\n  real, intent(in) :: a\n  real, intent(in) :: x\n  class(vec), intent(inout) :: self\n"
              "  self%v = a * x\n end subroutine axpy_impl\n subroutine driver()\n  type(vec) :: w\n  call w%scale(2.0, shift=1.0)\n  call w%axpy(0.5, 1.5)\n end subroutine driver\nend module tbm\n")
        pf, pt = os.path.join(root, "axpy.f"), os.path.join(root, "tbm.f90")
        for p, t in ((pf, fixed), (pt, tb)):
            with open(p, "w") as f:
                f.write(t)
        srv, conn = impl.make_server(root, extra=["--nthreads", "1", "--use_signature_help"])
        impl.did_open(srv, pf); impl.did_open(srv, pt)

        def hover(path, line, ch):
            r, _ = impl.request(srv, conn, "textDocument/hover", impl.pos_params(path, line, ch))
            return r[2]["contents"]["value"] if r and r[0] == "r" and r[2] else ""
        for (line, ch, name, doc) in ((2, 15, "n", "number of elements"), (4, 24, "alpha", "the factor"), (5, 24, "x", "the vector")):
            v = hover(pf, line, ch)
            ctx.count(("directed", "fixed-doc", name), True)
            if doc not in v or (name == "n" and "the factor" in v):
                ctx.report("C11:hover-doc", "fixed-form documentation comment of %s is not shown (or another one is): expected %r" % (name, doc),
                           {"kind": "counterexample", "input": {"text": fixed, "entity": name, "line": line}, "implementation": v})
        for (line, upto, labels, active, what) in ((23, "  call w%scale(2.0", ["factor", "shift"], 0, "first argument of a binding with the default passed object"),
                                                   (23, "  call w%scale(2.0, shift=1.0", ["factor", "shift"], 1, "keyword argument of that binding"),
                                                   (24, "  call w%axpy(0.5", ["a", "x"], 0, "first argument, PASS names the last dummy"),
                                                   (24, "  call w%axpy(0.5, 1.5", ["a", "x"], 1, "second argument, PASS names the last dummy")):
            r, _ = impl.request(srv, conn, "textDocument/signatureHelp", impl.pos_params(pt, line, len(upto)))
            ctx.count(("directed", "bound-signature", upto), True)
            got_labels, got_active = None, None
            if r and r[0] == "r" and r[2]:
                got_labels = [q["label"].split("=")[0].lower() for q in r[2]["signatures"][0]["parameters"]]
                got_active = r[2].get("activeParameter")
            if got_labels != labels or got_active != active:
                ctx.report("C11:signature-bound", "signature help through %%: %s: parameters %s active %s, expected %s active %s" % (what, got_labels, got_active, labels, active),
                           {"kind": "counterexample", "input": {"text": tb, "line": line, "character": len(upto)}, "implementation": {"parameters": got_labels, "active": got_active}})
    finally:
        shutil.rmtree(root, ignore_errors=True)


def check_oracle(ctx, n):
    coq = ctx.coq(IMPORTS)
    exprs, meta = [], []
    for k in range(n):
        m = Module(ctx.rng, k)
        lines = m.render()
        text = "\n".join(lines) + "\n"
        root = tempfile.mkdtemp(prefix="verif_c11_")
        try:
            path = os.path.join(root, "m.f90")
            with open(path, "w") as f:
                f.write(text)
            srv, conn = impl.make_server(root, extra=["--nthreads", "1"])
            impl.did_open(srv, path)
            ctx.count(("module", text), True, sample={"text": text[:500]})

            def hover(line, name):
                col = lines[line].lower().rfind(name.lower())
                r, _ = impl.request(srv, conn, "textDocument/hover", impl.pos_params(path, line, col + 1))
                if not r or r[0] != "r" or not r[2]:
                    return None
                return r[2]["contents"]["value"]

            for d in m.decls + m.group_items:
                v = hover(m.decl_line[d.name], d.name)
                inp = {"text": text, "entity": d.name, "line": m.decl_line[d.name]}
                if v is None:
                    ctx.report("C11:no-hover", "no hover on the declaration of %s" % d.name, {"kind": "counterexample", "input": inp})
                    continue
                code, doc = parse_hover(v)
                prob = (decl_equiv(code[0], d) if code else "unparsable hover") or doc_equiv(doc, d)
                ctx.count(("hover", text, d.name), d.doc is not None or bool(d.attrs))
                if prob:
                    sig = "C11:hover-decl"
                    if prob.startswith("documentation") and d.doc_kind.startswith("before") and any(x.doc_kind.startswith("after") for x in m.decls):
                        sig = "C11:hover-doc"
                    elif prob.startswith("documentation"):
                        sig = "C11:hover-doc"
                    ctx.report(sig, "hover on %s does not restate its declaration: %s" % (d.name, prob), {"kind": "counterexample", "input": inp, "implementation": v})
            for p in m.procs:
                v = hover(m.proc_line[p["name"]], p["name"])
                inp = {"text": text, "entity": p["name"], "line": m.proc_line[p["name"]]}
                if v is None:
                    ctx.report("C11:no-hover", "no hover on procedure %s" % p["name"], {"kind": "counterexample", "input": inp})
                    continue
                code, doc = parse_hover(v)
                head = code[0] if code else ""
                mm = re.search(r"\((.*?)\)", head)
                got_args = [a.split("=")[0].strip().lower() for a in split_top(mm.group(1))] if mm and mm.group(1).strip() else []
                want_args = [a.name.lower() for a in p["args"]]
                ctx.count(("hover-proc", text, p["name"]), len(want_args) > 1)
                if got_args != want_args:
                    ctx.report("C11:hover-args", "hover on %s lists the dummy arguments %s, declared order %s" % (p["name"], got_args, want_args),
                               {"kind": "counterexample", "input": inp, "implementation": v})
                    continue
                arg_lines = [c for c in code[1:] if "::" in c]
                for a, cl in zip(p["args"], arg_lines):
                    prob = decl_equiv(cl, a)
                    if prob:
                        ctx.report("C11:hover-arg-decl", "hover on %s restates argument %s wrongly: %s" % (p["name"], a.name, prob),
                                   {"kind": "counterexample", "input": inp, "implementation": v})
                        break
                if len(arg_lines) not in ((len(p["args"]), len(p["args"]) + 1) if p["fun"] else (len(p["args"]),)):     # a function also shows its result variable
                    ctx.report("C11:hover-arg-decl", "hover on %s shows %d argument declarations for %d arguments" % (p["name"], len(arg_lines), len(p["args"])),
                               {"kind": "counterexample", "input": inp, "implementation": v})
                if p["doc"] and (doc is None or p["doc"][0] not in doc):
                    ctx.report("C11:hover-doc", "hover on %s lacks its documentation %r" % (p["name"], p["doc"][0]), {"kind": "counterexample", "input": inp, "implementation": v})
            # signature help: every argument slot by position, and the keyword form
            for call in m.calls:
                p, line, head, vals = call[:4]
                kwname = call[4] if len(call) > 4 else None
                pos = len(head)
                for i, vtxt in enumerate(vals):
                    ch = pos + len(vtxt)        # after the argument text: at the top level of this call
                    r, _ = impl.request(srv, conn, "textDocument/signatureHelp", impl.pos_params(path, line, max(ch, pos)))
                    inp = {"text": text, "line": line, "character": max(ch, pos), "procedure": p["name"]}
                    if not p["args"]:
                        pos += len(vtxt) + 2
                        continue
                    if not r or r[0] != "r" or not r[2]:
                        ctx.report("C11:no-signature", "no signature help inside the call of %s" % p["name"], {"kind": "counterexample", "input": inp, "implementation": repr(r)[:200]})
                        break
                    sigs = r[2]["signatures"][0]
                    labels = [q["label"] for q in sigs["parameters"]]
                    want_i = i if kwname is None else [a.name for a in p["args"]].index(kwname)
                    ctx.count(("signature", text, line, i), True)
                    if [l.split("=")[0].lower() for l in labels] != [a.name.lower() for a in p["args"]]:
                        ctx.report("C11:signature-params", "signature help of %s lists %s, declared %s" % (p["name"], labels, [a.name for a in p["args"]]),
                                   {"kind": "counterexample", "input": inp, "implementation": r[2]})
                        break
                    if r[2].get("activeParameter") != want_i:
                        ctx.report("C11:signature-active", "active parameter %s, the cursor is in argument %d (%s)" % (r[2].get("activeParameter"), want_i, "keyword" if kwname else "position"),
                                   {"kind": "counterexample", "input": inp, "implementation": r[2].get("activeParameter"), "oracle": want_i})
                        break
                    # model correspondence: arg strings as the code before the cursor splits them
                    upto = lines[line][len(head):max(ch, pos)]
                    args = split_top(upto)
                    exprs.append("Nat.eqb (active_param %s %s) %s" % (clist(args, cstr), clist(labels, cstr), cnat(r[2]["activeParameter"])))
                    meta.append(inp)
                    pos += len(vtxt) + 2
        finally:
            shutil.rmtree(root, ignore_errors=True)
    bad = coq.bools(exprs, shard=300)
    ctx.cov["traces_validated_against_impl"] += len(exprs)
    for b in bad[:3]:
        ctx.report("C11:model-impl-mismatch", "activeParameter differs from C11.Model.active_param", {"kind": "broken-correspondence", "input": meta[b],
                   "correspondence": "FV.C11.Model.active_param vs serve_signature"}, found_input=False)


def check_doc_machine(ctx, n):
    """record add_doc/add_scope/add_variable while parsing; compare final doc strings with the model"""
    from fortls.parsers.internal.ast import FortranAST
    from fortls.parsers.internal.parser import FortranFile, splitlines
    coq = ctx.coq(IMPORTS)
    exprs, meta = [], []
    for k in range(n):
        m = Module(ctx.rng, 100 + k)
        text = "\n".join(m.render()) + "\n"
        events, objs, docs = [], [], {}
        orig = (FortranAST.add_doc, FortranAST.add_scope, FortranAST.add_variable)

        def add_doc(self, doc_string, forward=False, _o=orig[0]):
            if doc_string:
                did = docs.setdefault((len(events), doc_string), len(docs) + 1)
                events.append("(%s %s)" % ("Fwd" if forward else "Back", cnat(did)))
            return _o(self, doc_string, forward)

        def add_scope(self, new_scope, *a, _o=orig[1], **kw):
            objs.append(new_scope); events.append("(Obj %s)" % cnat(len(objs)))
            return _o(self, new_scope, *a, **kw)

        def add_variable(self, new_var, _o=orig[2]):
            objs.append(new_var); events.append("(Obj %s)" % cnat(len(objs)))
            return _o(self, new_var)
        FortranAST.add_doc, FortranAST.add_scope, FortranAST.add_variable = add_doc, add_scope, add_variable
        try:
            f = FortranFile("/nonexistent/doc.f90")
            f.set_contents(splitlines(text))
            f.parse()
        finally:
            FortranAST.add_doc, FortranAST.add_scope, FortranAST.add_variable = orig
        by_text = {}
        for (idx, t), did in docs.items():
            by_text[did] = t
        want = []
        for i, o in enumerate(objs):
            ds = getattr(o, "doc_str", None)
            ids = [did for did, t in by_text.items() if t == ds]
            want.append((i + 1, ds, ids))
        # the model's answer must be one of the ids whose text equals the final doc string (texts may repeat), or None when undocumented
        conds = []
        for (e, ds, ids) in want:
            if ds is None:
                conds.append("match dlookup %s (docs s) with None => true | Some _ => false end" % cnat(e))
            else:
                conds.append("match dlookup %s (docs s) with Some d => existsb (Nat.eqb d) %s | None => false end" % (cnat(e), clist(ids, cnat)))
        exprs.append("(let s := drun %s in %s)" % (clist(events), " && ".join(conds) if conds else "true"))
        meta.append({"text": text})
        ctx.count(("docmachine", text), len(docs) > 1)
    bad = coq.bools(exprs, shard=60)
    ctx.cov["traces_validated_against_impl"] += len(exprs)
    for b in bad[:3]:
        ctx.report("C11:model-impl-mismatch", "final documentation strings differ from C11.Model.drun on the recorded events", {"kind": "broken-correspondence", "input": meta[b],
                   "correspondence": "FV.C11.Model.drun vs FortranAST.add_doc/add_scope/add_variable"}, found_input=False)


def search_failing(ctx):
    check_oracle(ctx, 10)
    return None


def run(ctx):
    ctx.cov["trusted_base"] = BASE_TRUST + ["declaration/procedure generator and the normalising comparison of hover text (harness/props/c11.py)"]
    ctx.assumptions = [
        "partial: the theorems cover documentation attachment and the active-parameter rule; the declaration readers (read_var_def, parse_var_keywords, parse_kind) and the hover "
        "renderers are covered by the oracle only",
        "equivalence of declarations is modulo letter case and blanks; PUBLIC/PRIVATE attributes are not required in hover",
        "a declaration with both a `!>` block and a trailing `!<` comment shows the trailing one only (model witness C11_refuted_two_docs_one_entity); the generator writes one kind per entity",
    ]
    ctx.cov["rule"] = ("modules of 2-5 variables (11 type spellings, PARAMETER values incl. strings with ! and quotes, ALLOCATABLE/TARGET/SAVE/DIMENSION, upper-case spellings, "
                       "documentation before/after, one or two lines) and 1-3 procedures with 0-4 arguments (INTENT, OPTIONAL, DIMENSION, documentation); hover on every declaration and "
                       "procedure; signature help in every argument slot by position and by keyword")
    ctx.proof_obligations(search=lambda: search_failing(ctx))
    q = ctx.quick()
    check_doc_machine(ctx, 40 if q else 800)
    check_oracle(ctx, 25 if q else 500)
    check_directed(ctx)
    check_param_reader(ctx, 300 if q else 6000)
    check_def_list(ctx, 300 if q else 6000)
    check_level(ctx, 300 if q else 6000)
    check_paren_match(ctx, 300 if q else 6000)


def replay(ctx, path):
    with open(path) as f:
        doc = json.load(f)
    print(json.dumps(doc.get("input"), indent=1)[:3000])
    shutil.rmtree(ctx.workdir, ignore_errors=True)
    return 0
