"""C10 -- after saving, answers depend only on the files, not on the edit history.

Obligations: C10/Props.v (workspace index invariant; quiescent state = fresh state under H1; hash short-cut).
Trace validation: generated histories run on the in-process server; after every event the buffers and the object tree
are compared with C10.Model.  Oracle: at quiescence an identical query battery (symbols, definition, hover, references,
completion, diagnostics) is sent to the long-lived server and to a fresh server on the final directory.
"""
from __future__ import annotations

import json
import os
import re
import shutil
import tempfile

from .. import impl
from ..common import BASE_TRUST, clist, cnat

IMPORTS = "From Coq Require Import List Arith Bool.\nImport ListNotations.\nOpen Scope bool_scope.\nFrom FV Require Import C10.Model."
NAMES = ["alpha", "beta", "gam", "delta", "eps", "zeta", "eta", "theta"]


class Spec:
    """a file as data: kind, unit name, and what it declares; text() renders it"""

    def __init__(self, kind, name, uses=(), base=None):
        self.kind, self.name, self.uses, self.base = kind, name, list(uses), base
        self.comps = ["c_one"]
        self.vars = ["v_one"]
        self.procs = ["p_one"]
        self.body = 0
        self.extra_unit = None

    def clone(self):
        import copy
        return copy.deepcopy(self)

    def units(self):
        u = [self.name.lower()] if self.kind != "incbase" else []
        if self.extra_unit:
            u.append(self.extra_unit.lower())
        return u

    def text(self):
        L = []
        if self.kind == "module":
            L.append("module %s" % self.name)
            for u in self.uses:
                L.append("  use %s" % u)
            L.append("  implicit none")
            for v in self.vars:
                L.append("  integer :: %s_%s" % (v, self.name))
            tn = "t_%s" % self.name
            L.append("  type%s :: %s" % ((", extends(t_%s)" % self.base) if self.base else "", tn))
            for c in self.comps:
                L.append("    integer :: %s_%s" % (c, self.name))
            L.append("  end type %s" % tn)
            L.append("contains")
            for p in self.procs:
                L.append("  subroutine %s_%s(obj)" % (p, self.name))
                L.append("    type(%s), intent(inout) :: obj" % tn)
                for c in self.comps:
                    L.append("    obj%%%s_%s = %d" % (c, self.name, self.body))
                if self.base:
                    L.append("    obj%%c_one_%s = 2" % self.base)
                    L.append("    obj%")
                L.append("  end subroutine %s_%s" % (p, self.name))
            L.append("end module %s" % self.name)
        else:
            L.append("program %s" % self.name)
            for u in self.uses:
                L.append("  use %s" % u)
            L.append("  implicit none")
            for u in self.uses:
                L.append("  type(t_%s) :: o_%s" % (u, u))
            for u in self.uses:
                L.append("  o_%s%%c_one_%s = v_one_%s" % (u, u, u))
                L.append("  call p_one_%s(o_%s)" % (u, u))
                L.append("  o_%s%%" % u)
            L.append("  print *, %d" % self.body)
            L.append("end program %s" % self.name)
        if self.kind == "far":
            L = ["module %s" % self.name, "  use m_ext", "  implicit none", "  type(t_m_ext) :: far_obj", "  type(t_m_base) :: far_base", "contains",
                 "  subroutine far_work_%d()" % self.body, "    far_obj%c_one_m_base = 1", "    far_obj%c_one_m_ext = 2", "    far_obj%", "    far_base%",
                 "    call p_one_m_base(far_base)", "  end subroutine far_work_%d" % self.body, "end module %s" % self.name]
        if self.kind == "incbase":
            L = ["type :: inc_base_t"] + ["  integer :: %s_inc" % c for c in self.comps] + ["end type inc_base_t"]
        if self.kind == "shapes":
            L = ["module %s" % self.name, "  implicit none", "  include 'g_incbase.f90'", "  type, extends(inc_base_t) :: circ_t"] + \
                ["    integer :: %s_circ" % c for c in self.comps] + ["  end type circ_t", "contains", "  subroutine circ_work(c)", "    type(circ_t), intent(inout) :: c",
                 "    c%%c_one_inc = %d" % self.body, "    c%", "  end subroutine circ_work", "end module %s" % self.name]
        if self.extra_unit:
            L += ["module %s" % self.extra_unit, "  integer :: from_extra_%s" % self.name, "end module %s" % self.extra_unit]
        return "\n".join(L) + "\n"


def mutate(spec, rng, all_specs):
    s = spec.clone()
    if s.kind in ("far", "incbase", "shapes"):
        k2 = rng.choice(["body", "comp+", "comp-"])
        if k2 == "comp+" and s.kind != "far":
            s.comps.append("c_%s" % rng.choice(NAMES))
        elif k2 == "comp-" and len(s.comps) > 1:
            s.comps.pop()
        else:
            s.body += 1
        s.comps = list(dict.fromkeys(s.comps))
        return s
    k = rng.choice(["comp+", "comp-", "comp~", "var+", "proc+", "proc~", "body", "rename", "collide", "extra", "uncollide"])
    if k == "comp+":
        s.comps.append("c_%s" % rng.choice(NAMES))
    elif k == "comp-" and len(s.comps) > 1:
        s.comps.pop(rng.randrange(1, len(s.comps)))
    elif k == "comp~" and len(s.comps) > 1:
        s.comps[rng.randrange(1, len(s.comps))] = "c_%s" % rng.choice(NAMES)
    elif k == "var+":
        s.vars.append("v_%s" % rng.choice(NAMES))
    elif k == "proc+":
        s.procs.append("p_%s" % rng.choice(NAMES))
    elif k == "proc~" and len(s.procs) > 1:
        s.procs[-1] = "p_%s" % rng.choice(NAMES)
    elif k == "rename":
        s.name = "m_%s" % rng.choice(NAMES) if s.kind == "module" else "prog_%s" % rng.choice(NAMES)
    elif k == "collide" and all_specs:
        other = rng.choice(all_specs)
        s.extra_unit = other.name
    elif k == "extra":
        s.extra_unit = "x_%s" % rng.choice(NAMES)
    elif k == "uncollide":
        s.extra_unit = None
    else:
        s.body += 1
    s.comps = list(dict.fromkeys(s.comps)); s.vars = list(dict.fromkeys(s.vars)); s.procs = list(dict.fromkeys(s.procs))
    return s


class World:
    def __init__(self, rng):
        self.rng = rng
        self.root = tempfile.mkdtemp(prefix="verif_c10_")
        base = Spec("module", "m_base")
        ext = Spec("module", "m_ext", uses=["m_base"], base="m_base")
        main = Spec("program", "prog_main", uses=["m_base", "m_ext"])
        side = Spec("module", "m_side")
        self.disk = {"a_base.f90": base, "b_ext.f90": ext, "c_main.f90": main}
        if rng.random() < 0.5:
            self.disk["d_side.f90"] = side
        if rng.random() < 0.6:
            self.disk["f_far.f90"] = Spec("far", "m_far")
        if rng.random() < 0.5:
            self.disk["g_incbase.f90"] = Spec("incbase", "incbase")
            self.disk["h_shapes.f90"] = Spec("shapes", "m_shapes")
        for n, sp in self.disk.items():
            self.write(n, sp)
        self.buf = {}          # open documents: name -> Spec of the buffer
        self.known = set(self.disk)     # files the server knows
        self.srv, self.conn = impl.make_server(self.root, extra=["--nthreads", "1"])
        # the user looks around first: queries fill the caches held inside syntax-tree nodes
        battery(self.srv, self.conn, self.root, sorted(self.disk))
        self.names = {}        # unit name -> nat
        self.texts = {}        # text -> nat (body id)
        self.log = []
        self.collided = False

    def path(self, n):
        return os.path.join(self.root, n)

    def write(self, n, sp):
        with open(self.path(n), "w") as f:
            f.write(sp.text())

    def close(self):
        shutil.rmtree(self.root, ignore_errors=True)

    # --- model encoding
    def nid(self, u):
        return self.names.setdefault(u, len(self.names) + 10)

    def pid(self, n):
        return sorted(set(list(self.disk) + list(self.known) + ["e_new.f90", "f_new.f90"])).index(n) if False else {"a_base.f90": 1, "b_ext.f90": 2, "c_main.f90": 3, "d_side.f90": 4, "e_new.f90": 5, "f_new.f90": 6, "f_far.f90": 7, "g_incbase.f90": 8, "h_shapes.f90": 9}[n]

    def tx(self, sp):
        t = sp.text().rstrip("\n")
        b = self.texts.setdefault(t, len(self.texts))
        return "(TX %s %s)" % (clist([self.nid(u) for u in sp.units()], cnat), cnat(b))

    # --- events
    def event(self):
        r = self.rng
        k = r.choice(["open", "change", "change", "change", "save", "save", "close", "write", "create", "delete", "query", "query"])
        if k == "query":
            # queries in between fill the caches held inside syntax-tree nodes (types of variables, inherited members)
            n = r.choice(sorted(self.known & set(self.disk)) or sorted(self.disk))
            battery(self.srv, self.conn, self.root, [n])
            return [], ("query", n)
        if k == "open":
            n = r.choice(sorted(self.disk))
            impl.did_open(self.srv, self.path(n))
            self.buf[n] = self.disk[n].clone()
            self.known.add(n)
            return "Save %s" % cnat(self.pid(n)), ("open", n)
        if k == "change" and self.buf:
            n = r.choice(sorted(self.buf))
            sp = mutate(self.buf[n], r, list(self.disk.values()))
            f = self.srv.workspace.get(self.path(n))
            nl = len(f.contents_split) if f else 0
            impl.did_change(self.srv, self.path(n), [{"range": {"start": {"line": 0, "character": 0}, "end": {"line": nl + 1, "character": 0}}, "text": sp.text()}])
            self.buf[n] = sp
            return "Change %s %s" % (cnat(self.pid(n)), self.tx(sp)), ("change", n, sp.text())
        if k == "save" and self.buf:
            n = r.choice(sorted(self.buf))
            self.disk[n] = self.buf[n].clone()
            self.write(n, self.disk[n])
            impl.did_save(self.srv, self.path(n))
            return ["WriteDisk %s %s" % (cnat(self.pid(n)), self.tx(self.disk[n])), "Save %s" % cnat(self.pid(n))], ("save", n)
        if k == "close" and self.buf:
            n = r.choice(sorted(self.buf))
            impl.did_close(self.srv, self.path(n))
            del self.buf[n]
            return "Save %s" % cnat(self.pid(n)), ("close", n)
        if k == "write":
            n = r.choice(sorted(self.disk))
            if n in self.buf:
                return None
            sp = mutate(self.disk[n], r, list(self.disk.values()))
            self.disk[n] = sp
            self.write(n, sp)
            return "WriteDisk %s %s" % (cnat(self.pid(n)), self.tx(sp)), ("write", n, sp.text())
        if k == "create":
            n = r.choice(["e_new.f90", "f_new.f90"])
            if n in self.disk:
                return None
            sp = Spec("module", "m_new_%s" % n[0], uses=r.choice([[], ["m_base"]]))
            self.disk[n] = sp
            self.write(n, sp)
            impl.did_open(self.srv, self.path(n))
            self.buf[n] = sp.clone()
            self.known.add(n)
            return ["WriteDisk %s %s" % (cnat(self.pid(n)), self.tx(sp)), "Save %s" % cnat(self.pid(n))], ("create", n)
        if k == "delete" and len(self.disk) > 2:
            n = r.choice(sorted(self.disk))
            os.unlink(self.path(n))
            del self.disk[n]
            self.buf.pop(n, None)
            impl.did_close(self.srv, self.path(n))
            self.known.discard(n)
            return "DeleteClose %s" % cnat(self.pid(n)), ("delete", n)
        return None

    def quiesce(self):
        evs = []
        for n in sorted(self.buf):
            self.disk[n] = self.buf[n].clone()
            self.write(n, self.disk[n])
            impl.did_save(self.srv, self.path(n))
            evs += ["WriteDisk %s %s" % (cnat(self.pid(n)), self.tx(self.disk[n])), "Save %s" % cnat(self.pid(n))]
        # files changed on disk behind the server's back are saved (opened) too: every file of the directory is known and current
        for n in sorted(self.disk):
            impl.did_save(self.srv, self.path(n))
            evs.append("Save %s" % cnat(self.pid(n)))
        return evs

    def server_view(self):
        files = {}
        for n in sorted(self.known | set(self.disk)):
            f = self.srv.workspace.get(self.path(n))
            if f is not None and f.contents_split is not None:
                files[self.pid(n)] = "\n".join(f.contents_split)
        tree = {}
        for k, v in self.srv.obj_tree.items():
            if v[1] is not None:        # intrinsic modules carry no path
                tree[k] = os.path.basename(v[1])
        return files, tree


def battery(srv, conn, root, names):
    """canonical answers of a query battery"""
    out = {}
    for n in sorted(names):
        path = os.path.join(root, n)
        f = srv.workspace.get(path)
        if f is None:
            out[n] = "unknown"
            continue
        lines = list(f.contents_split)
        ans = {}
        r, _ = impl.request(srv, conn, "textDocument/documentSymbol", {"textDocument": {"uri": impl.uri(path)}})
        ans["symbols"] = sorted((s["name"], s["kind"], s["location"]["range"]["start"]["line"], s.get("containerName") or "") for s in (r[2] or [])) if r and r[0] == "r" else repr(r)
        d, e = srv.get_diagnostics(impl.uri(path))
        ans["diagnostics"] = sorted((x["message"], x["severity"], x["range"]["start"]["line"]) for x in (d or [])) if e is None else repr(e)
        pos = []
        for li, line in enumerate(lines):
            for m in re.finditer(r"[A-Za-z_]\w*", line):
                pos.append((li, m.start() + 1))
        for (li, ch) in pos:
            for meth in ("textDocument/definition", "textDocument/hover"):
                r, _ = impl.request(srv, conn, meth, impl.pos_params(path, li, ch))
                ans["%s@%d:%d" % (meth[13:], li, ch)] = canon(r, root)
        for (li, ch) in pos[::5]:
            p = impl.pos_params(path, li, ch)
            p["context"] = {"includeDeclaration": True}
            r, _ = impl.request(srv, conn, "textDocument/references", p)
            ans["references@%d:%d" % (li, ch)] = canon(r, root)
        for li, line in enumerate(lines):
            if line.rstrip().endswith("%"):
                r, _ = impl.request(srv, conn, "textDocument/completion", impl.pos_params(path, li, len(line.rstrip())))
                ans["completion@%d" % li] = sorted(i["label"] for i in (r[2] or [])) if r and r[0] == "r" else repr(r)
        out[n] = ans
    r, _ = impl.request(srv, conn, "workspace/symbol", {"query": ""})
    out["<workspace/symbol>"] = sorted((s["name"], s["kind"], os.path.basename(s["location"]["uri"]), s["location"]["range"]["start"]["line"], s.get("containerName") or "") for s in (r[2] or [])) if r and r[0] == "r" else repr(r)
    return out


def canon(r, root):
    if r is None:
        return None
    if r[0] == "e":
        return "error: %s" % (r[3],)
    res = r[2]

    def c(o):
        if isinstance(o, dict):
            return {k: (os.path.basename(v) if k == "uri" else c(v)) for k, v in sorted(o.items())}
        if isinstance(o, list):
            return sorted((c(x) for x in o), key=lambda x: json.dumps(x, sort_keys=True))
        return o
    return c(res)


def run_histories(ctx, n, length):
    coq = ctx.coq(IMPORTS)
    exprs, meta = [], []
    for k in range(n):
        w = World(ctx.rng)
        try:
            d0 = clist(sorted(w.disk), lambda nm: "(%s, %s)" % (cnat(w.pid(nm)), w.tx(w.disk[nm])))
            evs = []
            log = []
            ok = True
            for _ in range(ctx.rng.randrange(3, length)):
                e = w.event()
                if e is None:
                    continue
                ev, what = e
                evs += ev if isinstance(ev, list) else [ev]
                log.append(list(what)[:2])
                ok = ok and compare_state(ctx, w, d0, evs, log, exprs, meta)
                if not ok:
                    break
            if not ok:
                continue
            evs += w.quiesce()
            log.append(["quiesce"])
            compare_state(ctx, w, d0, evs, log, exprs, meta)
            # the property: battery on the long-lived server vs a fresh server on the final directory
            names = sorted(w.disk)
            got = battery(w.srv, w.conn, w.root, names)
            srv2, conn2 = impl.make_server(w.root, extra=["--nthreads", "1"])
            for nm in names:
                impl.did_open(srv2, w.path(nm))
            want = battery(srv2, conn2, w.root, names)
            texts = {nm: w.disk[nm].text() for nm in names}
            units = [u for nm in names for u in w.disk[nm].units()]
            collision_now = len(units) != len(set(units))
            ctx.count(("history", json.dumps(log), json.dumps(texts, sort_keys=True)), len(log) > 5, sample={"history": log[:12]})
            if collision_now:
                # two files of the final directory define the same unit: not a conforming program, the fresh index depends on the load order (C15's premise)
                ctx.cov["skipped_final_collision"] = ctx.cov.get("skipped_final_collision", 0) + 1
                continue
            if got != want:
                diff = first_diff(got, want)
                sig = "C10:history"
                if w.collided:
                    sig = "C10:name-collision"
                elif diff[0].startswith("g_incbase.f90"):
                    # what the included file itself reports (its entities were re-parented into the including module)
                    sig = "C10:include-reparenting"
                ctx.report(sig, "after saving everything the long-lived server answers differently from a fresh server: %s" % diff[0],
                           {"kind": "counterexample", "input": {"history": log, "final_files": texts, "events": evs}, "implementation": diff[1], "oracle": diff[2]})
        finally:
            w.close()
    bad = coq.bools(exprs, shard=150)
    ctx.cov["traces_validated_against_impl"] += len(exprs)
    for b in bad[:3]:
        ctx.report("C10:model-impl-mismatch", "workspace buffers / object tree differ from C10.Model after a history", {"kind": "broken-correspondence", "input": meta[b],
                   "correspondence": "FV.C10.Model.step vs serve_onSave/onChange/onClose + update_workspace_file"}, found_input=False)


class ForcedRng:
    """random.Random wrapper that makes every optional file of the World present"""

    def __init__(self, rng):
        self._r = rng

    def random(self):
        return 0.0

    def __getattr__(self, k):
        return getattr(self._r, k)


DIRECTED = [
    ("component added to the base type, saved", [("open", "a_base.f90"), ("edit", "a_base.f90", "comp+"), ("save", "a_base.f90")]),
    ("component removed from the extended type, saved", [("open", "b_ext.f90"), ("edit", "b_ext.f90", "comp+"), ("save", "b_ext.f90"), ("edit", "b_ext.f90", "comp-"), ("save", "b_ext.f90")]),
    ("base module renamed, saved", [("open", "a_base.f90"), ("edit", "a_base.f90", "rename"), ("save", "a_base.f90")]),
    ("including file edited, saved", [("open", "h_shapes.f90"), ("edit", "h_shapes.f90", "body"), ("save", "h_shapes.f90")]),
    ("included file gets a component, saved", [("open", "g_incbase.f90"), ("edit", "g_incbase.f90", "comp+"), ("save", "g_incbase.f90")]),
    ("base file rewritten behind the server, then opened", [("write", "a_base.f90", "comp+"), ("open", "a_base.f90")]),
    ("procedure added to the base module, saved twice", [("open", "a_base.f90"), ("edit", "a_base.f90", "proc+"), ("save", "a_base.f90"), ("save", "a_base.f90")]),
]


def apply_edit(sp, kind):
    s = sp.clone()
    if kind == "comp+":
        s.comps.append("c_zz%d" % len(s.comps))
    elif kind == "comp-" and len(s.comps) > 1:
        s.comps.pop()
    elif kind == "rename":
        s.name = s.name + "_renamed"
    elif kind == "proc+":
        s.procs.append("p_zz%d" % len(s.procs))
    else:
        s.body += 1
    return s


def run_directed(ctx):
    """scripted histories that touch each kind of cross-file state once, on a workspace with every optional file present"""
    for what, script in DIRECTED:
        w = World(ForcedRng(ctx.rng))
        try:
            for step in script:
                n = step[1]
                if step[0] == "open":
                    impl.did_open(w.srv, w.path(n)); w.buf[n] = w.disk[n].clone()
                elif step[0] == "edit":
                    sp = apply_edit(w.buf[n], step[2])
                    f = w.srv.workspace.get(w.path(n))
                    impl.did_change(w.srv, w.path(n), [{"range": {"start": {"line": 0, "character": 0}, "end": {"line": len(f.contents_split) + 1, "character": 0}}, "text": sp.text()}])
                    w.buf[n] = sp
                elif step[0] == "save":
                    w.disk[n] = w.buf[n].clone(); w.write(n, w.disk[n]); impl.did_save(w.srv, w.path(n))
                elif step[0] == "write":
                    w.disk[n] = apply_edit(w.disk[n], step[2]); w.write(n, w.disk[n])
            w.quiesce()
            names = sorted(w.disk)
            got = battery(w.srv, w.conn, w.root, names)
            srv2, conn2 = impl.make_server(w.root, extra=["--nthreads", "1"])
            for nm in names:
                impl.did_open(srv2, w.path(nm))
            want = battery(srv2, conn2, w.root, names)
            ctx.count(("directed", what), True)
            if got != want:
                diff = first_diff(got, want)
                sig = "C10:include-reparenting" if diff[0].startswith("g_incbase.f90") else "C10:history"
                ctx.report(sig, "%s: the long-lived server answers differently from a fresh server: %s" % (what, diff[0]),
                           {"kind": "counterexample", "input": {"history": [list(x) for x in script], "final_files": {nm: w.disk[nm].text() for nm in names}},
                            "implementation": diff[1], "oracle": diff[2]})
        finally:
            w.close()

# ---------------------------------------------------------------- scripted histories over literal texts
# (name, files, steps); steps: ("open", f) ("ins", f, line, col, text) ("del", f, line, c0, c1) [single-line, no line break]
# ("full", f, text) [whole-buffer change] ("save", f) [writes the buffer] ("write", f, text) [disk only] ("delete", f) [unlink + didClose]
SCRIPTED = [
    ("three-level EXTENDS chain over three files, the top type edited and saved",
     {"sg.f90": "module sg\n implicit none\n type :: g_t\n  integer :: g_old\n end type g_t\nend module sg\n",
      "sp.f90": "module sp\n use sg\n implicit none\n type, extends(g_t) :: p_t\n  integer :: p_one\n end type p_t\nend module sp\n",
      "sc.f90": "module sc\n use sp\n implicit none\n type, extends(p_t) :: c_t\n  integer :: c_one\n end type c_t\ncontains\n subroutine use_c(x)\n  type(c_t) :: x\n  x%g_old = 1\n  x%g_new = 3\n  x%p_one = 2\n  x%\n end subroutine use_c\nend module sc\n"},
     [("open", "sg.f90"), ("open", "sp.f90"), ("open", "sc.f90"), ("query", "sc.f90"),
      ("full", "sg.f90", "module sg\n implicit none\n type :: g_t\n  integer :: g_new\n  real :: g_more\n end type g_t\nend module sg\n"), ("save", "sg.f90")]),
    ("a declaration commented out by typing one character, a doc comment reworded, then saved",
     {"sd.f90": "module sd\n implicit none\n integer :: keep_me\n integer :: drop_me\n !> the old words\n integer :: documented\nend module sd\n",
      "su.f90": "program su\n use sd\n implicit none\n keep_me = 1\n documented = 2\nend program su\n"},
     [("open", "sd.f90"), ("open", "su.f90"), ("query", "su.f90"), ("ins", "sd.f90", 3, 1, "!"), ("del", "sd.f90", 4, 8, 11), ("ins", "sd.f90", 4, 8, "new"), ("save", "sd.f90")]),
    ("nothing but a doc comment reworded by one-line edits, then saved (no edit that asks for a re-parse in between)",
     {"sd2.f90": "module sd2\n implicit none\n !> the old words\n integer :: documented2\nend module sd2\n",
      "su2.f90": "program su2\n use sd2\n implicit none\n documented2 = 2\nend program su2\n"},
     [("open", "sd2.f90"), ("open", "su2.f90"), ("query", "su2.f90"), ("del", "sd2.f90", 2, 8, 11), ("ins", "sd2.f90", 2, 8, "new"), ("save", "sd2.f90")]),
    ("an included file edited down to a comment and saved",
     {"si_main.f90": "module si_main\n implicit none\n include 'si_inc.f90'\ncontains\n subroutine s()\n  k_from_inc = 1\n end subroutine s\nend module si_main\n",
      "si_inc.f90": "integer :: k_from_inc\n"},
     [("open", "si_main.f90"), ("open", "si_inc.f90"), ("query", "si_main.f90"), ("full", "si_inc.f90", "! nothing left\n"), ("save", "si_inc.f90")]),
    ("a single-line edit discarded by closing the document, which is then opened and saved again",
     {"sh.f90": "module sh\n implicit none\n integer :: hits\nend module sh\n",
      "sv.f90": "program sv\n use sh\n implicit none\n hits = 1\nend program sv\n"},
     [("open", "sh.f90"), ("open", "sv.f90"), ("query", "sv.f90"), ("ins", "sh.f90", 2, 15, "_total"), ("close", "sh.f90"), ("open", "sh.f90"), ("save", "sh.f90")]),
    ("the ancestor module of a submodule (in its own file, no USE) is edited and saved",
     {"st_mod.f90": "module st_mod\n implicit none\n integer :: counter\n interface\n  module subroutine bump()\n  end subroutine bump\n end interface\nend module st_mod\n",
      "st_impl.f90": "submodule (st_mod) st_impl\ncontains\n module subroutine bump()\n  counter = counter + 1\n end subroutine bump\nend submodule st_impl\n"},
     [("open", "st_mod.f90"), ("open", "st_impl.f90"), ("query", "st_impl.f90"),
      ("full", "st_mod.f90", "module st_mod\n implicit none\n ! now a real\n real(8) :: counter\n interface\n  module subroutine bump()\n  end subroutine bump\n end interface\nend module st_mod\n"),
      ("save", "st_mod.f90")]),
    ("the procedure a type-bound procedure is bound to is renamed in its own file and saved",
     {"tb_impl.f90": "module tb_impl\ncontains\n subroutine doit()\n end subroutine doit\nend module tb_impl\n",
      "tb_type.f90": "module tb_type\n use tb_impl\n type tt\n contains\n  procedure, nopass :: run => doit\n end type\ncontains\n subroutine u()\n  type(tt) :: x\n  call x%run()\n end subroutine\nend module tb_type\n"},
     [("open", "tb_impl.f90"), ("open", "tb_type.f90"), ("query", "tb_type.f90"),
      ("full", "tb_impl.f90", "module tb_impl\ncontains\n subroutine doit_renamed()\n end subroutine doit_renamed\nend module tb_impl\n"), ("save", "tb_impl.f90")]),
    ("the parent module of a submodule is deleted",
     {"sq_par.f90": "module sq_par\n implicit none\n integer :: pvar\n interface\n  module subroutine foo()\n  end subroutine foo\n end interface\nend module sq_par\n",
      "sq_sub.f90": "submodule (sq_par) sq_sub\ncontains\n module subroutine foo()\n  pvar = 1\n end subroutine foo\nend submodule sq_sub\n"},
     [("open", "sq_par.f90"), ("open", "sq_sub.f90"), ("query", "sq_sub.f90"), ("delete", "sq_par.f90")]),
]


def run_scripted(ctx):
    for what, files, steps in SCRIPTED:
        root = tempfile.mkdtemp(prefix="verif_c10_s_")
        try:
            buf = {}
            for n, t in files.items():
                with open(os.path.join(root, n), "w") as f:
                    f.write(t)
            srv, conn = impl.make_server(root, extra=["--nthreads", "1"])
            for st in steps:
                n = st[1]
                path = os.path.join(root, n)
                if st[0] == "open":
                    impl.did_open(srv, path); buf[n] = files[n]
                elif st[0] == "query":
                    battery(srv, conn, root, [n])          # fills whatever the handlers cache
                elif st[0] in ("ins", "del"):
                    lines = buf[n].split("\n")
                    li = st[2]
                    if st[0] == "ins":
                        c0 = c1 = st[3]; txt = st[4]
                    else:
                        c0, c1, txt = st[3], st[4], ""
                    lines[li] = lines[li][:c0] + txt + lines[li][c1:]
                    buf[n] = "\n".join(lines)
                    impl.did_change(srv, path, [{"range": {"start": {"line": li, "character": c0}, "end": {"line": li, "character": c1}}, "text": txt}])
                elif st[0] == "full":
                    nl = len(srv.workspace[path].contents_split)
                    impl.did_change(srv, path, [{"range": {"start": {"line": 0, "character": 0}, "end": {"line": nl + 1, "character": 0}}, "text": st[2]}])
                    buf[n] = st[2]
                elif st[0] == "save":
                    with open(path, "w") as f:
                        f.write(buf[n])
                    impl.did_save(srv, path)
                elif st[0] == "write":
                    with open(path, "w") as f:
                        f.write(st[2])
                elif st[0] == "close":
                    impl.did_close(srv, path); buf.pop(n, None)       # unsaved edits are discarded: the disk text counts again
                    with open(path) as f:
                        files = dict(files); files[n] = f.read()
                elif st[0] == "delete":
                    os.unlink(path); impl.did_close(srv, path); buf.pop(n, None)
            names = sorted(n for n in files if os.path.exists(os.path.join(root, n)))
            for n in names:                                  # quiescent: every open document saved and closed
                if n in buf:
                    impl.did_close(srv, os.path.join(root, n))
            got = battery(srv, conn, root, names)
            srv2, conn2 = impl.make_server(root, extra=["--nthreads", "1"])
            want = battery(srv2, conn2, root, names)
            ctx.count(("scripted", what), True)
            if got != want:
                diff = first_diff(got, want)
                ctx.report("C10:history", "%s: the long-lived server answers differently from a fresh server: %s" % (what, diff[0]),
                           {"kind": "counterexample", "input": {"history": [list(x) for x in steps], "files": files}, "implementation": diff[1], "oracle": diff[2]})
        finally:
            shutil.rmtree(root, ignore_errors=True)


def first_diff(a, b):
    for k in sorted(set(a) | set(b)):
        if a.get(k) != b.get(k):
            x, y = a.get(k), b.get(k)
            if isinstance(x, dict) and isinstance(y, dict):
                for kk in sorted(set(x) | set(y)):
                    if x.get(kk) != y.get(kk):
                        return ("%s %s" % (k, kk), x.get(kk), y.get(kk))
            return (k, x, y)
    return ("?", None, None)


def compare_state(ctx, w, d0, evs, log, exprs, meta):
    """server buffers and object tree against the model after the events so far"""
    files, tree = w.server_view()
    cur = [u for nm in w.known for sp in [w.buf.get(nm) or w.disk.get(nm)] if sp is not None for u in sp.units()]
    if len(cur) != len(set(cur)):
        w.collided = True
    # model expectation is computed in Coq: compare through ids
    fl = clist(sorted(files), lambda p: "(%s, %s)" % (cnat(p), cnat(w.texts.get(files[p].rstrip("\n"), 9999))))
    tr = clist(sorted(tree), lambda k: "(%s, %s)" % (cnat(w.nid(k)), cnat(w.pid(tree[k]))))
    keys = clist(sorted(w.names.values()), cnat)
    e = ("(let '(s, d) := run (fresh %s, %s) %s in "
         "forallb (fun pb => match lookup (fst pb) (files s) with Some f => Nat.eqb (t_body (buf f)) (snd pb) | None => false end) %s && "
         "(Nat.eqb (length (files s)) %d%%nat) && "
         "forallb (fun k => match lookup k (objtree s), lookup k %s with Some a, Some b => Nat.eqb a b | None, None => true | _, _ => false end) %s)") % (
        d0, d0, clist(evs, lambda x: "(%s)" % x), fl, len(files), tr, keys)
    exprs.append(e)
    meta.append({"history": list(log), "events": list(evs)})
    ctx.count(("state", json.dumps(log)), True)
    return True


def witness_collision(ctx):
    """the witness of C10_refuted_name_collision on the implementation: file 1 briefly defines the unit of file 2"""
    root = tempfile.mkdtemp(prefix="verif_c10_w_")
    try:
        a, b, c = (os.path.join(root, n) for n in ("a.f90", "b.f90", "c.f90"))
        ta = "module ma\n integer :: xa\nend module ma\n"
        tb = "module mb\n integer :: xb\nend module mb\n"
        tc = "program p\n use mb\n xb = 1\nend program p\n"
        for pth, t in ((a, ta), (b, tb), (c, tc)):
            with open(pth, "w") as f:
                f.write(t)
        srv, conn = impl.make_server(root, extra=["--nthreads", "1"])
        for pth in (a, b, c):
            impl.did_open(srv, pth)
        whole = {"start": {"line": 0, "character": 0}, "end": {"line": 9, "character": 0}}
        impl.did_change(srv, a, [{"range": whole, "text": "module mb\n integer :: xa\nend module mb\n"}])
        impl.did_change(srv, a, [{"range": whole, "text": ta}])
        impl.did_save(srv, a)
        r, _ = impl.request(srv, conn, "textDocument/definition", impl.pos_params(c, 2, 2))
        ctx.count(("witness", "name-collision"), True)
        ok = r and r[0] == "r" and r[2] and r[2]["uri"].endswith("b.f90")
        if not ok:
            ctx.report("C10:name-collision", "a buffer that briefly defined the module of another file and was changed back and saved leaves that module without owner: "
                       "'use mb' no longer resolves (a fresh server resolves it)", {"kind": "counterexample", "input": {"files": {"a.f90": ta, "b.f90": tb, "c.f90": tc},
                       "history": ["didChange a.f90: module mb", "didChange a.f90: module ma", "didSave a.f90", "definition c.f90 2:2"]}, "implementation": r and r[2]})
    finally:
        shutil.rmtree(root, ignore_errors=True)


def search_failing(ctx):
    run_histories(ctx, 10, 14)
    return None


def run(ctx):
    ctx.cov["trusted_base"] = BASE_TRUST + ["history generator and query battery (harness/props/c10.py); the model sees a text as its top-level unit names plus an opaque body"]
    ctx.assumptions = [
        "partial: the theorem covers the workspace index (buffers, object tree); cross-file links (type caches, inheritance, includes) are covered by the battery only",
        "H1: top-level unit names never collide across files (known finding C10:name-collision otherwise); every created file is opened, every deleted file is closed",
        "preprocessor state (pp_defs/include_dirs accumulated on the server) is outside the model",
    ]
    ctx.cov["rule"] = ("workspaces of 3-4 files (module with a type, module extending it, program using both, side module); histories of open/change/save/close/"
                       "write-behind/create/delete events with edits that add/remove/rename components, variables, procedures, units, incl. colliding unit names; "
                       "state compared with the model after every event; battery at quiescence; non-trivial = more than 5 events")
    ctx.proof_obligations(search=lambda: search_failing(ctx))
    q = ctx.quick()
    witness_collision(ctx)
    run_directed(ctx)
    run_scripted(ctx)
    run_histories(ctx, 60 if q else 1000, 14 if q else 30)


def replay(ctx, path):
    with open(path) as f:
        doc = json.load(f)
    print(json.dumps(doc.get("input", {}).get("history"), indent=0)[:3000])
    shutil.rmtree(ctx.workdir, ignore_errors=True)
    return 0
