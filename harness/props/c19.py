"""C19 -- command line and configuration file are interchangeable; the file wins.

Obligations: C19/Props.v over Gen/GenOptions.v (regenerated from interface.py/langserver.py).
Correspondence: C19.Model.load_config (loader + validator) against LangServer.serve_initialize.
Oracle: effective attribute, observable effects, message/no-exception contract for faulty files.
"""
from __future__ import annotations

import json
import os
import shutil
import tempfile

from .. import impl
from ..common import BASE_TRUST, clist
from ..translators import options as opt_tr

IMPORTS = ("From Coq Require Import NArith Bool.\nFrom FV Require Import C19.Syntax C19.Model C19.Props Gen.GenOptions.\n"
           "Open Scope string_scope.\n")

SRC_A = "module ma\n integer :: xa\ncontains\n subroutine sa(q)\n  integer :: q\n  q = abs(q)\n end subroutine sa\nend module ma\n"


# a declaration whose rendering depends on options (attribute order, letter case of intrinsics), hovered before and after an edit
SRC_R = "subroutine sr(arr, n)\n integer, intent(in) :: n\n real, intent(inout), target, dimension(n) :: arr\n arr = abs(arr)\nend subroutine sr\n"


def make_root():
    root = tempfile.mkdtemp(prefix="verif_c19_")
    for d in ("d1", "d2", "inc1", "inc2", "ex1", "ex2"):
        os.makedirs(os.path.join(root, d))
        with open(os.path.join(root, d, "f_%s.f90" % d), "w") as f:
            f.write("module m_%s\n integer :: v_%s\nend module m_%s\n" % (d, d, d))
    with open(os.path.join(root, "a.f90"), "w") as f:
        f.write(SRC_A)
    with open(os.path.join(root, "b.zz"), "w") as f:
        f.write("module mb\nend module mb\n")
    with open(os.path.join(root, "r.f90"), "w") as f:
        f.write(SRC_R)
    return root


# two distinct non-default values per option: (cli value, file value)
def option_values(root, name, kind):
    j = os.path.join
    special = {
        "source_dirs": (["d1"], ["d2"]), "include_dirs": (["inc1"], ["inc2"]), "excl_paths": (["ex1"], ["ex2"]),
        "incl_suffixes": ([".zz"], [".yy"]), "excl_suffixes": (["_a.f90"], ["_b.f90"]), "pp_suffixes": ([".h"], [".fh"]),
        "pp_defs": ({"A": "1"}, {"B": "2"}), "hover_language": ("lang1", "lang2"), "nthreads": (2, 3),
        "recursion_limit": (1200, 1300), "max_line_length": (80, 90), "max_comment_line_length": (81, 91),
    }
    if name in special:
        return special[name]
    if kind == "KBool":
        return (True, False)
    raise KeyError(name)


def cli_args(name, kind, val):
    flag = "--" + name
    if kind == "KBool":
        return [flag] if val else []
    if kind == "KDict":
        return [flag, json.dumps(val)]
    if kind == "KSet":
        return [flag] + list(val)
    return [flag, str(val)]


def expected_attr(root, name, val):
    """What the attribute holds after initialize for a given effective raw value."""
    if name in ("source_dirs", "include_dirs", "excl_paths"):
        return {os.path.join(root, v) for v in val}
    if name in ("incl_suffixes", "excl_suffixes"):
        return set(val)
    if name == "pp_suffixes":
        return list(val)
    return val


def norm(v):
    if isinstance(v, (set, list, tuple)):
        return sorted(v)
    return v


def start(root, cli, file_dict=None, raw_file=None, config_name=".fortlsrc", explicit=False):
    from fortls.interface import cli as mkcli
    from fortls.langserver import LangServer
    cfgp = os.path.join(root, config_name)
    for old in (".fortlsrc", "custom.json"):
        p = os.path.join(root, old)
        if os.path.isdir(p):
            shutil.rmtree(p)
        elif os.path.exists(p):
            os.remove(p)
    if raw_file is not None:
        if raw_file == "<dir>":
            os.makedirs(cfgp)
        elif raw_file != "<missing>":
            with open(cfgp, "w") as f:
                f.write(raw_file)
    elif file_dict is not None:
        with open(cfgp, "w") as f:
            json.dump(file_dict, f)
    argv = ["--disable_autoupdate", "--nthreads", "1"] if not any(a == "--nthreads" for a in cli) else ["--disable_autoupdate"]
    if explicit or config_name != ".fortlsrc":
        argv += ["--config", config_name]
    args = vars(mkcli("fortls").parse_args(argv + cli))
    conn = impl.Conn()
    srv = LangServer(conn, args)
    srv.handle({"jsonrpc": "2.0", "id": 0, "method": "initialize", "params": {"rootPath": root}})
    out = conn.take()
    resp = [o for o in out if o[0] in ("r", "e")]
    msgs = [o[2] for o in out if o[0] == "n" and o[1] == "window/showMessage"]
    return srv, conn, resp, msgs


OPTION_ATTRS = None


def snapshot(srv, names):
    return {n: norm(getattr(srv, n, "<unset>")) for n in names}


def effects(srv, conn, resp, root):
    """A few observable consequences of options (independent of the attribute values)."""
    eff = {}
    caps = resp[0][2]["capabilities"] if resp and resp[0][0] == "r" else {}
    eff["sync"] = caps.get("textDocumentSync")
    eff["sighelp"] = "signatureHelpProvider" in caps
    eff["codeaction"] = caps.get("codeActionProvider", False)
    eff["files"] = sorted(os.path.relpath(p, root) for p in srv.workspace)
    # rendering options: a hover right after start-up, and again after the document was changed (re-parsed in the server process)
    rp = os.path.join(root, "r.f90")
    if rp in srv.workspace:
        def hov(line, ch):
            r, _ = impl.request(srv, conn, "textDocument/hover", impl.pos_params(rp, line, ch))
            return r[2]["contents"]["value"] if r and r[0] == "r" and r[2] else None
        eff["hover_decl"] = hov(2, 47)
        eff["hover_intrinsic"] = hov(3, 8)
        impl.did_open(srv, rp)
        impl.did_change(srv, rp, [{"text": "! edited\n" + SRC_R}])
        eff["hover_decl_after_edit"] = hov(3, 47)
        eff["hover_intrinsic_after_edit"] = hov(4, 8)
        conn.take()
    return eff


def run_loader_channels(ctx, root, opts, loaded):
    """every loaded option x {absent, cli, file, both}."""
    coq = ctx.coq(IMPORTS)
    exprs = []
    meta = []
    names = [n for n, k in opts if n in loaded]
    base_srv, _, _, _ = start(root, [])
    base = snapshot(base_srv, names)
    for name, kind in opts:
        if name not in loaded or name == "debug_log":
            continue
        try:
            vc, vf = option_values(root, name, kind)
        except KeyError:
            ctx.report("C19:option-without-test-values", "an option has no test values in the harness: %s" % name,
                       {"kind": "broken-correspondence", "option": name}, found_input=False)
            continue
        for chan in ("absent", "cli", "file", "both"):
            cli = cli_args(name, kind, vc) if chan in ("cli", "both") else []
            fd = {name: vf} if chan in ("file", "both") else ({"notify_init": False} if chan == "absent" else None)
            if chan == "absent":
                fd = {"symbol_skip_mem": False} if name != "symbol_skip_mem" else {"notify_init": False}
            if name == "nthreads" and chan in ("cli", "both"):
                pass
            srv, conn, resp, msgs = start(root, cli, fd)
            got = norm(getattr(srv, name, "<unset>"))
            eff_val = vf if chan in ("file", "both") else (vc if chan == "cli" else None)
            want = base[name] if eff_val is None else norm(expected_attr(root, name, eff_val))
            if name == "nthreads" and chan == "absent":
                want = 1
            ok_resp = bool(resp) and resp[0][0] == "r"
            ctx.count(("chan", name, chan), chan != "absent", sample={"option": name, "channel": chan, "cli": cli, "file": fd, "effective": repr(got)})
            # which source does the observed value correspond to?  1 = cli/default, 2 = file
            src_id = 2 if (chan in ("file", "both")) else 1
            d_env = "[(%s, V 2 JTStr false)]" % json.dumps(name) if chan in ("file", "both") else '[("zz_unrelated", V 9 JTStr false)]'
            c_env = "[(%s, V 1 JTStr false)]" % json.dumps(name)
            exprs.append('match get (load (c_loader generated) %s %s) %s with Some (V i _ _) => N.eqb i %d | _ => false end'
                         % (d_env, c_env, json.dumps(name), src_id))
            meta.append((name, chan))
            if not ok_resp or got != want:
                ctx.report("C19:effective-value:%s" % name, "option %s given by channel '%s' has the wrong effective value" % (name, chan),
                           {"kind": "counterexample", "input": {"option": name, "channel": chan, "cli": cli, "file": fd},
                            "implementation": repr(got), "oracle": repr(want), "response": repr(resp)[:300]})
            # a falsy value in the file still wins over a truthy command-line value
            if chan == "both" and kind != "KBool":
                falsy = {"KSet": [], "KDict": {}, "KInt": 0, "KStr": ""}.get(kind)
                if name in ("nthreads", "recursion_limit"):
                    falsy = None
                if falsy is not None:
                    srv2, conn2, resp2, msgs2 = start(root, cli, {name: falsy})
                    got2 = norm(getattr(srv2, name, "<unset>"))
                    want2 = norm(expected_attr(root, name, falsy))
                    ctx.count(("chan", name, "both-falsy"), True)
                    if got2 != want2 or not resp2 or resp2[0][0] != "r":
                        ctx.report("C19:effective-value:%s" % name, "option %s: an empty/zero value in the file does not override the command line" % name,
                                   {"kind": "counterexample", "input": {"option": name, "channel": "both", "cli": cli, "file": {name: falsy}},
                                    "implementation": repr(got2), "oracle": repr(want2)})
            # every other option must be untouched
            other = snapshot(srv, [n for n in names if n != name and n != "nthreads"])
            for n2, v2 in other.items():
                if v2 != base[n2] and not (chan == "absent"):
                    if n2 in ("source_dirs",) and name in ("excl_paths", "incl_suffixes", "excl_suffixes"):
                        continue   # derived from the option under test by design
                    ctx.report("C19:collateral:%s" % n2, "setting %s changed %s" % (name, n2),
                               {"kind": "counterexample", "input": {"option": name, "channel": chan, "cli": cli, "file": fd},
                                "implementation": {n2: repr(v2)}, "oracle": {n2: repr(base[n2])}})
    bad = coq.bools(exprs, shard=200)
    ctx.cov["traces_validated_against_impl"] += len(exprs)
    for b in bad:
        ctx.report("C19:model-impl-mismatch", "C19.Model.load disagrees on which source wins for %s/%s" % meta[b],
                   {"kind": "broken-correspondence", "option": meta[b][0], "channel": meta[b][1],
                    "correspondence": "FV.C19.Model.load (c_loader generated)"}, found_input=False)


def run_effects(ctx, root):
    """observable effects by both channels must agree."""
    cases = [
        ("incremental_sync", ["--incremental_sync"], {"incremental_sync": True}, lambda e: e["sync"] == 2),
        ("use_signature_help", ["--use_signature_help"], {"use_signature_help": True}, lambda e: e["sighelp"]),
        ("enable_code_actions", ["--enable_code_actions"], {"enable_code_actions": True}, lambda e: e["codeaction"] is True),
        ("source_dirs", ["--source_dirs", "d1"], {"source_dirs": ["d1"]}, lambda e: e["files"] == ["d1/f_d1.f90"]),
        ("excl_paths", ["--excl_paths", "ex1"], {"excl_paths": ["ex1"]}, lambda e: "ex1/f_ex1.f90" not in e["files"] and "ex2/f_ex2.f90" in e["files"]),
        ("incl_suffixes", ["--incl_suffixes", ".zz"], {"incl_suffixes": [".zz"]}, lambda e: "b.zz" in e["files"]),
        ("excl_suffixes", ["--excl_suffixes", "_d1.f90"], {"excl_suffixes": ["_d1.f90"]}, lambda e: "d1/f_d1.f90" not in e["files"] and "a.f90" in e["files"]),
        ("sort_keywords", ["--sort_keywords"], {"sort_keywords": True},
         lambda e: e.get("hover_decl") is not None and e.get("hover_decl") == e.get("hover_decl_after_edit") and "TARGET, DIMENSION(N), INTENT(INOUT)" in (e.get("hover_decl") or "").upper()),
    ]
    for name, cli, fd, pred in cases:
        e_cli = effects(*start(root, cli, None)[:3], root)
        e_file = effects(*start(root, [], fd)[:3], root)
        e_none = effects(*start(root, [], None)[:3], root)
        ctx.count(("effect", name), True)
        if e_cli != e_file or not pred(e_cli) or pred(e_none):
            ctx.report("C19:effect:%s" % name, "option %s has a different observable effect by command line and by file" % name,
                       {"kind": "counterexample", "input": {"option": name, "cli": cli, "file": fd},
                        "implementation": {"cli": e_cli, "file": e_file, "none": e_none}})
    # file wins: both given with different values
    srv, conn, resp, msgs = start(root, ["--source_dirs", "d1"], {"source_dirs": ["d2"]})
    e = effects(srv, conn, resp, root)
    ctx.count(("effect", "both"), True)
    if e["files"] != ["d2/f_d2.f90"]:
        ctx.report("C19:effect:file-wins", "with source_dirs on both channels the file does not win",
                   {"kind": "counterexample", "input": {"cli": ["--source_dirs", "d1"], "file": {"source_dirs": ["d2"]}}, "implementation": e})
    # file wins for a rendering option too, at start-up and after the document was edited
    e = effects(*start(root, ["--sort_keywords"], {"sort_keywords": False})[:3], root)
    ctx.count(("effect", "sort-file-wins"), True)
    if "INTENT(INOUT), TARGET" not in (e.get("hover_decl") or "").upper() or e.get("hover_decl") != e.get("hover_decl_after_edit"):
        ctx.report("C19:effect:file-wins", "--sort_keywords on the command line and sort_keywords: false in the file: the file does not win (before / after an edit)",
                   {"kind": "counterexample", "input": {"cli": ["--sort_keywords"], "file": {"sort_keywords": False}},
                    "implementation": {k: v for k, v in e.items() if k.startswith("hover_decl")}})
    # an option absent from the file keeps its command-line value: --pp_defs + unrelated file
    srv, conn, resp, msgs = start(root, ["--pp_defs", '{"FOO": "1"}', "--pp_suffixes", ".h"], {"nthreads": 1})
    ctx.count(("effect", "pp-kept"), True)
    if srv.pp_defs != {"FOO": "1"} or list(srv.pp_suffixes) != [".h"]:
        ctx.report("C19:effective-value:pp_defs", "command-line pp_defs/pp_suffixes lost when the file does not mention them",
                   {"kind": "counterexample", "input": {"cli": ["--pp_defs", '{"FOO": "1"}', "--pp_suffixes", ".h"], "file": {"nthreads": 1}},
                    "implementation": {"pp_defs": srv.pp_defs, "pp_suffixes": repr(srv.pp_suffixes)}})


JSON_SAMPLES = [("JTBool", True), ("JTInt", 1100), ("JTStr", "s"), ("JTStrList", ["d1"]), ("JTList", [1]), ("JTDict", {"A": "b"}),
                ("JTNull", None), ("JTFloat", 1.5)]


def run_faulty(ctx, root, opts, loaded, n_pairs):
    coq = ctx.coq(IMPORTS)
    names = [n for n, k in opts if n in loaded]
    cli = ["--hover_language", "cli_lang", "--max_line_length", "77", "--excl_paths", "ex1", "--pp_defs", '{"X": "1"}']
    base = snapshot(start(root, cli)[0], names)

    def check(label, raw=None, fd=None, config_name=".fortlsrc", expect_msg=True):
        srv, conn, resp, msgs = start(root, cli, fd, raw_file=raw, config_name=config_name)
        snap = snapshot(srv, names)
        errs = [m for m in msgs if m.get("type") == 1]
        ok = bool(resp) and resp[0][0] == "r" and snap == base and (len(errs) == 1 if expect_msg else len(errs) == 0)
        ctx.count(("faulty", label), True, sample={"file": label, "messages": msgs[:2]})
        if not ok:
            diff = {k: (snap[k], base[k]) for k in snap if snap[k] != base[k]}
            ctx.report("C19:faulty-file", "a faulty configuration file (%s) is not handled by one message + command-line values" % label,
                       {"kind": "counterexample", "input": {"file": label, "raw": raw, "dict": fd, "cli": cli},
                        "implementation": {"response": repr(resp)[:300], "messages": msgs, "changed": repr(diff)}})
        return ok

    check("truncated json", raw='{"nthreads": 2, "hover_la')
    check("trailing garbage", raw='{"nthreads": 2} xyz')
    check("empty file", raw="")
    check("top-level list", raw="[1, 2]")
    check("top-level string", raw='"abc"')
    check("top-level number", raw="5")
    check("top-level null", raw="null")
    # nested too deeply for the reader (RecursionError inside json5; was an InternalError answer to initialize, fixed in /repo)
    check("5000 unclosed brackets", raw="[" * 5000)
    check("a value nested 3000 deep", raw='{"a": ' + "[" * 3000 + "]" * 3000 + "}")
    check("explicit missing file", raw="<missing>", config_name="custom.json")
    check("directory in place of the explicit file", raw="<dir>", config_name="custom.json")
    check("default file absent", raw="<missing>", expect_msg=False)
    # every option x every JSON type: accept/reject must equal the model's validator
    exprs = []
    meta = []
    for name, kind in opts:
        if name not in loaded:
            continue
        for ty, val in JSON_SAMPLES:
            fd = {name: val, "hover_language": "file_lang"} if name != "hover_language" else {name: val}
            srv, conn, resp, msgs = start(root, cli, fd)
            snap = snapshot(srv, names)
            errs = [m for m in msgs if m.get("type") == 1]
            answered = bool(resp) and resp[0][0] == "r"
            rejected = len(errs) == 1 and snap == base
            accepted_ok = len(errs) == 0
            ctx.count(("type", name, ty), True)
            exprs.append("Bool.eqb (validate (c_opts generated) [(%s, V 0 %s false)]) %s" % (json.dumps(name), ty, "false" if rejected else "true"))
            meta.append((name, ty, val))
            if not answered or not (rejected or accepted_ok):
                ctx.report("C19:faulty-file", "option %s with a %s value: initialize fails or leaves a half-applied configuration" % (name, ty),
                           {"kind": "counterexample", "input": {"dict": fd, "cli": cli},
                            "implementation": {"response": repr(resp)[:300], "messages": msgs}})
    bad = coq.bools(exprs, shard=300)
    ctx.cov["traces_validated_against_impl"] += len(exprs)
    for b in bad:
        name, ty, val = meta[b]
        # accept/reject differs from the model: decide by the property -- a wrong type must be rejected
        ctx.report("C19:validator-mismatch:%s:%s" % (name, ty), "_check_config_file and C19.Model.validate disagree for %s = %r" % (name, val),
                   {"kind": "broken-correspondence", "input": {"dict": {name: val}}, "correspondence": "FV.C19.Model.validate"},
                   found_input=False)
    # pairs of options on mixed channels
    rng = ctx.rng
    cand = [(n, k) for n, k in opts if n in loaded and n not in ("debug_log", "nthreads")]
    for _ in range(n_pairs):
        (n1, k1), (n2, k2) = rng.sample(cand, 2)
        ch1, ch2 = rng.choice(["cli", "file", "both"]), rng.choice(["cli", "file", "both", "absent"])
        v1c, v1f = option_values(root, n1, k1)
        v2c, v2f = option_values(root, n2, k2)
        c = (cli_args(n1, k1, v1c) if ch1 in ("cli", "both") else []) + (cli_args(n2, k2, v2c) if ch2 in ("cli", "both") else [])
        fd = {}
        if ch1 in ("file", "both"):
            fd[n1] = v1f
        if ch2 in ("file", "both"):
            fd[n2] = v2f
        srv, conn, resp, msgs = start(root, c, fd or None)
        b0 = snapshot(start(root, [])[0], [n1, n2]) if False else None
        ctx.count(("pair", n1, ch1, n2, ch2), True)
        for n, ch, vc, vf in ((n1, ch1, v1c, v1f), (n2, ch2, v2c, v2f)):
            if ch == "absent":
                continue
            eff_val = vf if ch in ("file", "both") else vc
            want = norm(expected_attr(root, n, eff_val))
            got = norm(getattr(srv, n))
            if got != want or not resp or resp[0][0] != "r":
                ctx.report("C19:effective-value:%s" % n, "pair (%s via %s, %s via %s): %s has the wrong effective value" % (n1, ch1, n2, ch2, n),
                           {"kind": "counterexample", "input": {"cli": c, "file": fd}, "implementation": repr(got), "oracle": repr(want)})


def search_failing(ctx):
    root = make_root()
    try:
        srv, conn, resp, msgs = start(root, ["--pp_defs", '{"FOO": "1"}'], {"nthreads": 1})
        if srv.pp_defs != {"FOO": "1"}:
            return ("C19:effective-value:pp_defs", "command-line pp_defs lost when the file does not mention it",
                    {"kind": "counterexample", "input": {"cli": ["--pp_defs", '{"FOO": "1"}'], "file": {"nthreads": 1}},
                     "implementation": repr(srv.pp_defs)})
        for raw in ("[1, 2]", '{"excl_paths": 5}', '{"nthreads": "x"}', '{"a": '):
            srv, conn, resp, msgs = start(root, [], raw_file=raw)
            if not resp or resp[0][0] != "r" or len([m for m in msgs if m.get("type") == 1]) != 1:
                return ("C19:faulty-file", "a faulty configuration file is not handled by one message",
                        {"kind": "counterexample", "input": {"raw": raw}, "implementation": {"response": repr(resp)[:300], "messages": msgs}})
    finally:
        shutil.rmtree(root, ignore_errors=True)
    return None


def run(ctx):
    ctx.cov["trusted_base"] = BASE_TRUST + [
        "translator harness/translators/options.py (argparse parser object + Python ast of the loaders -> Gen/GenOptions.v), fail closed",
        "differential: effective attributes / validator accept-reject against C19.Model on every option (this run)",
    ]
    ctx.assumptions = [
        "option values are opaque to the model (identity, JSON type, set-wrapping); what an option *does* is observed, not modelled",
        "keys of the configuration file that are not option names are ignored by the model (the code also type-checks keys that collide with other attributes)",
        "unreadable (permission) files are not exercised: the sandbox runs as root",
    ]
    ctx.cov["rule"] = ("every loaded option x {absent, command line, file, both with different values}; 7 observable effects by both channels; "
                       "random pairs of options on mixed channels; faulty files: truncated/garbage/empty/non-dictionary/missing/directory and every "
                       "option x 8 JSON value types; non-trivial = any case other than 'absent'; distinct = distinct (option, channel/type)")
    changed = opt_tr.regenerate()
    t = opt_tr.translate()
    opts_all = [(d, k) for d, k, _ in opt_tr.option_table()]
    loaded = set()
    for stmts in t["loaders"].values():
        for s in stmts:
            if s.startswith("Load "):
                loaded.add(s.split('"')[1])
    ctx.extra["translator"] = {"regenerated": changed, "unknown": t["unknown"], "loaded_options": sorted(loaded),
                               "options_without_loader": sorted(d for d, k in opts_all if d not in loaded)}
    ctx.proof_obligations(search=lambda: search_failing(ctx))
    # the differential runs over every documented option, whatever the translator recognised
    loaded = {d for d, k in opts_all if d not in ("config", "preserve_keyword_order", "variable_hover")
              and not (d.startswith("debug_") and d != "debug_log")}
    root = make_root()
    try:
        run_loader_channels(ctx, root, opts_all, loaded)
        run_effects(ctx, root)
        run_faulty(ctx, root, opts_all, loaded, 60 if ctx.quick() else 1500)
    finally:
        shutil.rmtree(root, ignore_errors=True)


def replay(ctx, path):
    with open(path) as f:
        doc = json.load(f)
    inp = doc["input"]
    root = make_root()
    try:
        srv, conn, resp, msgs = start(root, inp.get("cli", []), inp.get("file") or inp.get("dict"), raw_file=inp.get("raw"))
        print("response:", repr(resp)[:400])
        print("messages:", msgs)
        if "option" in inp:
            print(inp["option"], "=", getattr(srv, inp["option"], None))
        ok = bool(resp) and resp[0][0] == "r"
        return 0 if ok else 1
    finally:
        shutil.rmtree(root, ignore_errors=True)
        shutil.rmtree(ctx.workdir, ignore_errors=True)
