"""Trace validation for C07: the transcribed decision rules (C07.Model) against the implementation's own check_* methods
on the scope objects it parsed from generated valid and seeded programs."""
from __future__ import annotations

import os
import random
import shutil
import tempfile

from .. import impl
from ..common import clist, cnat, cstr

KIND = {"Module": "KMod", "Program": "KProg", "Submodule": "KSmod", "Subroutine": "KSub", "Function": "KFun", "Type": "KType", "Interface": "KInt",
        "Block": "KBlock", "Do": "KDo", "Where": "KWhere", "If": "KIf", "Associate": "KAssoc", "Enum": "KEnum", "Scope": "KImpl"}


def kind_of(obj):
    n = type(obj).__name__
    if n == "Select":
        return "(KSelect %d)" % getattr(obj, "select_type", 1)
    return KIND.get(n, "KImpl")


def b(x):
    return "true" if x else "false"


def check_rules(ctx, n):
    from . import c07
    from fortls.constants import FUNCTION_TYPE_ID, INTERFACE_TYPE_ID, SUBROUTINE_TYPE_ID
    coq = ctx.coq(c07.IMPORTS)
    exprs, meta = [], []
    for k in range(n):
        seed = ctx.rng.randrange(1 << 30)
        prog = c07.Prog(random.Random(seed))
        extra = {}
        if k % 3:
            cname, fn = ctx.rng.choice(c07.CLASSES)
            res = fn(prog, random.Random(seed + 1))
            if res is not None:
                extra = res[0]
        lines, _ = c07.render(prog, pre=extra.get("pre", ()), post=extra.get("post", ()))
        text = "\n".join(lines) + "\n"
        root = tempfile.mkdtemp(prefix="verif_c07t_")
        try:
            path = os.path.join(root, "prog.f90")
            with open(path, "w") as f:
                f.write(text)
            srv, conn = impl.make_server(root, extra=["--nthreads", "1"])
            impl.did_open(srv, path)
            ast = srv.workspace[path].ast
            scopes = list(ast.scope_list)
            for sc in scopes:
                kids = list(sc.children)
                slines = [c.sline for c in kids]
                in_order = slines == sorted(slines)
                cs = clist(kids, lambda c: "(CH %s %s %s %s %s)" % (cstr(c.FQSN), cnat(c.sline), b(c.get_type() == INTERFACE_TYPE_ID), b(c.name.startswith("#")),
                                                                   b(c.get_type(no_link=True) in (SUBROUTINE_TYPE_ID, FUNCTION_TYPE_ID))))
                diags = sc.check_definitions(srv.obj_tree)
                tw = [d.sline for d in diags if "declared twice" in d.message]
                bc = [d.sline for d in diags if "before CONTAINS" in d.message]
                self_int = sc.get_type() == INTERFACE_TYPE_ID
                cstart = getattr(sc, "contains_start", None)
                e1 = "nats_eqb (twice_lines %s %s) %s" % (b(self_int), cs, clist(tw, cnat))
                e2 = "nats_eqb (before_contains_lines (contains_line %s %s %s) %s) %s" % (
                    kind_of(sc), "None" if cstart is None else "(Some %s)" % cnat(cstart), cnat(sc.eline), cs, clist(bc, cnat))
                ctx.count(("rules", text, sc.FQSN), bool(tw or bc))
                if not in_order:
                    ctx.report("C07:children-order", "children of a scope are not in source order (hypothesis of declared_twice_exact)",
                               {"kind": "counterexample", "input": {"text": text, "scope": sc.FQSN}, "implementation": slines})
                # check_use
                us = []
                for u in sc.use:
                    is_imp = type(u).__name__ == "Import"
                    us.append("(UST %s %s %s)" % (cnat(u.line_number), b(is_imp), b(is_imp or u.mod_name in srv.obj_tree)))
                ud = sc.check_use(srv.obj_tree)
                want = []
                for d in ud:
                    if d.message.startswith("IMPORT"):
                        want.append("DImport %s" % cnat(d.sline))
                    elif "not found in project" in d.message:
                        want.append("DNotFound %s" % cnat(d.sline))
                    else:
                        want.append("DUseAfterImplicit %s" % cnat(d.sline))
                il = getattr(sc, "implicit_line", None)
                pi = sc.parent is not None and sc.parent.get_type() == INTERFACE_TYPE_ID
                e3 = "list_eqb udiag_eqb (check_use %s %s %s) %s" % (b(pi), "None" if il is None else "(Some %s)" % cnat(il), clist(us), clist(want))
                exprs.append("(%s) && (%s) && (%s)" % (e1, e2, e3))
                meta.append({"text": text, "scope": sc.FQSN})
            # check_valid_parent over all scope objects
            idx = {id(s): i for i, s in enumerate(scopes)}
            recs = clist(scopes, lambda s: "(SC %s %s %s %s %s)" % (kind_of(s), cstr(s.name), cnat(s.sline), cnat(s.eline),
                                                                    "None" if s.parent is None or id(s.parent) not in idx else "(Some %s)" % cnat(idx[id(s.parent)])))
            inv = [s.sline - 1 for s in scopes if not s.check_valid_parent()]
            if all(s.parent is None or id(s.parent) in idx for s in scopes):
                exprs.append("nats_eqb (invalid_parent_lines %s) %s" % (recs, clist(inv, cnat)))
                meta.append({"text": text, "scope": "<all: check_valid_parent>"})
        finally:
            shutil.rmtree(root, ignore_errors=True)
    bad = coq.bools(exprs, shard=120)
    ctx.cov["traces_validated_against_impl"] += len(exprs)
    for i in bad[:3]:
        ctx.report("C07:model-impl-mismatch", "check_definitions/check_use/check_valid_parent differ from C07.Model on scope %s" % meta[i]["scope"],
                   {"kind": "broken-correspondence", "input": meta[i], "correspondence": "FV.C07.Model.twice_lines / before_contains / check_use / invalid_parent_lines"},
                   found_input=False)
