"""C01 -- one response per request, in order; the server outlives handler failures.

Obligations: C01/Props.v over Gen/GenProto.v (regenerated from fortls/langserver.py).
Trace validation: LangServer.run() in-process over generated message sequences with a
recording connection and wrapped handlers; the recorded handler outcomes are the oracle
of C01.Model.run.  Property oracle: a JSON-RPC monitor over the recorded output.
"""
from __future__ import annotations

import json
import os
import shutil
import tempfile

from .. import impl
from ..common import BASE_TRUST, REPO, clist
from ..translators import proto as proto_tr

IMPORTS = ("From Coq Require Import Bool.\nFrom FV Require Import C01.Syntax C01.Model Gen.GenProto.\nOpen Scope bool_scope.\n"
           "Open Scope string_scope.\n"
           "Definition st_eqb (a b : status) := match a, b with Running, Running | Exited, Exited | Dead, Dead => true | _, _ => false end.\n"
           "Definition out_eqb (a b : out) := match a, b with OResp i, OResp j => N.eqb i j | OErr i c, OErr j d => N.eqb i j && Z.eqb c d | _, _ => false end.\n"
           "Fixpoint outs_eqb (a b : list out) := match a, b with [], [] => true | x :: a', y :: b' => out_eqb x y && outs_eqb a' b' | _, _ => false end.\n"
           "Definition chk (l : list (msg * hres)) (o : list out) (s : status) := let r := run proto Running l in outs_eqb (fst r) o && st_eqb (snd r) s.\n")

KNOWN_METHODS = [
    "initialize", "textDocument/documentSymbol", "textDocument/completion", "textDocument/signatureHelp",
    "textDocument/definition", "textDocument/references", "textDocument/documentHighlight", "textDocument/hover",
    "textDocument/implementation", "textDocument/rename", "textDocument/didOpen", "textDocument/didSave",
    "textDocument/didClose", "textDocument/didChange", "textDocument/codeAction", "initialized",
    "workspace/didChangeWatchedFiles", "workspace/didChangeConfiguration", "workspace/symbol",
    "$/cancelRequest", "$/setTrace", "shutdown",
]
UNKNOWN_METHODS = ["textDocument/formatting", "foo/bar", "", "workspace/executeCommand", "textDocument/Hover", "$/progress", "exit "]
SAMPLES = ["test_prog.f08", "subdir/test_free.f90", "subdir/test_generic.f90", "subdir/test_inherit.f90", "test_block.f08"]
# sources that make handlers fail (cyclic structure: known C20 defects surface as handler exceptions)
BAD_SOURCES = {
    "cyc_assoc.f90": "program p\ninteger :: a\nassociate (x => y, y => x)\nend associate\nend program p\n",
    "cyc_ptr.f90": "module mp\ninteger, pointer :: pp => pp\ncontains\nsubroutine s()\npp = 1\nend subroutine s\nend module mp\n",
    "noise.f90": "procedure(foo) :: bar\n end\n contains\n#if\n",
    # a type that leaves a deferred binding unimplemented: the only source of code actions
    "deferred.f90": ("module geo\n implicit none\n type, abstract :: base_t\n contains\n  procedure(len_if), deferred :: length\n"
                     "  procedure(len_if), deferred :: width\n end type base_t\n abstract interface\n  function len_if(self) result(r)\n"
                     "   import base_t\n   class(base_t), intent(in) :: self\n   real :: r\n  end function len_if\n end interface\n"
                     " type, extends(base_t) :: seg_t\n  real :: a\n end type seg_t\nend module geo\n"),
}
POSITIONAL = ["textDocument/codeAction", "textDocument/hover", "textDocument/definition", "textDocument/references",
              "textDocument/implementation", "textDocument/signatureHelp", "textDocument/completion", "textDocument/rename",
              "textDocument/documentHighlight"]


# what a real client announces: a server that starts asking the client (workspace/configuration, registerCapability, progress)
# because of these must still answer every pipelined request of the client
CLIENT_CAPS = {
    "workspace": {"configuration": True, "workspaceFolders": True, "applyEdit": True, "didChangeConfiguration": {"dynamicRegistration": True},
                  "didChangeWatchedFiles": {"dynamicRegistration": True}, "symbol": {"dynamicRegistration": True}},
    "window": {"workDoneProgress": True, "showMessage": {"messageActionItem": {"additionalPropertiesSupport": True}}, "showDocument": {"support": True}},
    "textDocument": {"synchronization": {"dynamicRegistration": True, "willSave": True, "didSave": True},
                     "publishDiagnostics": {"relatedInformation": True, "versionSupport": True},
                     "completion": {"dynamicRegistration": True, "completionItem": {"snippetSupport": True}},
                     "hover": {"contentFormat": ["markdown", "plaintext"]}, "signatureHelp": {"dynamicRegistration": True}},
    "general": {"positionEncodings": ["utf-16"]},
}


def initialize_messages(rng, root):
    """the opening of a session: bare (rootPath only), or as an editor sends it (capabilities, then `initialized`)"""
    if rng.random() < 0.5:
        return [{"jsonrpc": "2.0", "id": 0, "method": "initialize", "params": {"rootPath": root}}]
    return [{"jsonrpc": "2.0", "id": 0, "method": "initialize",
             "params": {"processId": None, "rootPath": root, "rootUri": impl.uri(root), "capabilities": CLIENT_CAPS, "trace": "off",
                        "workspaceFolders": [{"uri": impl.uri(root), "name": "ws"}], "initializationOptions": {}}},
            {"jsonrpc": "2.0", "method": "initialized", "params": {}}]


def gen_sweep(rng, files):
    """open one file, then one positional method on every line (the answers of most handlers
    depend on where in which construct the cursor is)."""
    f = rng.choice(files)
    u = impl.uri(f[0])
    method = rng.choice(POSITIONAL)
    msgs = initialize_messages(rng, os.path.dirname(files[0][0])) + [
            {"jsonrpc": "2.0", "method": "textDocument/didOpen", "params": {"textDocument": {"uri": u}}}]
    for line in range(f[1]):
        ch = rng.choice([0, 2, 5, 9, 14])
        pos = {"line": line, "character": ch}
        p = {"textDocument": {"uri": u}, "position": pos}
        if method == "textDocument/codeAction":
            p = {"textDocument": {"uri": u}, "range": {"start": {"line": line, "character": 0}, "end": {"line": line, "character": 200}},
                 "context": {"diagnostics": []}}
        elif method == "textDocument/rename":
            p["newName"] = "zz"
        elif method == "textDocument/references":
            p["context"] = {"includeDeclaration": True}
        msgs.append({"jsonrpc": "2.0", "id": line + 1, "method": method, "params": p})
    return msgs



class RunConn(impl.Conn):
    """Connection for LangServer.run(): hands out the generated messages, then EOF."""

    def __init__(self, msgs):
        super().__init__()
        self.msgs = list(msgs)
        self.read = 0
        self.marks = []

    def read_message(self):
        self.marks.append(len(self.out))
        if self.read >= len(self.msgs):
            raise EOFError()
        m = self.msgs[self.read]
        self.read += 1
        return m


def gen_params(rng, method, files, malformed):
    f = rng.choice(files)
    u = impl.uri(f[0])
    nl = f[1]
    pos = {"line": rng.randrange(0, nl + 2), "character": rng.randrange(0, 40)}
    td = {"uri": u}
    if method == "initialize":
        p = {"rootPath": os.path.dirname(files[0][0])}
    elif method in ("textDocument/didOpen", "textDocument/didSave", "textDocument/didClose", "textDocument/documentSymbol"):
        p = {"textDocument": td}
    elif method == "textDocument/didChange":
        l = rng.randrange(0, nl)
        p = {"textDocument": td, "contentChanges": [{"range": {"start": {"line": l, "character": 0}, "end": {"line": l, "character": rng.randrange(0, 4)}},
                                                     "text": rng.choice(["", "x", "\n", "end\n", "integer :: q\n", "call foo(", "  type t"])}]}
    elif method == "textDocument/rename":
        p = {"textDocument": td, "position": pos, "newName": rng.choice(["zz", "a_b", ""])}
    elif method == "textDocument/codeAction":
        p = {"textDocument": td, "range": {"start": pos, "end": pos}, "context": {"diagnostics": []}}
    elif method == "workspace/symbol":
        p = {"query": rng.choice(["", "test", "x", "é"])}
    elif method in ("textDocument/references",):
        p = {"textDocument": td, "position": pos, "context": {"includeDeclaration": True}}
    elif method.startswith("textDocument/"):
        p = {"textDocument": td, "position": pos}
    else:
        p = {}
    if malformed:
        how = rng.choice(["drop", "type", "uri", "far", "none"])
        if how == "drop" and p:
            p = dict(p); p.pop(rng.choice(list(p)))
        elif how == "type" and p:
            p = dict(p); p[rng.choice(list(p))] = rng.choice([None, 5, "str", [], {}])
        elif how == "uri":
            p = json.loads(json.dumps(p).replace(u, rng.choice(["file:///nonexistent/q.f90", "untitled:1", ""])))
        elif how == "far" and "position" in p:
            p = dict(p); p["position"] = {"line": 10 ** 6, "character": 10 ** 6}
        elif how == "none":
            p = None
    return p


def gen_sequence(rng, files):
    if rng.random() < 0.2:
        return gen_sweep(rng, files)
    n = rng.choice([3, 6, 10, 16, 25, 40])
    msgs = initialize_messages(rng, os.path.dirname(files[0][0]))
    exit_at = rng.randrange(2, n + 8) if rng.random() < 0.5 else None
    next_id = 1
    for i in range(n):
        if exit_at == i:
            m = {"jsonrpc": "2.0", "method": "exit"}
            if rng.random() < 0.3:
                m["id"] = next_id; next_id += 1
            msgs.append(m)
            continue
        r = rng.random()
        if r < 0.72:
            method = rng.choice(KNOWN_METHODS[1:])
        elif r < 0.9:
            method = rng.choice(UNKNOWN_METHODS)
        else:
            method = "textDocument/didOpen"
        malformed = rng.random() < 0.3
        m = {"jsonrpc": "2.0", "method": method}
        params = gen_params(rng, method, files, malformed)
        if params is not None or rng.random() < 0.5:
            m["params"] = params
        is_notif_method = method in ("textDocument/didOpen", "textDocument/didSave", "textDocument/didClose", "textDocument/didChange",
                                     "initialized", "workspace/didChangeWatchedFiles", "workspace/didChangeConfiguration",
                                     "$/cancelRequest", "$/setTrace")
        as_request = (rng.random() < 0.85) != is_notif_method if method in KNOWN_METHODS else rng.random() < 0.7
        if as_request:
            kind = rng.random()
            if kind < 0.8:
                m["id"] = next_id; next_id += 1
            elif kind < 0.9:
                m["id"] = "id-%d" % next_id; next_id += 1
            elif kind < 0.95:
                m["id"] = rng.randrange(0, max(1, next_id))  # a repeated id
            else:
                m["id"] = None
        msgs.append(m)
    return msgs


def run_trace(msgs, root):
    """Run LangServer.run() over msgs; returns (events, behaviours, consumed, running)."""
    from fortls.interface import cli
    from fortls.langserver import JSONRPC2Error, LangServer
    args = vars(cli("fortls").parse_args(["--disable_autoupdate", "--incremental_sync", "--nthreads", "1"]))
    conn = RunConn(msgs)
    srv = LangServer(conn, args)
    beh = []

    # wrap every serve_* bound method: handle() rebuilds its table from self.serve_* on every call
    depth = [0]

    def wrap(name, fn):
        def w(request, *a, **kw):
            depth[0] += 1
            try:
                try:
                    r = fn(request, *a, **kw)
                finally:
                    depth[0] -= 1
            except JSONRPC2Error as e:
                if depth[0] == 0:
                    beh.append(("rpc", e.code))
                raise
            except Exception:
                if depth[0] == 0:
                    beh.append(("exn",))
                raise
            if depth[0] > 0:
                return r
            try:
                json.dumps(r, allow_nan=False)
                beh.append(("ret", True))
            except (TypeError, ValueError):
                beh.append(("ret", False))
            return r
        return w
    for name in dir(srv):
        if name.startswith("serve_"):
            setattr(srv, name, wrap(name, getattr(srv, name)))
    died = None
    try:
        srv.run()
    except BaseException as ex:  # run() itself must not raise
        died = repr(ex)
    return conn, beh, srv.running, died


ID_CANON = {}


def idnum(table, v):
    k = json.dumps(v)
    if k not in table:
        table[k] = len(table)
    return table[k]


def to_model(msgs, conn, beh, table_methods):
    """Pair consumed messages with recorded handler behaviours (handlers in the table only;
    noop handlers and serve_default are not serve_* wrapped except serve_default)."""
    ids = {}
    items = []
    bi = 0
    consumed = conn.read
    wrapped = {k for k, v in table_methods if v != "noop"}
    for m in msgs[:consumed]:
        meth = m["method"]
        if meth in wrapped or meth not in dict(table_methods):
            # a wrapped handler (or serve_default) ran: take its recorded behaviour
            if bi < len(beh):
                b = beh[bi]; bi += 1
            else:
                b = None
        else:
            b = ("ret", True)   # local noop
        items.append((m, b))
    return items, bi


def coq_msg(m, ids):
    meth = '"%s"' % m["method"].replace('"', '""')
    if "id" in m:
        return "(Req %d %s)" % (idnum(ids, m["id"]), meth)
    return "(Notif %s)" % meth


def coq_beh(b):
    if b[0] == "ret":
        return "(HRet %s)" % ("true" if b[1] else "false")
    if b[0] == "rpc":
        return "(HRpc (%d)%%Z)" % b[1]
    return "HExn"


def monitor(msgs, conn, running, died, items=None):
    """Property-level JSON-RPC monitor.  Returns list of complaint strings."""
    bad = []
    consumed = conn.read
    exit_idx = next((i for i, m in enumerate(msgs) if m["method"] == "exit"), None)
    expect_consumed = len(msgs) if exit_idx is None else exit_idx + 1
    if died:
        bad.append("run() raised %s" % died)
    if consumed != expect_consumed:
        bad.append("server stopped reading after %d of %d messages (exit at %s)" % (consumed, expect_consumed, exit_idx))
    if exit_idx is None and not running:
        bad.append("running flag cleared without exit")
    # responses per message segment
    marks = conn.marks + [len(conn.out)]
    for i in range(min(consumed, len(msgs))):
        seg = conn.out[marks[i + 1 - 1]:marks[i + 1]] if i + 1 < len(marks) else []
        seg = conn.out[marks[i]:marks[i + 1]] if i + 1 < len(marks) else conn.out[marks[i]:]
        m = msgs[i]
        resp = [o for o in seg if o[0] in ("r", "e")]
        if "id" in m:
            if len(resp) != 1:
                bad.append("message %d (%s): %d responses" % (i, m["method"], len(resp)))
            elif resp[0][1] != m["id"]:
                bad.append("message %d: response id %r for request id %r" % (i, resp[0][1], m["id"]))
            elif resp[0][0] == "e" and m["method"] in UNKNOWN_METHODS and resp[0][2] != -32601:
                bad.append("message %d: unknown method answered with code %r" % (i, resp[0][2]))
            elif resp[0][0] == "r" and m["method"] in UNKNOWN_METHODS:
                bad.append("message %d: unknown method answered with a result" % i)
            elif items is not None and i < len(items) and items[i][1] is not None:
                b = items[i][1]
                if b[0] == "exn" and (resp[0][0] != "e" or resp[0][2] != -32603):
                    bad.append("message %d (%s): handler failure answered %r, not InternalError" % (i, m["method"], resp[0][:3]))
                elif b[0] == "ret" and resp[0][0] != "r":
                    bad.append("message %d (%s): handler returned but the answer is an error" % (i, m["method"]))
                elif b[0] == "rpc" and (resp[0][0] != "e" or resp[0][2] != b[1]):
                    bad.append("message %d (%s): JSONRPC2Error(%s) answered %r" % (i, m["method"], b[1], resp[0][:3]))
        else:
            if resp:
                bad.append("message %d (%s): notification answered %r" % (i, m["method"], [(o[0], o[1]) for o in resp]))
        for o in seg:
            try:
                json.dumps(o[1:], allow_nan=False)
            except (TypeError, ValueError):
                bad.append("message %d: payload not serialisable" % i)
    return bad


def wire_pass(ctx, files, root, n):
    """the same property over the real connection: LangServer.run() on JSONRPC2Connection(ReadWriter(bytes in, bytes out));
    the output is split by an independent byte-level frame reader"""
    import io
    from fortls.interface import cli
    from fortls.jsonrpc import JSONRPC2Connection, ReadWriter
    from fortls.langserver import LangServer
    odd = ["caf\u00e9", "\u03b1\u03b2", "\ud83d\ude00", "\ud83d", "tab\there", "nul\u0000x", "quote\"s", "back\\slash"]
    for k in range(n):
        msgs = gen_sequence(ctx.rng, files)
        # unknown methods and parameters with non-ASCII text, astral characters and a lone surrogate (legal in JSON as \uXXXX)
        for j in range(ctx.rng.choice([1, 2, 3])):
            o = ctx.rng.choice(odd)
            msgs.insert(ctx.rng.randrange(len(msgs) + 1), {"jsonrpc": "2.0", "id": "w%d-%d" % (k, j), "method": "verif/unknown " + o, "params": {"text": o}})
        stream = b""
        raw_utf8 = k % 2 == 1      # every second stream: a client that writes non-ASCII text as raw UTF-8 (Content-Length counts bytes)
        for m in msgs:
            try:
                body = json.dumps(m, ensure_ascii=False).encode("utf-8") if raw_utf8 else json.dumps(m).encode("ascii")
            except UnicodeEncodeError:
                body = json.dumps(m).encode("ascii")        # lone surrogates travel as escapes only
            stream += b"Content-Length: %d\r\n\r\n" % len(body) + body
        out = io.BytesIO()
        args = vars(cli("fortls").parse_args(["--disable_autoupdate", "--incremental_sync", "--nthreads", "1"]))
        srv = LangServer(JSONRPC2Connection(ReadWriter(io.BytesIO(stream), out)), args)
        died = None
        try:
            srv.run()
        except BaseException as ex:  # noqa: BLE001
            died = repr(ex)
        data = out.getvalue()
        got, pos, frame_err = [], 0, None
        while pos < len(data):
            end = data.find(b"\r\n\r\n", pos)
            if end < 0:
                frame_err = "trailing bytes without header end"; break
            head = data[pos:end].decode("ascii", "replace")
            ln = [h.split(":", 1)[1].strip() for h in head.split("\r\n") if h.lower().startswith("content-length")]
            if not ln:
                frame_err = "frame without Content-Length"; break
            body = data[end + 4:end + 4 + int(ln[0])]
            try:
                got.append(json.loads(body.decode("utf-8")))
            except ValueError as e:
                frame_err = "body is not JSON (%s)" % e; break
            pos = end + 4 + int(ln[0])
        exit_idx = next((i for i, m in enumerate(msgs) if m["method"] == "exit"), None)
        upto = msgs if exit_idx is None else msgs[:exit_idx + 1]
        want_ids = [m["id"] for m in upto if "id" in m]
        got_ids = [g.get("id") for g in got if "id" in g and ("result" in g or "error" in g)]
        ctx.count(("wire", json.dumps(msgs, sort_keys=True)), True)
        problem = None
        if died:
            problem = "run() raised %s" % died
        elif frame_err:
            problem = frame_err
        elif got_ids != want_ids:
            problem = "response ids on the wire %r, request ids %r" % (got_ids[:12], want_ids[:12])
        if problem:
            ctx.report("C01:wire", "over the real connection: %s" % problem, {"kind": "counterexample", "input": {"messages": msgs}, "implementation": got_ids[:40], "oracle": want_ids[:40]})


def setup_root():
    root = os.path.join(tempfile.gettempdir(), "verif_c01_ws")   # fixed, so that replay files stay meaningful
    shutil.rmtree(root, ignore_errors=True)
    os.makedirs(root)
    files = []
    for s in SAMPLES:
        src = os.path.join(REPO, "test", "test_source", s)
        dst = os.path.join(root, os.path.basename(s))
        shutil.copy(src, dst)
        with open(dst, errors="replace") as f:
            files.append((dst, len(f.read().split("\n"))))
    for name, text in BAD_SOURCES.items():
        dst = os.path.join(root, name)
        with open(dst, "w") as f:
            f.write(text)
        files.append((dst, len(text.split("\n"))))
    return root, files


def search_failing(ctx):
    root, files = setup_root()
    try:
        fixed = []
        for f in files:
            for meth in POSITIONAL:
                class _R:
                    def choice(self, xs, _f=f, _m=meth):
                        return _f if xs is files else (_m if xs is POSITIONAL else xs[0])
                fixed.append(gen_sweep(_R(), files))
        for k in range(len(fixed) + 40):
            msgs = fixed[k] if k < len(fixed) else gen_sequence(ctx.rng, files)
            conn, beh, running, died = run_trace(msgs, root)
            items, _ = to_model(msgs, conn, beh, proto_tr.translate().get("table", []))
            bad = monitor(msgs, conn, running, died, items)
            if bad:
                return ("C01:monitor", bad[0], {"kind": "counterexample", "input": {"messages": msgs}, "oracle": bad})
    finally:
        shutil.rmtree(root, ignore_errors=True)
    return None


def run(ctx):
    ctx.cov["trusted_base"] = BASE_TRUST + [
        "translator harness/translators/proto.py (Python ast -> Gen/GenProto.v), fail closed",
        "trace validation of C01.Model.run against LangServer.run in-process (this run)",
    ]
    ctx.assumptions = [
        "handler results are JSON-serialisable (hypothesis `serialisable`; monitored on every payload of every run)",
        "messages are well-formed JSON-RPC objects with a `method` member",
        "handlers are an arbitrary oracle: what they do besides returning/raising is not constrained by the theorems, "
        "except that only `handle` writes responses (generated obligation p_resp_writers = [handle])",
    ]
    ctx.cov["rule"] = ("message sequences of 4-41 messages: every known method with valid/malformed params, unknown methods, each sent as "
                       "request or notification, ids int/string/null/repeated, document sync on 8 files (3 of them crash-prone), exit at a "
                       "random index or absent; non-trivial = contains at least one handler failure or unknown method; distinct = distinct message list")
    changed = proto_tr.regenerate()
    t = proto_tr.translate()
    ctx.extra["translator"] = {"regenerated": changed, "unknown": t["unknown"], "table_size": len(t.get("table", []))}
    ctx.proof_obligations(search=lambda: search_failing(ctx))
    root, files = setup_root()
    try:
        n = 120 if ctx.quick() else 2500
        coq = ctx.coq(IMPORTS)
        exprs = []
        recs = []
        dist = {"requests": 0, "notifications": 0, "unknown_method": 0, "handler_exn": 0, "handler_rpc": 0, "with_exit": 0}
        fixed = []
        for f in files:
            class _R:  # deterministic chooser: this file, codeAction
                def choice(self, xs, _f=f):
                    return _f if xs is files else ("textDocument/codeAction" if xs is POSITIONAL else xs[0])

                def random(self):
                    return 0.0
            fixed.append(gen_sweep(_R(), files))
        for k in range(n):
            msgs = fixed[k] if k < len(fixed) else gen_sequence(ctx.rng, files)
            conn, beh, running, died = run_trace(msgs, root)
            items, used = to_model(msgs, conn, beh, t.get("table", []))
            ids = {}
            events = []
            for o in conn.out:
                if o[0] == "r":
                    events.append("(OResp %d)" % idnum(ids, o[1]))
                elif o[0] == "e":
                    events.append("(OErr %d (%d)%%Z)" % (idnum(ids, o[1]), o[2]))
            # messages whose behaviour was not recorded (loop died before) are dropped from the model input
            mitems = [(m, b) for m, b in items if b is not None]
            status = "Dead" if (died or (conn.read < len(msgs) and running)) else ("Running" if running else "Exited")
            l = clist(mitems, lambda mb: "(%s, %s)" % (coq_msg(mb[0], ids), coq_beh(mb[1])))
            exprs.append("chk %s %s %s" % (l, clist(events), status))
            recs.append((msgs, conn, beh, running, died, items))
            for m in msgs:
                dist["requests" if "id" in m else "notifications"] += 1
                dist["unknown_method"] += m["method"] in UNKNOWN_METHODS
            dist["handler_exn"] += sum(1 for b in beh if b[0] == "exn")
            dist["handler_rpc"] += sum(1 for b in beh if b[0] == "rpc")
            dist["with_exit"] += any(m["method"] == "exit" for m in msgs)
            nontrivial = any(b[0] != "ret" for b in beh)
            ctx.count(json.dumps(msgs, sort_keys=True), nontrivial,
                      sample={"methods": [(m["method"], "id" in m) for m in msgs][:12], "behaviours": beh[:12]})
        ctx.extra["dist"] = dist
        bad = set(coq.bools(exprs, shard=40))
        ctx.cov["traces_validated_against_impl"] += n
        for k, (msgs, conn, beh, running, died, items) in enumerate(recs):
            complaints = monitor(msgs, conn, running, died, items)
            if complaints:
                ctx.report("C01:monitor", complaints[0],
                           {"kind": "counterexample", "input": {"messages": msgs}, "oracle": complaints,
                            "implementation": [(o[0], o[1], o[2] if o[0] == "e" else None) for o in conn.out if o[0] in ("r", "e")]})
            elif k in bad:
                ctx.report("C01:model-impl-mismatch", "LangServer.run differs from C01.Model.run on a recorded trace",
                           {"kind": "broken-correspondence", "input": {"messages": msgs}, "behaviours": beh,
                            "correspondence": "FV.C01.Model.run proto vs LangServer.run",
                            "implementation": [(o[0], o[1]) for o in conn.out if o[0] in ("r", "e")]}, found_input=False)
        wire_pass(ctx, files, root, 25 if ctx.quick() else 500)
    finally:
        shutil.rmtree(root, ignore_errors=True)


def replay(ctx, path):
    with open(path) as f:
        doc = json.load(f)
    msgs = doc["input"]["messages"]
    root, files = setup_root()
    try:
        conn, beh, running, died = run_trace(msgs, root)
        items, _ = to_model(msgs, conn, beh, proto_tr.translate().get("table", []))
        bad = monitor(msgs, conn, running, died, items)
        print("responses:", [(o[0], o[1]) for o in conn.out if o[0] in ("r", "e")])
        print("monitor:", bad)
        return 1 if bad else 0
    finally:
        shutil.rmtree(root, ignore_errors=True)
        shutil.rmtree(ctx.workdir, ignore_errors=True)
