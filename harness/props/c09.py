"""C09 -- every positional request is total; every returned range lies in its document.

Obligations: C09/Props.v (spans of the word search lie in the line searched, for every line and word; the continuation-line
search returns a line of the gathered statement; range_json's falsy-zero rule; Diagnostic.build).
Sweep: every sample source, generated programs and hostile texts; positions inside and outside the text; the nine positional
methods; every range/location/edit/diagnostic validated against the target document.
"""
from __future__ import annotations

import json
import os
import shutil
import tempfile

from .. import impl
from ..common import BASE_TRUST, REPO, clist, cnat, cstr
from . import c04

IMPORTS = "From Coq Require Import ZArith.\nFrom FV Require Import Base.Str C09.Model."
METHODS = ["textDocument/hover", "textDocument/definition", "textDocument/implementation", "textDocument/references",
           "textDocument/documentHighlight", "textDocument/rename", "textDocument/signatureHelp", "textDocument/completion",
           "textDocument/codeAction"]
HEAVY = {"textDocument/references", "textDocument/documentHighlight", "textDocument/rename"}

HOSTILE_PP = [
    "#define REAL_T real(kind=selected_real_kind(15, 307))\n#define NCELLS number_of_cells_in_the_mesh\n#define MODN some_long_module_name_that_does_not_exist\n"
    "module ppm\n use MODN\n implicit none\n REAL_T :: tol\n integer :: NCELLS\n integer :: NCELLS\ncontains\n subroutine s()\n  tol = 1.0\n  NCELLS = 2\n"
    "  number_of_cells_in_the_mesh = 3\n end subroutine s\nend module ppm\n",
    "#define LONG_TYPE_NAME t\n#define SHORT a_very_long_replacement_text_for_a_short_macro\nmodule ppt\n type LONG_TYPE_NAME\n  integer :: SHORT\n end type\n"
    " type(LONG_TYPE_NAME) :: v\ncontains\n subroutine u()\n  v%SHORT = 1\n  v%a_very_long_replacement_text_for_a_short_macro = 2\n end subroutine u\nend module ppt\n",
]

HOSTILE = [
    "",
    "module m7\ninterface gen\nmodule procedure s1\nend interface gen\ncontains\nsubroutine s1(i)\ninteger :: i\nend subroutine s1\nsubroutine u()\nassociate (y => gen)\ncall y(1)\nend associate\nend subroutine u\nend module m7\n",
    "subroutine short(a, &\n                 b, an_undeclared_dummy_argument_with_a_long_name)\n implicit none\n integer :: a, b\nend subroutine short\n"
    "module mshort\n use &\n   a_module_that_does_not_exist_anywhere_in_this_workspace\n integer :: &\n      twice_declared_with_a_long_name\n real :: &\n"
    "      twice_declared_with_a_long_name\nend module mshort\n",
    "module m1\ncontains\nsubroutine sub()\nend subroutine sub\nsubroutine s2()\nassociate (a => sub)\nprint *, a\nend associate\nend subroutine s2\nend module m1\n",
    "module m1t\ntype tt\nend type\ncontains\nsubroutine s2()\nassociate (a => tt)\nprint *, a\nend associate\nend subroutine s2\nend module m1t\n",
    "module m2\ninterface gen\nmodule procedure sa\nend interface gen\nprocedure(gen), pointer :: p\ntype t\ncontains\nprocedure, nopass :: bound => gen\nend type\ncontains\n"
    "subroutine sa()\nend subroutine sa\nsubroutine u()\ntype(t) :: o\ncall o%bound()\ncall p()\nend subroutine u\nend module m2\n",
    "module m4\ntype, abstract :: base\ncontains\nprocedure(iface), deferred :: run\nend type\nabstract interface\nsubroutine iface(self, n)\nimport base\n"
    "class(base), intent(inout) :: self\nend subroutine\nend interface\ntype, extends(base) :: child\ninteger :: k\nend type child\nend module m4\n",
    "module m6\ncontains\nfunction ff(a) result(res)\ninteger :: a\ninterface res\nend interface res\nend function ff\nend module m6\n",
    "program pi\nuse iso_fortran_env, only: int32, real64\nuse iso_c_binding\ninteger(int32) :: i\nreal(real64) :: r\ntype(c_ptr) :: cp\ninteger(c_int) :: ci\ni = int32\nend program pi\n",
    "\n",
    "! only a comment",
    "program p\n  x = 'unterminated\n  call foo(\nend program p",
    "module m\n type t\n  integer :: a\n end type\n type(t) :: v\ncontains\n subroutine s()\n  v%\n  v%a%\n  call v%a(\n  x = sin(\n end subroutine\nend module",
    "program p\nuse, intrinsic :: iso_fortran_env\ninteger(int32) :: i\ni = size(\nprint *, abs(i), huge(i)\nend program p",
    "subroutine s(a, b)\n integer, intent(in) :: a\n a = &\n  & b + &\n\n end subroutine",
    "  implicit &\n none\ncontains\ncontains\n",
    "#define X(a) a\n#if defined(X)\nprogram p\nX(1)\n#endif\nend\n",
    "program p\n  integer :: été, x€\n  x = '\U0001f600' // \"é\"\nend program",
    "module m\ninterface\nmodule procedure\nend interface\nend module m\nsubmodule (m) s\nend submodule",
    "type, extends(undefined_t) :: t\nend type\ntype(t) :: v\nv%x = 1\nselect type (v)\nclass is (t)\nend select\n",
    "      program fx\nC comment\n      integer i\n     &, j\n      do 10 i=1,3\n10    continue\n      end\n",
    "program p\nassociate (a => b%c)\n a%d = 1\nend associate\nblock\nend block\nend program\n",
    "use nowhere, only: a => b\ncall a%b%c(d%e, f=g%h)\n",
    "module d\ncharacter(len=*), parameter :: s = \"{a} {0} {\" !< doc {x} }{\ncontains\n!> \\f$ \\vec{v} {} \\f$\n!! {langid}\nsubroutine q(a) !< {b}\ninteger :: a !< {c\nend subroutine\nsubroutine r()\ncall q(1)\nprint *, s\nend subroutine\nend module d\n",
    "module g\ntype t\ncontains\nprocedure :: a, b\ngeneric :: gg => a, b\ngeneric :: operator(+) => a\nend type\ncontains\nsubroutine a(x)\nclass(t) :: x\nend\nsubroutine b(x, y)\nclass(t) :: x\nend\nsubroutine u(v)\ntype(t) :: v\ncall v%gg()\nend\nend module\n",
    # every statement prefix the completion context classifier distinguishes, outside any program unit and inside one
    "integer, pa\nuse \nuse m, only: \ncall \ntype(\nclass(\nimport \nprocedure(\nmodule procedure \ninteger :: \nif (\nx%\ninteger(kind=\ncharacter(len=\n"
    "type, ext\ninterface \nend \nprint *, \nallocate(\nwrite(*,*) \nintent(\ndo i = \nreal, dimension(\nuse, intrinsic :: \ninclude '\ninclude \"x\n#include <\n",
    "module ctx\ninteger, pa\nuse \ncontains\nsubroutine s(a)\ninteger, inten\ninteger, intent(i\ncall \ntype(\nprocedure(\nx%\ncall a%\nuse ctx, only: \n"
    "import \nmodule procedure \nend \nend subroutine\nend module ctx\n",
    "module dp\ntype t\n type(t), pointer :: n\n integer :: v\nend type\ncontains\nsubroutine s(x)\n type(t) :: x\n x%" + "n%" * 45 + "v = 1\n call q(x%" + "n%" * 120 + ")\nend subroutine\nend module dp\n",
    "module im\ntype :: t1\nend type\ntype :: t2\nend type\ninterface\nsubroutine a(x)\nimport, all\nimport, only: t2\nclass(t1) :: x\nend subroutine\nsubroutine b(x)\nimport t1\nimport\nimport, none\n"
    "class(t2) :: x\nend subroutine\nend interface\nend module im\n",
    "import :: x\nprogram p\nimport, none\ninterface\nsubroutine s()\nimport\nend subroutine\nend interface\nx = 1\nend program\n",
]


def valid_range(rg, lines):
    try:
        s, e = rg["start"], rg["end"]
        sl, sc, el, ec = s["line"], s["character"], e["line"], e["character"]
    except (KeyError, TypeError):
        return "malformed range %r" % (rg,)
    for v in (sl, sc, el, ec):
        if not isinstance(v, int) or isinstance(v, bool):
            return "non-integer coordinate in %r" % (rg,)
    n = len(lines)
    if not (0 <= sl < max(n, 1) and 0 <= el < max(n, 1)):
        return "line out of range (document has %d lines): %r" % (n, rg)
    ls = lines[sl] if sl < n else ""
    le = lines[el] if el < n else ""
    if not (0 <= sc <= len(ls)):
        return "start character beyond the line (length %d): %r" % (len(ls), rg)
    if not (0 <= ec <= len(le)):
        return "end character beyond the line (length %d): %r" % (len(le), rg)
    if (sl, sc) > (el, ec):
        return "start after end: %r" % (rg,)
    return None


class Sweep:
    def __init__(self, ctx, root):
        self.ctx = ctx
        self.root = root
        self.srv, self.conn = impl.make_server(root, extra=["--nthreads", "1"])
        self.reported = set()

    def lines_of(self, path):
        f = self.srv.workspace.get(path)
        if f is not None and f.contents_split is not None:
            return list(f.contents_split)
        try:
            from fortls.parsers.internal.parser import splitlines
            with open(path, encoding="utf-8", errors="replace") as fh:
                return splitlines(fh.read())
        except OSError:
            return None

    def check_locs(self, obj, where, inp, default_path):
        """walk a result and validate every range it contains against its uri (or the document of the request)"""
        from .c05 import impl_path
        probs = []

        def walk(o, uri):
            if isinstance(o, dict):
                u = o.get("uri", uri)
                if "range" in o and isinstance(o["range"], dict):
                    path = impl_path(u) if u else default_path
                    lines = self.lines_of(path)
                    if lines is None:
                        probs.append("location in a file that does not exist: %s" % path)
                    else:
                        p = valid_range(o["range"], lines)
                        if p:
                            probs.append("%s (%s)" % (p, os.path.relpath(path, self.root)))
                if "changes" in o and isinstance(o["changes"], dict):
                    for cu, edits in o["changes"].items():
                        walk(edits, cu)
                for k, v in o.items():
                    if k != "changes":
                        walk(v, u)
            elif isinstance(o, list):
                for x in o:
                    walk(x, uri)
        walk(obj, None)
        for p in probs[:2]:
            sig = "C09:range-" + where.split("/")[-1]
            stale = getattr(self, "unsaved_other", None)
            if stale and p.endswith("(%s)" % stale) and inp.get("file") != stale:
                # a link held by another file into the syntax tree of a buffer that was edited and not yet saved (known finding)
                sig = "C09:stale-link-unsaved-edit"
            if where.endswith("definition") and str(inp.get("line_text", "")).strip().lower().startswith("include"):
                # go-to-definition on an INCLUDE statement: the line of the statement, reported in the included file (known finding)
                sig = "C09:include-definition-line"
            self.report(sig, "%s returns a place that does not exist: %s" % (where, p), inp, obj)

    def report(self, sig, what, inp, got):
        key = (sig, what[:60])
        if key in self.reported:
            return
        self.reported.add(key)
        self.ctx.report(sig, what, {"kind": "counterexample", "input": inp, "implementation": json.loads(json.dumps(got, default=repr))
                                    if not isinstance(got, str) else got})

    def shape(self, method, res):
        m = method.split("/")[-1]
        if res is None:
            return None
        if m == "hover":
            return None if isinstance(res, dict) and "contents" in res else "hover result without contents"
        if m in ("definition", "implementation"):
            if isinstance(res, dict):
                return None if "uri" in res and "range" in res else "location without uri/range"
            return None if isinstance(res, list) and all(isinstance(x, dict) and "uri" in x and "range" in x for x in res) else "not a location"
        if m == "references":
            return None if isinstance(res, list) and all(isinstance(x, dict) and "uri" in x and "range" in x for x in res) else "not a list of locations"
        if m == "documentHighlight":
            return None if isinstance(res, list) and all(isinstance(x, dict) and "range" in x for x in res) else "not a list of highlights"
        if m == "rename":
            ok = isinstance(res, dict) and isinstance(res.get("changes"), dict) and all(
                isinstance(v, list) and all(isinstance(e, dict) and "range" in e and isinstance(e.get("newText"), str) for e in v) for v in res["changes"].values())
            return None if ok else "not a workspace edit"
        if m == "signatureHelp":
            ok = isinstance(res, dict) and isinstance(res.get("signatures"), list) and all(isinstance(s, dict) and isinstance(s.get("label"), str) for s in res["signatures"])
            if ok and res["signatures"] and "activeParameter" in res:
                ap = res["activeParameter"]
                if not isinstance(ap, int) or ap < 0:
                    return "negative or non-integer activeParameter"
            return None if ok else "not a signature help"
        if m == "completion":
            items = res.get("items") if isinstance(res, dict) else res
            return None if isinstance(items, list) and all(isinstance(i, dict) and isinstance(i.get("label"), str) for i in items) else "not a completion list"
        if m == "codeAction":
            return None if isinstance(res, list) else "not a list of actions"
        return None

    def open(self, path, text=None):
        if text is not None:
            with open(path, "w", encoding="utf-8", newline="") as f:
                f.write(text)
        self.conn.take()
        impl.did_open(self.srv, path)
        for o in self.conn.take():
            if o[0] == "n" and o[1] == "textDocument/publishDiagnostics":
                from .c05 import impl_path
                dpath = impl_path(o[2]["uri"])
                lines = self.lines_of(dpath)
                for d in o[2]["diagnostics"]:
                    p = valid_range(d.get("range"), lines or [])
                    if p:
                        self.report("C09:range-diagnostic", "a published diagnostic addresses a place that does not exist: %s (%s)" % (p, d.get("message")),
                                    {"file": os.path.relpath(dpath, self.root), "text": "\n".join(lines or [])[:3000]}, d)
            if o[0] == "e":
                self.report("C09:error-didOpen", "didOpen answered with an error", {"file": path}, list(o))

    def positions(self, lines, step):
        out = []
        n = len(lines)
        k = 0
        for li in list(range(n)) + [n, n + 5]:
            ln = len(lines[li]) if li < n else 0
            for ch in list(range(ln + 1)) + [ln + 3]:
                k += 1
                if k % step == 0 or ch in (0, ln) or li >= n:
                    out.append((li, ch))
        out.append((-1, 0)) if False else None
        return out

    def sweep_doc(self, path, step, heavy_step):
        lines = self.lines_of(path) or []
        rel = os.path.relpath(path, self.root)
        n_req = 0
        for idx, (li, ch) in enumerate(self.positions(lines, step)):
            for method in METHODS:
                if method in HEAVY and idx % heavy_step:
                    continue
                p = impl.pos_params(path, li, ch)
                if method.endswith("references"):
                    # the three forms a client may send: with the declaration, without it, no context at all
                    k = (idx + li) % 3
                    if k < 2:
                        p["context"] = {"includeDeclaration": k == 0}
                if method.endswith("rename"):
                    p["newName"] = "zz_new"
                if method.endswith("codeAction"):
                    p = {"textDocument": p["textDocument"], "range": {"start": p["position"], "end": {"line": li + 1, "character": 0}}, "context": {"diagnostics": []}}
                try:
                    resp, out = impl.request(self.srv, self.conn, method, p)
                except BaseException as e:      # noqa: BLE001 -- an exception escaping handle() is a finding, not a harness error
                    if isinstance(e, (KeyboardInterrupt, SystemExit)):
                        raise
                    resp, out = ("e", 0, -1, "exception escaped LangServer.handle: %r" % (e,)), []
                n_req += 1
                inp = {"file": rel, "method": method, "line": li, "character": ch, "line_text": lines[li] if li < len(lines) else None}
                if rel.startswith(("mut_", "gen_", "hostile_", "hist_")):
                    inp["text"] = "\n".join(lines)[:6000]      # generated documents are not on disk after the run
                if resp is None:
                    self.report("C09:no-response-" + method.split("/")[-1], "%s got no response" % method, inp, None)
                    continue
                if resp[0] == "e":
                    self.report("C09:error-" + method.split("/")[-1], "%s answered with an error: %s" % (method, str(resp[3])[:200]), inp, list(resp))
                    continue
                prob = self.shape(method, resp[2])
                if prob:
                    self.report("C09:shape-" + method.split("/")[-1], "%s: %s" % (method, prob), inp, resp[2])
                    continue
                self.check_locs(resp[2], method, inp, path)
        return n_req


def run_sweep(ctx, quick):
    root = tempfile.mkdtemp(prefix="verif_c09_")
    try:
        src = os.path.join(root, "ws")
        shutil.copytree(os.path.join(REPO, "test", "test_source"), src, ignore=shutil.ignore_patterns("*.log"))
        sw = Sweep(ctx, src)
        files = []
        for d, _, fs in os.walk(src):
            for f in sorted(fs):
                if f.lower().endswith((".f90", ".f", ".f08", ".f03", ".f95", ".for", ".fpp", ".F90".lower(), ".h", ".inc")):
                    files.append(os.path.join(d, f))
        files.sort()
        total = 0
        # hostile texts and generated programs first (small), then the sample sources
        for i, t in enumerate(HOSTILE):
            p = os.path.join(src, "hostile_%d.f90" % i)
            sw.open(p, t)
            total += sw.sweep_doc(p, 1 if not quick else 2, 3)
            ctx.count(("hostile", i), True)
        # preprocessed documents: the text the parser reads differs from the text of the document, line by line in length
        for i, t in enumerate(HOSTILE_PP):
            p = os.path.join(src, "hostile_pp_%d.F90" % i)
            sw.open(p, t)
            total += sw.sweep_doc(p, 1, 1)
            ctx.count(("hostile-pp", i), True)
        for k in range(3 if quick else 25):
            g = c04.Gen(ctx.rng, keyword_names=(k % 2 == 1))
            lines = []
            c04.render_text([g.unit() for _ in range(2)], ctx.rng, lines)
            p = os.path.join(src, "gen_%d.f90" % k)
            sw.open(p, "\n".join(lines) + "\n")
            total += sw.sweep_doc(p, 11 if quick else 3, 5)
            ctx.count(("gen", "\n".join(lines)), True)
        # mutants of the sample sources (the C03 input generator), swept at sampled positions
        from . import c03
        for k, (name, kind, ext, text) in enumerate(c03.gen_inputs(ctx.rng, c03.sample_sources(), 12 if quick else 300)):
            if "\x00" in text:
                continue
            p = os.path.join(src, "mut_%d%s" % (k, ext))
            sw.open(p, text)
            total += sw.sweep_doc(p, 41 if quick else 7, 9)
            ctx.count(("mutant", name, kind, ext, text), True)
            impl.did_close(sw.srv, p)
            os.unlink(p)
        chosen = files if not quick else [f for i, f in enumerate(files) if i % 3 == ctx.seed % 3]
        for f in chosen:
            sw.open(f)
            total += sw.sweep_doc(f, 37 if quick else 5, 7 if quick else 5)
            ctx.count(("sample", os.path.relpath(f, src)), True)
        total += history_phase(ctx, sw, src)
        # non-positional answers carry locations too
        for f in chosen[:40]:
            resp, _ = impl.request(sw.srv, sw.conn, "textDocument/documentSymbol", {"textDocument": {"uri": impl.uri(f)}})
            if resp and resp[0] == "r":
                sw.check_locs(resp[2], "textDocument/documentSymbol", {"file": os.path.relpath(f, src)}, f)
            elif resp:
                sw.report("C09:error-documentSymbol", "documentSymbol answered with an error: %s" % str(resp[3])[:200], {"file": os.path.relpath(f, src)}, list(resp))
        resp, _ = impl.request(sw.srv, sw.conn, "workspace/symbol", {"query": ""})
        if resp and resp[0] == "r":
            sw.check_locs(resp[2], "workspace/symbol", {"query": ""}, None)
        ctx.cov["requests"] = total
    finally:
        shutil.rmtree(root, ignore_errors=True)


def history_phase(ctx, sw, src):
    """positional requests while buffers are edited but not saved, and after a file is deleted and closed"""
    a = os.path.join(src, "hist_consts.f90")
    b = os.path.join(src, "hist_user.f90")
    inc = os.path.join(src, "hist_short_inc.f90")
    sw.open(a, "module hist_consts\n  implicit none\n  real :: hist_tol = 1.0\n  type :: hist_t\n    integer :: k\n  end type\ncontains\n  subroutine hist_init(x)\n    real :: x\n"
               "  end subroutine\nend module hist_consts\n")
    sw.open(b, "module hist_user\n  use hist_consts\n  implicit none\n  type(hist_t) :: obj\ncontains\n  subroutine run(y)\n    real :: y\n    y = hist_tol\n    call hist_init(y)\n"
               "    obj%k = 1\n  end subroutine run\n  subroutine hist_long(hist_value_in)\n    real :: hist_value_in\n    hist_value_in = 1.0 + hist_value_in\n"
               "  end subroutine hist_long\nend module hist_user\n")
    total = sw.sweep_doc(b, 3, 2)
    # unsaved edit of the used module: renamed, then emptied, then syntactically broken
    sw.unsaved_other = "hist_consts.f90"
    for new_text in ("module hist_renamed\n  real :: hist_tol\nend module hist_renamed\n", "", "module hist_consts\n type :: hist_t\n"):
        n_old = len(sw.lines_of(a) or [""])
        impl.did_change(sw.srv, a, [{"range": {"start": {"line": 0, "character": 0}, "end": {"line": n_old + 1, "character": 0}}, "text": new_text}])
        total += sw.sweep_doc(b, 3, 2)
        total += sw.sweep_doc(a, 2, 2)
    # the file disappears from disk and is closed; links are rebuilt by the next save
    os.unlink(a)
    impl.did_close(sw.srv, a)
    total += sw.sweep_doc(b, 3, 2)
    impl.did_save(sw.srv, b)
    sw.unsaved_other = None
    total += sw.sweep_doc(b, 3, 2)
    ctx.count(("history", "unsaved-rename/empty/broken, delete+close"), True)
    # single-line edits of the swept document itself (no line break: the in-place path of apply_change) between full sweeps:
    # `    hist_value_in = 1.0 + hist_value_in` loses `1.0 + `: the second occurrence moves left by less than its length, so the
    # old columns still point into the name but end beyond the new end of the line; then it moves back.
    # Whatever a handler remembered of the old line must not leak into an answer
    total += sw.sweep_doc(b, 1, 1)
    for (c0, c1, txt) in ((20, 26, ""), (20, 20, "1.0 +    ")):
        impl.did_change(sw.srv, b, [{"range": {"start": {"line": 13, "character": c0}, "end": {"line": 13, "character": c1}}, "text": txt}])
        total += sw.sweep_doc(b, 1, 1)
    ctx.count(("history", "single-line edits between sweeps"), True)
    # an entity of a short INCLUDEd file duplicates one of the includer, far down in the includer: both documents publish
    # diagnostics (validated by the sweep of every published range), neither may address a line of the other
    dup_inc = os.path.join(src, "hist_dup_inc.f90")
    dup_main = os.path.join(src, "hist_dup_main.f90")
    sw.open(dup_inc, "integer :: hist_dup\n")
    sw.open(dup_main, "program hist_dup_main\n use hist_nowhere_mod\n implicit none\n integer :: hist_dup\n\n\n\n\n include 'hist_dup_inc.f90'\n hist_dup = 1\nend program hist_dup_main\n")
    sw.open(dup_inc)        # opened again: diagnostics are published (and validated) with the INCLUDE resolved
    sw.open(dup_main)
    total += sw.sweep_doc(dup_inc, 1, 1)
    total += sw.sweep_doc(dup_main, 3, 2)
    # known finding: go-to-definition on an INCLUDE statement reports the line of the statement as a line of the included file
    with open(inc, "w") as f:
        f.write("integer :: hist_z\n")
    p = os.path.join(src, "hist_inc.f90")
    sw.open(inc)
    sw.open(p, "program hist_inc\n implicit none\n\n\n\n include 'hist_short_inc.f90'\n hist_z = 1\nend program hist_inc\n")
    resp, _ = impl.request(sw.srv, sw.conn, "textDocument/definition", impl.pos_params(p, 5, 12))
    if resp and resp[0] == "r" and resp[2]:
        from .c05 import impl_path
        tgt = impl_path(resp[2]["uri"])
        lines = sw.lines_of(tgt) or []
        prob = valid_range(resp[2]["range"], lines)
        if prob:
            sw.ctx.report("C09:include-definition-line", "go-to-definition on an INCLUDE statement answers with the line of the statement inside the included file: %s" % prob,
                          {"kind": "counterexample", "input": {"file": "hist_inc.f90", "line": 5, "character": 12, "included": "integer :: hist_z"}, "implementation": resp[2]["range"]})
    return total


def check_model(ctx, n):
    """C09.Model.find_word / range_json against the implementation"""
    from fortls.helper_functions import find_word_in_line
    from fortls.json_templates import range_json
    coq = ctx.coq(IMPORTS)
    r = ctx.rng
    exprs, meta = [], []
    words = ["x", "ab", "a_b", "x1", "sin"]
    for _ in range(n):
        w = r.choice(words)
        line = "".join(r.choice([w, w + "x", "x" + w, " ", "(", "%", ",", "_", "1", w.upper()[:1]]) for _ in range(r.choice([0, 1, 3, 6])))
        got = find_word_in_line(line, w)
        ctx.count(("fw", line, w), w in line)
        exprs.append("span_eqb (find_word %s %s) (%s, %s)" % (cstr(line), cstr(w), ("(-1)%Z" if got.start < 0 else "%d%%Z" % got.start), "%d%%Z" % got.end))
        meta.append(("find_word", line, w, tuple(got)))
    for _ in range(n // 4):
        a = [r.choice([0, 1, 2, 5]) for _ in range(2)]
        b = [r.choice([None, 0, 1, 3, 7]) for _ in range(2)]
        got = range_json(a[0], a[1], b[0], b[1])["range"]
        opt = lambda v: "None" if v is None else "(Some %s)" % cnat(v)
        exprs.append("range_eqb (range_json %s %s %s %s) ((%s, %s), (%s, %s))" % (cnat(a[0]), cnat(a[1]), opt(b[0]), opt(b[1]),
                     cnat(got["start"]["line"]), cnat(got["start"]["character"]), cnat(got["end"]["line"]), cnat(got["end"]["character"])))
        meta.append(("range_json", a, b, got))
        ctx.count(("rj", tuple(a), tuple(b)), True)
    # get_code_line hands over views of document lines (hypothesis views_ok) and find_word_in_code_line follows the model
    import re
    from . import c03
    from fortls.parsers.internal.parser import FortranFile, splitlines
    srcs = [t for (_, t) in c03.sample_sources()]
    srcs += ["integer :: a, & ! c\n  &  b, &\n\n! x\n   c\ncall s(a, &\n#ifdef X\n b, &\n#endif\n c)\n",
             "      integer a,\n     & b,\n     1 c\n      end\n"]
    for _ in range(n // 2):
        text = r.choice(srcs)
        f = FortranFile("/nonexistent/x%s" % r.choice([".f90", ".f"]))
        f.set_contents(splitlines(text))
        doc = list(f.contents_split)
        if not doc:
            continue
        ln = r.randrange(len(doc))
        bf, ff = r.random() < 0.5, r.random() < 0.8
        try:
            pre, cur, post = f.get_code_line(ln, forward=ff, backward=bf)
        except Exception as e:      # noqa: BLE001
            ctx.report("C09:get-code-line-raises", "get_code_line raises %r" % (e,), {"kind": "counterexample", "input": {"text": text[:2000], "line": ln}})
            continue
        back = list(reversed(pre))
        ok = cur is None or len(cur) <= len(doc[ln])
        ok = ok and all(ln - (i + 1) >= 0 and len(l) <= len(doc[ln - (i + 1)]) for i, l in enumerate(back))
        ok = ok and all(ln + i + 1 < len(doc) and len(l) <= len(doc[ln + i + 1]) for i, l in enumerate(post))
        ctx.count(("views", text[:200], ln, bf, ff), bool(back or post))
        if not ok:
            ctx.report("C09:views", "get_code_line hands over a line longer than the document line it stands for (hypothesis views_ok of "
                       "link_and_diagnostic_ranges_valid)", {"kind": "counterexample", "input": {"text": text[:3000], "line": ln, "forward": ff, "backward": bf},
                                                           "implementation": {"pre": pre, "cur": cur, "post": post}})
            continue
        pool = re.findall(r"[A-Za-z_]\w*", " ".join([cur or ""] + back + post)) or ["x"]
        word = r.choice(pool + ["zz_absent"])
        if any(ord(c) > 127 for c in (cur or "") + "".join(back) + "".join(post)):
            continue
        gl, grg = f.find_word_in_code_line(ln, word, forward=ff, backward=bf)
        where = "Here" if gl == ln else ("(Back %d)" % (ln - gl - 1) if gl < ln else "(Fwd %d)" % (gl - ln - 1))
        e = "match find_in_code_line %s %s %s %s %s %s with (w, rg) => %s end" % (
            "None" if cur is None else "(Some %s)" % cstr(cur), clist(back, cstr), clist(post, cstr), "true" if bf else "false", "true" if ff else "false", cstr(word),
            ("where_eqb w %s && (fst rg =? %d)%%Z && (snd rg =? %d)%%Z" % (where, grg.start, grg.end)) if grg.start >= 0 else "(fst rg <? 0)%Z")
        exprs.append(e)
        meta.append(("find_in_code_line", text[:300], ln, word))
    bad = coq.bools(exprs, shard=400)
    ctx.cov["traces_validated_against_impl"] += len(exprs)
    for b in bad[:3]:
        ctx.report("C09:model-impl-mismatch", "%s differs from C09.Model" % meta[b][0], {"kind": "broken-correspondence", "input": {"case": repr(meta[b])},
                                                                                        "correspondence": "FV.C09.Model." + meta[b][0]}, found_input=False)


def search_failing(ctx):
    run_sweep(ctx, True)
    return None


def run(ctx):
    ctx.cov["trusted_base"] = BASE_TRUST + [
        "regex translator + engine fidelity (WORD)",
        "sweep harness: LSP result shapes and range validation against the server's own text of the target document (harness/props/c09.py)",
    ]
    ctx.assumptions = [
        "partial: totality of the handlers is established by the sweep (all positions of hostile texts, sampled positions of the sample sources), "
        "not by a theorem; the theorems cover where returned coordinates come from (word search, continuation-line search, range_json, Diagnostic.build)",
    ]
    ctx.cov["rule"] = ("documents: hostile texts (all positions), generated programs, the repository's sample sources (a third per quick run, chosen by seed; all in "
                       "thorough); positions: inside, at and beyond line ends, beyond the last line; nine positional methods (references/highlight/rename "
                       "sub-sampled); every range in results and diagnostics validated")
    ctx.proof_obligations(search=lambda: search_failing(ctx))
    from .. import regexfid
    regexfid.run(ctx, 20 if ctx.quick() else 400)
    check_model(ctx, 400 if ctx.quick() else 6000)
    run_sweep(ctx, ctx.quick())


def replay(ctx, path):
    with open(path) as f:
        doc = json.load(f)
    print(json.dumps(doc.get("input"), indent=1)[:2000])
    shutil.rmtree(ctx.workdir, ignore_errors=True)
    return 0
