"""C18 -- exactly the configured source files are indexed at start-up.

Obligations: C18/Props.v.  Correspondence: C18.Model.discover (with C18.Suffix.src_suffix_ok built
from the generated default pattern) against LangServer after serve_initialize on generated
directory trees.  Oracle: the specification set computed independently (own glob).
"""
from __future__ import annotations

import json
import os
import shutil
import tempfile

from .. import impl
from ..common import BASE_TRUST, clist, cstr
from ..translators import regex as regex_tr

IMPORTS = ("From Coq Require Import String.\nFrom FV Require Import Base.Str Base.Regex Gen.GenRegex C18.Model C18.Suffix.\n"
           "Definition set_eqb (a b : list path) := forallb (fun p => pmem p b) a && forallb (fun p => pmem p a) b.\n")

GOOD = [".f90", ".F90", ".f", ".F", ".for", ".FOR", ".fOr", ".f03", ".F08", ".fpp", ".FPP", ".f77", ".f95", ".F18", ".f05", ".fPp"]
BAD = [".f9", ".f90.bak", ".ff", ".txt", ".ff90", "f90", ".F900", ".f90x", ".fo", ".fp", ".9f", ""]
EXTRA = [".inc", ".h", "inc", ".FYP"]
EXTRA_CASE = [".INC", ".Inc", ".H", "INC", ".fyp", ".Fyp"]   # differ from a configurable suffix by letter case only
STEMS = ["a", "b", "mod_x", "x y", "q[1]", "é", "main", "t_tmp", "lib.v2", ".hid"]
DIRS = ["src", "sub", "inc", "skip", "d e", "lib", "x", ".gen", ".cache"]   # dot-directories: shell-style globbing would skip them, pathlib does not


def gen_tree(rng):
    """{relative path: 'F' | 'D'}"""
    t = {}
    dirs = [""]
    for _ in range(rng.choice([0, 1, 2, 3, 5, 7])):
        parent = rng.choice(dirs)
        if parent.count("/") >= 2:
            continue
        d = (parent + "/" if parent else "") + rng.choice(DIRS)
        if d not in t:
            t[d] = "D"
            dirs.append(d)
    for _ in range(rng.choice([1, 3, 5, 8, 12])):
        d = rng.choice(dirs)
        suf = rng.choice(GOOD + GOOD + BAD + EXTRA + EXTRA_CASE)
        n = rng.choice(STEMS) + suf
        if rng.random() < 0.1:
            n = rng.choice(STEMS) + rng.choice(["_tmp.f90", "_h5.F90"])
        p = (d + "/" if d else "") + n
        if p not in t and n:
            t[p] = "F"
    return t


def gen_cfg(rng, t, root):
    dirs = [p for p, k in t.items() if k == "D"]
    files = [p for p, k in t.items() if k == "F"]
    cfg = {}

    def some_dir_patterns():
        pats = []
        for _ in range(rng.choice([1, 1, 2, 3])):
            k = rng.choice(["lit", "lit", "glob*", "**", "sub/**", "missing", "file", "abs", "absroot", "?", "dot"])
            if k == "lit" and dirs:
                pats.append(rng.choice(dirs))
            elif k == "glob*":
                pats.append(rng.choice(["*", "s*", "*/*", "*b", "*/s*"]))
            elif k == "**":
                pats.append("**")
            elif k == "sub/**" and dirs:
                pats.append(rng.choice(dirs) + "/**")
            elif k == "missing":
                pats.append("nope")
            elif k == "file" and files:
                pats.append(rng.choice(files).replace("[", "[[]"))
            elif k == "abs" and dirs:
                pats.append(root + "/" + rng.choice(dirs))
            elif k == "absroot":
                pats.append(root)
            elif k == "?":
                pats.append("su?")
            elif k == "dot":
                pats.append(rng.choice([".", "./"] + (["./" + rng.choice(dirs)] if dirs else [])))
        return pats
    if rng.random() < 0.55:
        pats = some_dir_patterns()
        if pats:      # an explicitly empty list is outside the domain (DESIGN.md, C18)
            cfg["source_dirs"] = pats
    if rng.random() < 0.5:
        ex = []
        for _ in range(rng.choice([1, 1, 2])):
            k = rng.choice(["dir", "file", "glob", "**f", "missing", "glob/"])
            if k == "dir" and dirs:
                ex.append(rng.choice(dirs))
            elif k == "file" and files:
                ex.append(rng.choice(files).replace("[", "[[]"))
            elif k == "glob":
                ex.append(rng.choice(["*/skip", "s*", "*/*.f90", "*.f90"]))
            elif k == "**f":
                ex.append(rng.choice(["**/a*", "**/skip", "**/*.F90"]))
            elif k == "missing":
                ex.append("nothere")
            elif k == "glob/":
                # with a trailing separator: directories only, files of the same spelling stay
                ex.append(rng.choice(["s*/", "*/", "a*/", "**/a*/", "*/s*/", "*.f90/"] + ([rng.choice(files).replace("[", "[[]")[:3] + "*/"] if files else [])))
        if ex:
            cfg["excl_paths"] = ex
    if rng.random() < 0.35:
        cfg["incl_suffixes"] = rng.sample(EXTRA, rng.choice([1, 2]))
    if rng.random() < 0.35:
        cfg["excl_suffixes"] = rng.sample(["_tmp.f90", ".F90", "_h5.F90", "90", ".f"], rng.choice([1, 2]))
    return cfg


def write_tree(root, t):
    for p, k in sorted(t.items()):
        full = os.path.join(root, p)
        if k == "D":
            os.makedirs(full, exist_ok=True)
    for i, (p, k) in enumerate(sorted(t.items())):
        if k == "F":
            full = os.path.join(root, p)
            os.makedirs(os.path.dirname(full), exist_ok=True)
            with open(full, "w") as f:
                f.write("module m_u%d\n integer :: v%d\nend module m_u%d\n" % (i, i, i))


# ----------------------------------------------------------------------------- independent glob + spec (oracle)

def seg_match(pat, name):
    """fnmatch for one path segment: * ? and [...] (only the [[] form is generated)"""
    def go(i, j):
        if i == len(pat):
            return j == len(name)
        c = pat[i]
        if c == "*":
            return any(go(i + 1, k) for k in range(j, len(name) + 1))
        if c == "?":
            return j < len(name) and go(i + 1, j + 1)
        if c == "[":
            end = pat.index("]", i + 2) if "]" in pat[i + 2:] else -1
            if end > 0:
                cls = pat[i + 1:end]
                return j < len(name) and name[j] in cls and go(end + 1, j + 1)
        return j < len(name) and name[j] == c and go(i + 1, j + 1)
    return go(0, 0)


def oracle_glob(t, pattern, root):
    """existing relative paths ('' = root) matched by a pathlib-style pattern"""
    if os.path.isabs(pattern):
        rel = os.path.relpath(pattern, root)
        if rel == ".":
            return [""]
        pattern = rel
    if pattern in (".", "./"):
        return [""]           # a pattern without any component names the root itself
    dirs_only = pattern.endswith("/") and pattern.strip("/") != ""
    if dirs_only:
        # a trailing separator: the pattern matches directories only
        return [p for p in oracle_glob(t, pattern.rstrip("/"), root) if p == "" or dict(t).get(p) == "D"]
    segs = [x for x in pattern.split("/") if x != "."]
    entries = dict(t)
    entries[""] = "D"

    def children(d):
        pre = d + "/" if d else ""
        return [p for p in entries if p and p.startswith(pre) and "/" not in p[len(pre):]]

    def subdirs_rec(d):
        out = [d]
        for c in children(d):
            if entries[c] == "D":
                out += subdirs_rec(c)
        return out
    cur = [""]
    for s in segs:
        nxt = []
        for d in cur:
            if entries.get(d) != "D":
                continue
            if s == "**":
                nxt += subdirs_rec(d)
            else:
                for c in children(d):
                    if seg_match(s, c.rsplit("/", 1)[-1]):
                        nxt.append(c)
        cur = list(dict.fromkeys(nxt))
    return cur


def default_suffix(name):
    low = name
    for dot in (".f", ".F"):
        for tail in ["", "77", "90", "95", "03", "05", "08", "18"]:
            if name.endswith(dot + tail):
                return True
        for tail in ("or", "pp"):
            if len(name) >= 4 and name[-4:-2] == dot and name[-2:].lower() == tail:
                return True
    return False


def oracle_spec(t, cfg, root):
    excl = set()
    for pat in cfg.get("excl_paths", []):
        excl.update(oracle_glob(t, pat, root))
    incl = cfg.get("incl_suffixes", [])
    exs = cfg.get("excl_suffixes", [])

    def suffix_ok(n):
        return default_suffix(n) or any(n.endswith(e) for e in incl)
    entries = dict(t)
    entries[""] = "D"

    def files_in(d):
        pre = d + "/" if d else ""
        return [p for p, k in t.items() if k == "F" and p.startswith(pre) and "/" not in p[len(pre):]]
    configured = cfg.get("source_dirs") or None
    if configured is None:
        dirs = {""} - excl
    else:
        dirs = set()
        for pat in configured:
            dirs.update(d for d in oracle_glob(t, pat, root) if entries.get(d) == "D")
        dirs -= excl
    if dirs == {""}:
        # nothing configured (or configured to exactly the root): every directory holding a source file
        dirs = {d for d, k in entries.items() if k == "D" and d not in excl and any(suffix_ok(p.rsplit("/", 1)[-1]) for p in files_in(d))}
    out = set()
    for d in dirs:
        for p in files_in(d):
            n = p.rsplit("/", 1)[-1]
            if suffix_ok(n) and p not in excl and not any(n.endswith(e) for e in exs):
                out.add(p)
    return out


# ----------------------------------------------------------------------------- model

def cpath(p):
    return clist([s for s in p.split("/") if s != ""], cstr)


def model_expr(t, cfg, root, expected):
    fs = clist(sorted(t.items()), lambda pk: "(%s, %s)" % (cpath(pk[0]), "KF" if pk[1] == "F" else "KD"))
    src = clist([oracle_glob(t, pat, root) for pat in (cfg.get("source_dirs") or [])], lambda l: clist(l, cpath))
    ex = clist([oracle_glob(t, pat, root) for pat in cfg.get("excl_paths", [])], lambda l: clist(l, cpath))
    c = "{| c_source := %s; c_excl := %s; c_excl_suf := %s; c_suffix_ok := src_suffix_ok %s |}" % (
        src, ex, clist(cfg.get("excl_suffixes", []), cstr), clist(cfg.get("incl_suffixes", []), cstr))
    return "set_eqb (discover %s %s) %s" % (fs, c, clist(sorted(expected), cpath))


# ----------------------------------------------------------------------------- implementation

def impl_discover(root, cfg, channel):
    from fortls.interface import cli as mkcli
    from fortls.langserver import LangServer
    cfgp = os.path.join(root, ".fortlsrc")
    if os.path.exists(cfgp):
        os.remove(cfgp)
    argv = ["--disable_autoupdate", "--nthreads", "1"]
    if channel == "file":
        with open(cfgp, "w") as f:
            json.dump(cfg, f)
    else:
        for k, v in cfg.items():
            argv += ["--" + k] + list(v)
    args = vars(mkcli("fortls").parse_args(argv))
    conn = impl.Conn()
    srv = LangServer(conn, args)
    srv.handle({"jsonrpc": "2.0", "id": 0, "method": "initialize", "params": {"rootPath": root}})
    out = conn.take()
    ok = any(o[0] == "r" for o in out)
    files = {os.path.relpath(p, root) for p in srv._get_source_files()} if ok else None
    indexed = {os.path.relpath(p, root) for p in srv.workspace} if ok else None
    if os.path.exists(cfgp):
        os.remove(cfgp)
    return files, indexed, out


def run_cases(ctx, cases, label):
    coq = ctx.coq(IMPORTS)
    exprs = []
    results = []
    base = tempfile.mkdtemp(prefix="verif_c18_")
    try:
        for k, (t, cfg) in enumerate(cases):
            root = os.path.join(base, "r%d" % k)
            os.makedirs(root)
            root = os.path.realpath(root)
            # absolute patterns were generated against a placeholder
            cfg = json.loads(json.dumps(cfg).replace("<ROOT>", root))
            write_tree(root, t)
            channel = "file" if ctx.rng.random() < 0.6 else "cli"
            if channel == "cli" and any(not v for v in cfg.values()):
                channel = "file"
            got, indexed, out = impl_discover(root, cfg, channel)
            want = oracle_spec(t, cfg, root)
            results.append((t, cfg, channel, got, indexed, want, root))
            exprs.append(model_expr(t, cfg, root, got if got is not None else set()))
            shutil.rmtree(root, ignore_errors=True)
    finally:
        shutil.rmtree(base, ignore_errors=True)
    bad = set(coq.bools(exprs, shard=60))
    ctx.cov["traces_validated_against_impl"] += len(cases)
    dist = ctx.extra.setdefault("dist", {"file": 0, "cli": 0, "source_dirs": 0, "excl_paths": 0, "incl_suffixes": 0, "excl_suffixes": 0, "nothing_configured": 0})
    for k, (t, cfg, channel, got, indexed, want, root) in enumerate(results):
        dist[channel] += 1
        for key in ("source_dirs", "excl_paths", "incl_suffixes", "excl_suffixes"):
            dist[key] += key in cfg
        dist["nothing_configured"] += not cfg
        ctx.count((json.dumps(sorted(t.items())), json.dumps(cfg, sort_keys=True).replace(root, "<ROOT>")), bool(cfg) and len(t) > 2,
                  sample={"tree": sorted(t.items())[:12], "config": json.loads(json.dumps(cfg).replace(root, "<ROOT>")), "channel": channel,
                          "indexed": sorted(got or [])[:8]})
        inp = {"tree": sorted(t.items()), "config": json.loads(json.dumps(cfg).replace(root, "<ROOT>")), "channel": channel}
        if got is None:
            ctx.report("C18:initialize-failed", "initialize did not complete on a generated tree",
                       {"kind": "counterexample", "input": inp})
        elif got != want or indexed != want:
            ctx.report("C18:file-set", "the set of indexed files differs from the specification",
                       {"kind": "counterexample", "input": inp, "implementation": {"source_files": sorted(got), "workspace": sorted(indexed)},
                        "oracle": sorted(want), "missing": sorted(want - got), "unexpected": sorted(got - want), "stream": label})
        elif k in bad:
            ctx.report("C18:model-impl-mismatch", "C18.Model.discover differs from _get_source_files",
                       {"kind": "broken-correspondence", "input": inp, "implementation": sorted(got),
                        "correspondence": "FV.C18.Model.discover vs LangServer._get_source_files"}, found_input=False)


def fixed_cases():
    t = {"a.f90": "F", "b.txt": "F", "sub": "D", "sub/x.F": "F", "sub/y.f90.bak": "F", "empty": "D", "sub/deep": "D", "sub/deep/z.for": "F",
         "skip": "D", "skip/s.f90": "F", "c.inc": "F", "t_tmp.f90": "F", "d.INC": "F", "sub/e.Inc": "F", "up": "D", "up/only.INC": "F",
         "sub/.gen": "D", "sub/.gen/g.f90": "F", "skip/.cache": "D", "skip/.cache/h.f90": "F", "s_tool.f90": "F", "sub/x_more.f90": "F"}
    cfgs = [{}, {"source_dirs": ["sub"]}, {"source_dirs": ["sub/**"]}, {"source_dirs": ["**"]}, {"excl_paths": ["skip"]},
            {"excl_paths": ["sub"]}, {"incl_suffixes": [".inc"]}, {"excl_suffixes": ["_tmp.f90"]}, {"source_dirs": ["<ROOT>"]},
            {"source_dirs": ["sub", "nope"], "excl_paths": ["sub/x.F"]}, {"excl_paths": ["**/*.f90"]},
            {"source_dirs": ["sub/*"]}, {"source_dirs": ["*/*"]}, {"excl_paths": ["skip/**"]}, {"excl_paths": ["*/.*"]},
            {"excl_paths": ["s*/"]}, {"excl_paths": ["sub/x*/", "*/"]}, {"source_dirs": ["."]}, {"source_dirs": ["./", "sub"]},
            {"source_dirs": ["./sub", "."], "excl_paths": ["./skip"]}]
    return [(t, c) for c in cfgs]


def search_failing(ctx):
    """used when an obligation breaks: the fixed cases against the independent specification"""
    base = tempfile.mkdtemp(prefix="verif_c18_s_")
    try:
        for k, (t, cfg) in enumerate(fixed_cases()):
            root = os.path.realpath(os.path.join(base, "r%d" % k))
            os.makedirs(root)
            cfg = json.loads(json.dumps(cfg).replace("<ROOT>", root))
            write_tree(root, t)
            got, indexed, out = impl_discover(root, cfg, "file")
            want = oracle_spec(t, cfg, root)
            if got != want:
                return ("C18:file-set", "the set of indexed files differs from the specification",
                        {"kind": "counterexample", "input": {"tree": sorted(t.items()), "config": json.loads(json.dumps(cfg).replace(root, "<ROOT>")), "channel": "file"},
                         "implementation": sorted(got or []), "oracle": sorted(want)})
    finally:
        shutil.rmtree(base, ignore_errors=True)
    return None


def run(ctx):
    ctx.cov["trusted_base"] = BASE_TRUST + [
        "regex translator (re._parser -> Gen/GenRegex.v) for the default suffix expression; engine fidelity measured this run",
        "hand-written model C18/Model.v + C18/Suffix.v tied to LangServer by differential execution on generated directory trees (this run)",
        "glob expansion is data of the model (lists of existing paths); the oracle uses its own glob implementation",
    ]
    ctx.assumptions = ["no symbolic links; POSIX paths; pathlib.Path.glob/resolve, os.walk, os.listdir as documented",
                       "the default suffix expression is characterised by a bounded exhaustive check, not by an unbounded theorem"]
    ctx.cov["rule"] = ("directory trees (0-7 directories, depth <= 3, 1-12 files with default/look-alike/additional suffixes, names with blanks, "
                       "brackets, non-ASCII) x configurations (source_dirs literal/glob/**/missing/file/absolute, excl_paths literal/glob, "
                       "incl_suffixes, excl_suffixes) by file or command line; non-trivial = some option configured and > 2 entries; distinct by (tree, config)")
    changed = regex_tr.regenerate()
    ctx.extra["translator"] = {"regenerated": changed}
    ctx.proof_obligations(search=lambda: search_failing(ctx))
    from .. import regexfid
    regexfid.run(ctx, 150 if ctx.quick() else 3000, only={"SRC_EXT_DEFAULT", "SRC_EXT_DEFAULT_BODY"})
    run_cases(ctx, fixed_cases(), "fixed")
    n = 150 if ctx.quick() else 4000
    cases = []
    for _ in range(n):
        t = gen_tree(ctx.rng)
        cases.append((t, gen_cfg(ctx.rng, t, "<ROOT>")))
    run_cases(ctx, cases, "random")


def replay(ctx, path):
    with open(path) as f:
        doc = json.load(f)
    t = dict((p, k) for p, k in doc["input"]["tree"])
    base = tempfile.mkdtemp(prefix="verif_c18_")
    root = os.path.realpath(base)
    try:
        cfg = json.loads(json.dumps(doc["input"]["config"]).replace("<ROOT>", root))
        write_tree(root, t)
        got, indexed, out = impl_discover(root, cfg, doc["input"]["channel"])
        want = oracle_spec(t, cfg, root)
        print("implementation:", sorted(got or []))
        print("oracle:", sorted(want))
        return 0 if got == want else 1
    finally:
        shutil.rmtree(base, ignore_errors=True)
        shutil.rmtree(ctx.workdir, ignore_errors=True)
