"""C02 -- the server's document text equals the client's after any edit sequence.

Obligations: coq/theories/C02/Props.v.  Correspondence: C02/Model.v `apply_changes` against
FortranFile.apply_change and LangServer.serve_onChange.  Oracle: a reference LSP client.
"""
from __future__ import annotations

import glob
import json
import os
import shutil
import tempfile

from .. import impl
from ..common import BASE_TRUST, CORPUS, CoqError, cnat, cstr, clist, parse_coq_str_list

IMPORTS = "From FV Require Import Base.Str Base.Lines C02.Model."

# ----------------------------------------------------------------------------- reference client


def ref_breaks(text):
    """[(start, end)] of every line terminator (LSP: \\n, \\r\\n, \\r), by hand."""
    out = []
    i = 0
    n = len(text)
    while i < n:
        c = text[i]
        if c == "\r":
            if i + 1 < n and text[i + 1] == "\n":
                out.append((i, i + 2)); i += 2
            else:
                out.append((i, i + 1)); i += 1
        elif c == "\n":
            out.append((i, i + 1)); i += 1
        else:
            i += 1
    return out


def ref_lines(text):
    out = []
    p = 0
    for s, e in ref_breaks(text):
        out.append(text[p:s]); p = e
    out.append(text[p:])
    return out


def u16len(s):
    return sum(2 if ord(c) > 0xFFFF else 1 for c in s)


def ref_offset(text, line, ch, utf16=True):
    """Offset of an LSP position; character clamped to the line length; None if the
    line does not exist."""
    starts = [0] + [e for _, e in ref_breaks(text)]
    ends = [s for s, _ in ref_breaks(text)] + [len(text)]
    if line >= len(starts):
        return None
    s, e = starts[line], ends[line]
    if not utf16:
        return min(s + ch, e)
    k = s
    units = 0
    while k < e and units < ch:
        units += 2 if ord(text[k]) > 0xFFFF else 1
        k += 1
    return k


def ref_apply(text, rng, new):
    if rng is None:
        return new
    sl, sc, el, ec = rng
    a = ref_offset(text, sl, sc)
    b = ref_offset(text, el, ec)
    if a is None or b is None or a > b:
        return None
    return text[:a] + new + text[b:]


def junction_dirty(text, rng, new):
    if rng is None:
        return False
    sl, sc, el, ec = rng
    a = ref_offset(text, sl, sc)
    b = ref_offset(text, el, ec)
    if a is None or b is None:
        return False
    pre, suf = text[:a], text[b:]
    left = pre + new
    return (pre.endswith("\r") and new.startswith("\n")) or (left.endswith("\r") and suf.startswith("\n"))


# ----------------------------------------------------------------------------- generator

ALPHA = "abxyz  '\"!&;()=,%_09"


def gen_line(rng, wide=False):
    n = rng.choice([0, 0, 1, 2, 3, 5, 8, 12])
    # wide: non-ASCII letters, and the characters str.splitlines() would break a line at although an LSP client does not
    # (form feed, vertical tab, FS/GS/RS, NEL, LINE/PARAGRAPH SEPARATOR)
    pool = ALPHA + ("ééλ\x0c\x0b\x1c\x1d\x1e\x85\u2028\u2029" if wide else "")
    return "".join(rng.choice(pool) for _ in range(n))


def gen_text(rng, term, nlines, wide=False):
    parts = []
    for i in range(nlines):
        parts.append(gen_line(rng, wide))
        if i < nlines - 1:
            t = term if term != "mixed" else rng.choice(["\n", "\r\n", "\r"])
            parts.append(t)
    return "".join(parts)


def gen_history(rng, dirty_ok=False):
    style = rng.choices(["\n", "\r\n", "\r", "mixed"], [50, 30, 12, 8 if dirty_ok else 0])[0]
    wide = rng.random() < 0.25
    text = gen_text(rng, style, rng.choice([1, 1, 2, 3, 4, 6, 9]), wide)
    if rng.random() < 0.3 and text:
        text += style if style != "mixed" else "\n"
    changes = []
    cur = text
    for _ in range(rng.choice([1, 1, 2, 3, 4, 6, 8])):
        lines = ref_lines(cur)
        kind = rng.choices(["ins", "del", "rep", "full", "eof", "wild"], [30, 20, 30, 4, 4, 4])[0]
        nl = rng.choice([0, 0, 0, 1, 1, 2, 3])
        ins_style = style
        new = gen_text(rng, ins_style, nl + 1, wide)
        if rng.random() < 0.25:
            new += ins_style if ins_style != "mixed" else "\n"
        if kind == "del":
            new = ""
        if kind == "full":
            changes.append({"range": None, "text": new}); cur = new; continue
        if kind == "eof":
            r = [len(lines), 0, len(lines), 0]
        elif kind == "wild":
            sl = rng.randrange(0, len(lines) + 3)
            r = [sl, rng.randrange(0, 6), sl + rng.randrange(0, 3), rng.randrange(0, 6)]
        else:
            sl = rng.randrange(len(lines))
            sc = rng.choice([0, len(lines[sl]), rng.randrange(0, len(lines[sl]) + 1), len(lines[sl]) + rng.randrange(0, 3)])
            if kind == "ins":
                el, ec = sl, sc
            else:
                el = min(len(lines) - 1, sl + rng.choice([0, 0, 0, 1, 1, 2, 5]))
                if el == sl:
                    ec = max(sc, rng.choice([len(lines[sl]), rng.randrange(0, len(lines[sl]) + 1)]))
                else:
                    ec = rng.choice([0, len(lines[el]), rng.randrange(0, len(lines[el]) + 1)])
            r = [sl, sc, el, ec]
        changes.append({"range": r, "text": new})
        nxt = ref_apply(cur, r, new)
        if nxt is None:
            # outside the document: the client has no defined result; stop the history here
            break
        cur = nxt
    return {"initial": text, "changes": changes}


# ----------------------------------------------------------------------------- implementation

def lsp_change(ch):
    d = {"text": ch["text"]}
    if ch["range"] is not None:
        sl, sc, el, ec = ch["range"]
        d["range"] = {"start": {"line": sl, "character": sc}, "end": {"line": el, "character": ec}}
    return d


def impl_direct(case):
    """FortranFile.apply_change on its own; returns list of per-step line lists (None = raised)."""
    from fortls.parsers.internal.parser import FortranFile, splitlines
    f = FortranFile("/nonexistent/x.f90")
    f.set_contents(splitlines(case["initial"]))
    f.ast = None
    out = []
    for ch in case["changes"]:
        try:
            f.apply_change(lsp_change(ch))
        except Exception as ex:  # serve_onChange catches and aborts the remaining changes
            out.append(None)
            break
        out.append(list(f.contents_split))
    return out


def impl_server(case, root, k):
    """Through LangServer: file on disk, didOpen, one didChange carrying all changes."""
    path = os.path.join(root, "doc%d.f90" % k)
    with open(path, "w", encoding="utf-8", newline="") as fh:
        fh.write(case["initial"])
    srv = impl_server.srv
    impl.did_open(srv, path)
    fobj = srv.workspace.get(path)
    if fobj is None:
        return None
    opened = list(fobj.contents_split)
    # document versions as a client counts them: 1 at didOpen, +1 per didChange, starting over when the document is opened again
    impl.did_change(srv, path, [lsp_change(c) for c in case["changes"]], version=2)
    res = list(srv.workspace[path].contents_split)
    # the editor discards the buffer (close without saving) and opens the document again: the client now holds the disk text
    impl.did_close(srv, path)
    impl.did_open(srv, path)
    fobj = srv.workspace.get(path)
    reopened = list(fobj.contents_split) if fobj is not None else None
    # the same edits typed again in the new session (version 2 again): the same text must result
    impl.did_change(srv, path, [lsp_change(c) for c in case["changes"]], version=2)
    fobj = srv.workspace.get(path)
    again = list(fobj.contents_split) if fobj is not None else None
    impl.did_close(srv, path)
    os.remove(path)
    return opened, res, reopened, again


# ----------------------------------------------------------------------------- model

def coq_range(r):
    if r is None:
        return "None"
    return "(Some (%s, %s, %s, %s))" % tuple(cnat(x) for x in r)


def coq_changes(chs):
    return clist(chs, lambda c: "(%s, %s)" % (coq_range(c["range"]), cstr(c["text"])))


def coq_lines(lines):
    return clist(lines, cstr)


def model_expr(case):
    return "apply_changes (splitlines %s) %s" % (cstr(case["initial"]), coq_changes(case["changes"]))


# ----------------------------------------------------------------------------- the check

def client_history(case):
    """Reference client texts after each change; stops at the first undefined edit."""
    cur = case["initial"]
    texts = []
    dirty = False
    for ch in case["changes"]:
        if junction_dirty(cur, ch["range"], ch["text"]):
            dirty = True
        nxt = ref_apply(cur, ch["range"], ch["text"])
        if nxt is None:
            break
        cur = nxt
        texts.append(cur)
    return texts, dirty


def classify(case):
    """Signature of a client/server disagreement (narrow, per known finding)."""
    texts, dirty = client_history(case)
    if dirty:
        return "C02:cr-lf-junction"
    alltext = case["initial"] + "".join(c["text"] for c in case["changes"])
    if any(ord(c) > 0xFFFF for c in alltext):
        return "C02:utf16-astral"
    if "\t" in case["initial"] and case.get("mode") == "server":
        return "C02:tab-initial"
    return "C02:text-mismatch"


def in_document(case):
    texts, _ = client_history(case)
    return len(texts) == len(case["changes"])


def shrink(case, fails):
    """Greedy shrink: drop changes, then shorten strings."""
    best = case
    changed = True
    while changed:
        changed = False
        for i in range(len(best["changes"])):
            c = dict(best); c["changes"] = best["changes"][:i] + best["changes"][i + 1:]
            if c["changes"] and fails(c):
                best = c; changed = True; break
        if changed:
            continue
        if len(best["changes"]) > 1:
            c = dict(best); c["changes"] = best["changes"][:-1]
            if fails(c):
                best = c; changed = True
    return best


def oracle_fails(case):
    if not in_document(case):
        return False
    got = impl_direct(case)
    texts, _ = client_history(case)
    if not got or got[-1] is None:
        return True
    return (got[-1] or [""]) != ref_lines(texts[-1])


def run_cases(ctx, cases, label):
    """Correspondence (model vs impl) + oracle (impl vs reference client)."""
    coq = ctx.coq(IMPORTS)
    exprs = []
    impl_final = []
    for case in cases:
        steps = impl_direct(case)
        last_ok = None
        for s in steps:
            if s is None:
                break
            last_ok = s
        if last_ok is None:
            # raised on the first change: buffer unchanged
            from fortls.parsers.internal.parser import splitlines
            last_ok = splitlines(case["initial"])
        impl_final.append((steps, last_ok))
        exprs.append("lines_eqb (%s) %s" % (model_expr(case), coq_lines(last_ok)))
    bad = coq.bools(exprs)
    ctx.cov["traces_validated_against_impl"] += len(cases)
    for i in bad:
        case = cases[i]
        try:
            mval = parse_coq_str_list(coq.raw(model_expr(case)))
        except CoqError as ex:
            mval = str(ex)
        ctx.report("C02:model-impl-mismatch",
                   "apply_change differs from C02.Model.apply_changes",
                   {"kind": "broken-correspondence", "input": case, "implementation": impl_final[i][1],
                    "model": mval, "correspondence": "FV.C02.Model.apply_changes vs FortranFile.apply_change",
                    "stream": label},
                   found_input=oracle_fails(case))
    # oracle
    for case, (steps, last_ok) in zip(cases, impl_final):
        key = (case["initial"], json.dumps(case["changes"]))
        nontrivial = bool(case["changes"]) and (len(ref_lines(case["initial"])) > 1 or any(
            ("\n" in c["text"] or "\r" in c["text"]) for c in case["changes"]))
        ctx.count(key, nontrivial, sample=case)
        if not in_document(case):
            ctx.extra.setdefault("dist", {}).setdefault("outside_document", 0)
            ctx.extra["dist"]["outside_document"] += 1
            continue
        texts, dirty = client_history(case)
        raised = any(s is None for s in steps)
        want = ref_lines(texts[-1])
        got = last_ok if last_ok else [""]
        if raised or got != want:
            sig = classify(case)
            small = case
            if sig == "C02:text-mismatch":
                small = shrink(case, lambda c: oracle_fails(c) and classify(c) == sig)
            ctx.report(sig, "server text differs from the client's text",
                       {"kind": "counterexample", "input": small, "implementation": impl_direct(small)[-1],
                        "oracle": ref_lines(client_history(small)[0][-1]), "stream": label})


def run_server_cases(ctx, cases):
    root = tempfile.mkdtemp(prefix="verif_c02_ws_")
    try:
        srv, conn = impl.make_server(root)
        impl_server.srv = srv
        for k, case in enumerate(cases):
            case = dict(case); case["mode"] = "server"
            res = impl_server(case, root, k)
            ctx.count(("srv", case["initial"], json.dumps(case["changes"])), True)
            if res is None:
                ctx.report("C02:server-open-failed", "didOpen did not register the document",
                           {"kind": "counterexample", "input": case})
                continue
            opened, got, reopened, again = res
            if again != got:
                ctx.report("C02:second-session", "the same edits applied again after closing and re-opening the document give another text",
                           {"kind": "counterexample", "input": case, "implementation": again, "oracle": got, "stream": "server"})
            if reopened != opened:
                ctx.report("C02:reopen-stale", "after closing without saving and opening again the server does not hold the disk text",
                           {"kind": "counterexample", "input": case, "implementation": reopened, "oracle": opened, "stream": "server"})
            texts, dirty = client_history(case)
            if not in_document(case):
                continue
            want = ref_lines(texts[-1])
            got = got if got else [""]
            if got != want:
                sig = classify(case)
                ctx.report(sig, "server text (through didOpen/didChange) differs from the client's",
                           {"kind": "counterexample", "input": case, "implementation": got, "oracle": want,
                            "stream": "server"})
    finally:
        shutil.rmtree(root, ignore_errors=True)


def exhaustive_cases(maxdoc, maxins):
    import itertools
    sym = "a\n\r"
    cases = []
    for n in range(maxdoc + 1):
        for t in itertools.product(sym, repeat=n):
            text = "".join(t)
            lines = ref_lines(text)
            poss = [(l, c) for l in range(len(lines)) for c in range(len(lines[l]) + 1)]
            for m in range(maxins + 1):
                for ins in itertools.product(sym, repeat=m):
                    new = "".join(ins)
                    for i, p1 in enumerate(poss):
                        for p2 in poss[i:]:
                            cases.append({"initial": text, "changes": [{"range": [p1[0], p1[1], p2[0], p2[1]], "text": new}]})
    return cases


def search_failing(ctx):
    """Used when a proof obligation breaks: look for an input on which the property fails."""
    for case in exhaustive_cases(3, 1):
        if classify(case) == "C02:text-mismatch" and oracle_fails(case):
            return ("C02:text-mismatch", "server text differs from the client's text",
                    {"kind": "counterexample", "input": case, "implementation": impl_direct(case)[-1],
                     "oracle": ref_lines(client_history(case)[0][-1])})
    return None


def corpus_cases():
    out = []
    for p in sorted(glob.glob(os.path.join(CORPUS, "C02", "*.json"))):
        with open(p) as f:
            c = json.load(f)
        c["corpus"] = os.path.basename(p)
        out.append(c)
    return out


def run(ctx):
    ctx.cov["trusted_base"] = BASE_TRUST + [
        "hand-written model C02/Model.v tied to FortranFile.apply_change / serve_onChange by differential execution (this run)",
        "reference LSP client (harness/props/c02.py ref_apply) as property oracle",
    ]
    ctx.assumptions = [
        "positions are code-point indices as the code treats them (UTF-16 divergence right of astral characters is known finding C02:utf16-astral)",
        "theorem hypothesis junction-clean: no CR immediately before LF across an edit junction (known finding C02:cr-lf-junction)",
    ]
    ctx.cov["rule"] = ("random edit histories (documents 1-9 lines, LF/CRLF/CR/mixed terminators, insert/delete/replace, "
                       "single and multi line, whole document, end of file, out-of-range) + exhaustive documents over {a,LF,CR}; "
                       "non-trivial = history with at least one change that involves a line break in document or inserted text; "
                       "distinct = distinct (initial, changes)")
    ok = ctx.proof_obligations(search=lambda: search_failing(ctx))
    # 1. corpus (witnesses of the refuted lemmas and minimised past failures) always first
    cc = corpus_cases()
    direct = [c for c in cc if c.get("mode") != "server"]
    run_cases(ctx, direct, "corpus")
    run_server_cases(ctx, [c for c in cc if c.get("mode") == "server"])
    # 2. exhaustive small scope
    ex = exhaustive_cases(3 if ctx.quick() else 4, 1 if ctx.quick() else 2)
    ex_clean = [c for c in ex if not junction_dirty(c["initial"], c["changes"][0]["range"], c["changes"][0]["text"])]
    ctx.extra["exhaustive_small_scope"] = {"cases": len(ex), "junction_clean": len(ex_clean)}
    run_cases(ctx, ex_clean, "exhaustive")
    # 3. random histories
    n = 1500 if ctx.quick() else 30000
    cases = [gen_history(ctx.rng, dirty_ok=False) for _ in range(n)]
    dist = ctx.extra.setdefault("dist", {})
    dist["changes_per_history"] = {}
    for c in cases:
        k = str(len(c["changes"]))
        dist["changes_per_history"][k] = dist["changes_per_history"].get(k, 0) + 1
    dist["kinds"] = {
        "whole_document": sum(1 for c in cases for ch in c["changes"] if ch["range"] is None),
        "multi_line_insert": sum(1 for c in cases for ch in c["changes"] if "\n" in ch["text"] or "\r" in ch["text"]),
        "multi_line_range": sum(1 for c in cases for ch in c["changes"] if ch["range"] and ch["range"][0] != ch["range"][2]),
        "deletions": sum(1 for c in cases for ch in c["changes"] if ch["text"] == ""),
    }
    run_cases(ctx, cases, "random")
    # 4. through the server
    m = 150 if ctx.quick() else 1500
    scases = []
    while len(scases) < m:
        c = gen_history(ctx.rng)
        if "\t" in c["initial"]:
            continue
        scases.append(c)
    run_server_cases(ctx, scases)


def replay(ctx, path):
    with open(path) as f:
        doc = json.load(f)
    case = doc["input"]
    print("input:", json.dumps(case))
    print("implementation:", impl_direct(case))
    texts, dirty = client_history(case)
    print("client:", [ref_lines(t) for t in texts], "junction_dirty=", dirty)
    coq = ctx.coq(IMPORTS)
    print("model:", parse_coq_str_list(coq.raw(model_expr(case))))
    shutil.rmtree(ctx.workdir, ignore_errors=True)
    return 1 if oracle_fails(case) else 0
