"""C17 -- indexing never executes or writes anything on behalf of file contents.

Obligations: C17/Props.v over Gen/GenCalls.v (the complete call inventory, regenerated).
Oracle: audit-hook runs (harness/audit_run.py in a subprocess) over adversarial workspaces and
a before/after snapshot of the workspace directory.
"""
from __future__ import annotations

import json
import os
import shutil
import subprocess
import tempfile

from ..common import BASE_TRUST, PY, REPO, VERIF
from ..translators import calls as calls_tr

PAYLOADS = [
    "__import__('os').system('touch {root}/PWNED_{k}')",
    "open('{root}/PWNED_{k}','w').write('x')",
    "exec(\"open('{root}/PWNED_{k}','w')\")",
    "eval(\"__import__('os').mkdir('{root}/PWNED_{k}')\")",
    "().__class__.__base__.__subclasses__()",
    "(lambda: __import__('subprocess').run(['touch','{root}/PWNED_{k}']))()",
    "[__import__('os').remove('{root}/victim.txt') for _ in (1,)]",
    "__import__('shutil').rmtree('{root}/sub')",
    "1 if __import__('os').rename('{root}/victim.txt','{root}/PWNED_{k}') else 0",
    "compile('1','x','eval')",
    "globals()['__builtins__']",
    "`touch {root}/PWNED_{k}`",
    "$(touch {root}/PWNED_{k})",
    "; touch {root}/PWNED_{k} ;",
    "%s%s%s%n",
    "{{0.__class__}}",
]


def gen_workspace(rng, root, nfiles):
    os.makedirs(os.path.join(root, "sub"), exist_ok=True)
    with open(os.path.join(root, "victim.txt"), "w") as f:
        f.write("keep me\n")
    with open(os.path.join(root, "sub", "h.h"), "w") as f:
        f.write("#define FROM_HEADER %s\n" % rng.choice(PAYLOADS).format(root=root, k="h"))
    files = []
    for k in range(nfiles):
        p = rng.choice(PAYLOADS).format(root=root, k=k)
        p2 = rng.choice(PAYLOADS).format(root=root, k="b%d" % k)
        shape = rng.choice(["if", "define-if", "elif", "func", "include", "config-def", "body-use", "ifdef-name"])
        lines = ["module m%d" % k]
        if shape == "if":
            lines += ["#if %s" % p, "integer :: a", "#endif"]
        elif shape == "define-if":
            lines += ["#define X%d %s" % (k, p), "#if X%d" % k, "integer :: a", "#elif X%d > 1" % k, "integer :: b", "#endif", "#if defined(X%d) && X%d" % (k, k), "#endif"]
        elif shape == "elif":
            lines += ["#if 0", "#elif %s" % p, "integer :: a", "#else", "#endif"]
        elif shape == "func":
            lines += ["#define F%d(a,b) %s" % (k, p2), "#if F%d(1,2)" % k, "#endif", "x = F%d(%s, 2)" % (k, p)]
        elif shape == "include":
            lines += ['#include "sub/h.h"', "#if FROM_HEADER", "#endif", "#include \"%s\"" % p[:30].replace('"', ""), "include '%s'" % p2[:30].replace("'", "")]
        elif shape == "config-def":
            lines += ["#if CFG_EXPR", "integer :: a", "#endif", "#ifdef CFG_EXPR", "#endif"]
        elif shape == "body-use":
            lines += ["#define Y%d %s \\" % (k, p), "   %s" % p2, "y = Y%d" % k, "call s(Y%d)" % k]
        else:
            lines += ["#ifdef %s" % p, "#endif", "#ifndef %s" % p2, "#endif", "#undef %s" % p]
        lines += ["contains", "subroutine s%d(q)" % k, "integer :: q", "!> %s" % p, "q = 1 ! %s" % p2, "end subroutine s%d" % k, "end module m%d" % k]
        name = "f%d.%s" % (k, rng.choice(["F90", "F", "F90", "f90"]))
        with open(os.path.join(root, name), "w") as f:
            f.write("\n".join(lines) + "\n")
        files.append(name)
    cfg = {"pp_defs": {"CFG_EXPR": rng.choice(PAYLOADS).format(root=root, k="cfg")},
           "include_dirs": ["sub", rng.choice(PAYLOADS).format(root=root, k="inc")[:40]],
           "hover_language": rng.choice(PAYLOADS).format(root=root, k="hl")[:40],
           "pp_suffixes": [".F90", ".F", ".h"]}
    # values of the wrong type / path-like strings for options that name or enable files
    if rng.random() < 0.6:
        cfg["debug_log"] = rng.choice(["victim.txt", "sub/h.h", "../escaped.log", files[0], True, 1, "true"])
    if rng.random() < 0.3:
        cfg[rng.choice(["source_dirs", "include_dirs", "excl_paths"])] = ["victim.txt", "sub", "../"]
    with open(os.path.join(root, ".fortlsrc"), "w") as f:
        json.dump(cfg, f)
    return files


def snapshot(root):
    out = {}
    for d, dirs, fs in os.walk(root):
        for n in fs:
            p = os.path.join(d, n)
            try:
                with open(p, "rb") as f:
                    out[os.path.relpath(p, root)] = hash(f.read())
            except OSError:
                out[os.path.relpath(p, root)] = None
        for n in dirs:
            out[os.path.relpath(os.path.join(d, n), root) + "/"] = "dir"
    return out


def run_audit(root, files, extra=()):
    env = dict(os.environ)
    env["VERIF_REPO"] = REPO
    env["PYTHONHASHSEED"] = "0"
    p = subprocess.run([PY, os.path.join(VERIF, "harness", "audit_run.py"), root, json.dumps(files), *extra],
                       stdout=subprocess.PIPE, stderr=subprocess.PIPE, text=True, timeout=300, env=env)
    last = [l for l in p.stdout.strip().split("\n") if l.startswith("{")]
    if p.returncode != 0 or not last:
        return None, (p.stderr or p.stdout)[-1500:]
    return json.loads(last[-1]), None


def judge(res, before, after, root, debug_log):
    bad = []
    allowed_log = os.path.join(root, "fortls_debug.log")
    for ev in res["events"]:
        if ev[0] == "open-write" and debug_log and ev[1] == allowed_log:
            continue
        bad.append(ev)
    for k in set(before) | set(after):
        if before.get(k) != after.get(k):
            if debug_log and k == "fortls_debug.log":
                continue
            bad.append(["fs-change", k])
    return bad


def one_run(ctx, k, nfiles, debug_log):
    root = tempfile.mkdtemp(prefix="verif_c17_")
    try:
        files = gen_workspace(ctx.rng, root, nfiles)
        before = snapshot(root)
        res, err = run_audit(root, files, ["--debug_log"] if debug_log else [])
        after = snapshot(root)
        texts = {}
        for n in files + [".fortlsrc", "sub/h.h"]:
            with open(os.path.join(root, n)) as f:
                texts[n] = f.read()
        ctx.count(("ws", json.dumps(texts, sort_keys=True).replace(root, "<ROOT>")), True,
                  sample={"files": {n: t.replace(root, "<ROOT>")[:300] for n, t in list(texts.items())[:2]}})
        if res is None:
            ctx.report("C17:audit-run-failed", "the monitored run did not complete",
                       {"kind": "counterexample", "input": {"files": {n: t.replace(root, "<ROOT>") for n, t in texts.items()}}, "implementation": err})
            return
        # the log file is legitimate when the command line or a (valid, boolean) configuration value enables it
        try:
            cfg_log = json.loads(texts[".fortlsrc"]).get("debug_log") is True
        except ValueError:
            cfg_log = False
        bad = judge(res, before, after, root, debug_log or cfg_log)
        ctx.extra["responses"] = ctx.extra.get("responses", 0) + res.get("responses", 0)
        if bad:
            ctx.report("C17:effect:%s" % bad[0][0], "indexing/querying evaluated text or touched the file system: %s" % (bad[0],),
                       {"kind": "counterexample", "input": {"files": {n: t.replace(root, "<ROOT>") for n, t in texts.items()}, "debug_log": debug_log},
                        "implementation": [[str(x).replace(root, "<ROOT>") for x in ev] for ev in bad[:10]]})
    finally:
        shutil.rmtree(root, ignore_errors=True)


def search_failing(ctx):
    """a fixed adversarial workspace (the witness of the repaired eval defect first)"""
    root = tempfile.mkdtemp(prefix="verif_c17_s_")
    try:
        with open(os.path.join(root, "w.F90"), "w") as f:
            f.write("#define X __import__('os').system('touch %s/PWNED')\n#if X\ninteger :: a\n#endif\nprogram p\nend program p\n" % root)
        before = snapshot(root)
        res, err = run_audit(root, ["w.F90"])
        after = snapshot(root)
        if res is None:
            return None
        bad = judge(res, before, after, root, False)
        if bad:
            return ("C17:effect:%s" % bad[0][0], "indexing evaluated text from a source file",
                    {"kind": "counterexample", "input": {"files": {"w.F90": open(os.path.join(root, "w.F90")).read().replace(root, "<ROOT>")}},
                     "implementation": [[str(x).replace(root, "<ROOT>") for x in ev] for ev in bad[:10]]})
    finally:
        shutil.rmtree(root, ignore_errors=True)
    return None


def run(ctx):
    ctx.cov["trusted_base"] = BASE_TRUST + [
        "translator harness/translators/calls.py (Python ast, alias-aware call inventory -> Gen/GenCalls.v), fail closed on unresolvable callees",
        "CPython audit events (sys.addaudithook) as the runtime monitor; directory snapshot before/after",
    ]
    ctx.assumptions = [
        "the obligations are about call sites of the fortls package; third-party code it calls (json5, re, pathlib, multiprocessing) is trusted",
        "method calls on objects are classified by method name only",
        "the absence of effects is runtime behaviour: the theorems cover the inventory, the audit-hook runs are testing",
    ]
    ctx.cov["rule"] = ("workspaces of 3-6 preprocessed files whose #if/#elif conditions, macro bodies (object- and function-like, multi-line), "
                       "#include/INCLUDE names, #ifdef names, doc comments and configuration values carry 16 kinds of host-language/shell "
                       "payloads; every file opened, queried at a grid of positions, edited, saved, closed; with and without --debug_log; "
                       "non-trivial: all; distinct by workspace text")
    changed = calls_tr.regenerate()
    ctx.extra["translator"] = {"regenerated": changed}
    ctx.proof_obligations(search=lambda: search_failing(ctx))
    # the repaired defect's witness always runs first
    sf = search_failing(ctx)
    ctx.count(("witness", "eval"), True)
    if sf and not ctx.obligations_broken:
        ctx.report(*sf)
    n = 8 if ctx.quick() else 150
    for k in range(n):
        one_run(ctx, k, ctx.rng.choice([3, 4, 6]), debug_log=(k % 4 == 3))


def replay(ctx, path):
    with open(path) as f:
        doc = json.load(f)
    root = tempfile.mkdtemp(prefix="verif_c17_r_")
    try:
        os.makedirs(os.path.join(root, "sub"), exist_ok=True)
        names = []
        for n, t in doc["input"]["files"].items():
            os.makedirs(os.path.dirname(os.path.join(root, n)) or root, exist_ok=True)
            with open(os.path.join(root, n), "w") as f:
                f.write(t.replace("<ROOT>", root))
            if n.lower().endswith((".f90", ".f")):
                names.append(n)
        before = snapshot(root)
        res, err = run_audit(root, names, ["--debug_log"] if doc["input"].get("debug_log") else [])
        after = snapshot(root)
        bad = judge(res, before, after, root, bool(doc["input"].get("debug_log"))) if res else [["run failed", err]]
        print("events:", bad)
        return 1 if bad else 0
    finally:
        shutil.rmtree(root, ignore_errors=True)
        shutil.rmtree(ctx.workdir, ignore_errors=True)
