"""C15 -- the start-up index does not depend on workers, enumeration order or hash seed.

Obligations: C15/Props.v (the merged index is the same for every enumeration order of the directory and equals opening the
files one by one, for unique unit names; over the C10 workspace model).
Oracle: schedule sweep -- the same workspace indexed under different directory listing orders, worker counts and hash seeds,
and by opening the files one at a time on an empty directory; an identical query battery must give identical answers.
"""
from __future__ import annotations

import itertools
import json
import os
import shutil
import subprocess
import tempfile

from ..common import BASE_TRUST, PY, REPO, VERIF

WORKSPACES = {
    "extends_assoc": {
        "a_shapes.f90": "module a_shapes\n implicit none\n type :: t0\n  integer :: base\n contains\n  procedure :: show => show0\n end type t0\ncontains\n subroutine show0(self)\n  class(t0), intent(in) :: self\n"
                        " end subroutine show0\nend module a_shapes\n",
        "b_poly.f90": "module b_poly\n use a_shapes\n implicit none\n type, extends(t0) :: t1\n  integer :: n1\n end type t1\nend module b_poly\n",
        "c_use.f90": "module c_use\n use b_poly\n implicit none\n type, extends(t1) :: t2\n  real :: side\n end type t2\ncontains\n subroutine work(v)\n  type(t2), intent(inout) :: v\n  associate (z => v%base, w => v%n1)\n"
                     "   z = 1\n   w = 2\n  end associate\n  v%\n  call v%show()\n end subroutine work\nend module c_use\n",
        "d_main.f90": "program d_main\n use c_use\n implicit none\n type(t2) :: obj\n obj%base = 1\n obj%\n call work(obj)\nend program d_main\n",
        "e_side.f90": "module e_side\n use a_shapes, only: t0\n implicit none\n type(t0) :: shared\ncontains\n subroutine touch()\n  shared%base = 3\n  shared%\n end subroutine touch\nend module e_side\n",
    },
    "submodule_include": {
        "p_parent.f90": "module p_parent\n implicit none\n integer :: counter\n interface\n  module subroutine bump(k)\n   integer, intent(in) :: k\n  end subroutine bump\n  module function twice(k) result(r)\n   integer, intent(in) :: k\n"
                        "   integer :: r\n  end function twice\n end interface\nend module p_parent\n",
        "q_child.f90": "submodule (p_parent) q_child\ncontains\n module subroutine bump(k)\n  integer, intent(in) :: k\n  counter = counter + k\n end subroutine bump\nend submodule q_child\n",
        "r_grand.f90": "submodule (p_parent:q_child) r_grand\ncontains\n module function twice(k) result(r)\n  integer, intent(in) :: k\n  integer :: r\n  r = 2 * k + counter\n end function twice\nend submodule r_grand\n",
        "s_inc.f90": "subroutine s_inc()\n use p_parent\n implicit none\n include 't_decl.f90'\n shared_v = twice(counter)\n call bump(shared_v)\nend subroutine s_inc\n",
        "t_decl.f90": "integer :: shared_v\n",
        "u_ptr.f90": "module u_ptr\n use p_parent, only: twice\n implicit none\n abstract interface\n  integer function fn(k)\n   integer, intent(in) :: k\n  end function fn\n end interface\n procedure(fn), pointer :: fp => null()\n"
                     "contains\n subroutine setp()\n  fp => twice\n  print *, fp(2)\n end subroutine setp\nend module u_ptr\n",
    },
    "module_procedure_form": {
        "g_geom.f90": "module g_geom\n implicit none\n type :: vec\n  real :: x, y\n end type vec\n interface\n  module function scale(v, factor) result(w)\n   type(vec), intent(in) :: v\n   real, intent(in) :: factor\n"
                      "   type(vec) :: w\n  end function scale\n  module subroutine reset(v)\n   type(vec), intent(inout) :: v\n  end subroutine reset\n end interface\nend module g_geom\n",
        "a_geom_impl.f90": "submodule (g_geom) a_geom_impl\ncontains\n module procedure scale\n  w%x = v%x * factor\n  w%y = v%y * factor\n  w%\n end procedure scale\n module procedure reset\n  v%x = 0.0\n  v%\n end procedure reset\n"
                           "end submodule a_geom_impl\n",
        "m_main.f90": "program m_main\n use g_geom\n implicit none\n type(vec) :: p, q\n q = scale(p, 2.0)\n call reset(q)\n q%\nend program m_main\n",
    },
    "preprocessed_dirs": {
        "liba/config.h": "#define FAST_PATH 1\n",
        "liba/a_mod.F90": "#include \"config.h\"\nmodule a_mod\n implicit none\n#ifdef FAST_PATH\n integer :: a_fast\n#else\n integer :: a_slow\n#endif\nend module a_mod\n",
        "libb/b_mod.F90": "#include \"config.h\"\nmodule b_mod\n implicit none\n#ifdef FAST_PATH\n integer :: b_fast\n#else\n integer :: b_slow\n#endif\nend module b_mod\n",
        "libc/c_mod.F90": "module c_mod\n use a_mod\n use b_mod\n implicit none\ncontains\n subroutine touch()\n  print *, 1\n end subroutine touch\nend module c_mod\n",
    },
    # a type that reaches its module through INCLUDE is extended in a file that sorts before the including one
    "include_extends": {
        "z_types.f90": "type :: shape_t\n integer :: ident\n real :: weight\nend type shape_t\n",
        "s_base.f90": "module s_base\n implicit none\n include 'z_types.f90'\nend module s_base\n",
        "a_app.f90": "module a_app\n use s_base\n implicit none\n type, extends(shape_t) :: circle_t\n  real :: radius\n end type circle_t\ncontains\n subroutine work(c)\n  type(circle_t) :: c\n"
                     "  c%ident = 1\n  c%\n end subroutine work\nend module a_app\n",
    },
    # one INCLUDE file spliced into two modules (known finding C15:include-two-includers)
    "include_two_includers": {
        "common_decl.f90": "integer :: shared_n\n",
        "inc_ma.f90": "module inc_ma\n implicit none\n include 'common_decl.f90'\nend module inc_ma\n",
        "inc_mb.f90": "module inc_mb\n implicit none\n include 'common_decl.f90'\nend module inc_mb\n",
    },
    # a PASS binding whose target is not a procedure (start-up used to abort in the middle of the linking pass; fixed in /repo)
    "pass_non_procedure": {
        "a_type.f90": "module type_mod\n implicit none\n integer :: notproc\n type :: t\n  integer :: k\n contains\n  procedure, pass(self) :: go => notproc\n end type t\nend module type_mod\n",
        "b_other.f90": "module other\n use type_mod\n implicit none\n type(t) :: obj\ncontains\n subroutine w()\n  obj%k = 1\n  obj%\n end subroutine w\nend module other\n",
    },
    # a header name present in two include directories: which one is read must not depend on the hash seed
    "header_in_two_dirs": {
        "__include_dirs__": ["inc1", "inc2", "inc3"],      # not a file: passed as --include_dirs (absolute) to every schedule
        "inc1/defs.h": "#define WP 4\n",
        "inc2/defs.h": "#define WP 8\n",
        "inc3/defs.h": "#define WP 16\n",
        "src/m_hdr.F90": "#include \"defs.h\"\nmodule m_hdr\n implicit none\n real(WP) :: tol\nend module m_hdr\n",
        "src/u_hdr.f90": "program u_hdr\n use m_hdr\n implicit none\n tol = 1.0\nend program u_hdr\n",
    },
    # a Fortran INCLUDE file whose name exists in three include directories and not next to the including file
    "fortran_include_in_three_dirs": {
        "__include_dirs__": ["fi1", "fi2", "fi3"],
        "fi1/limits.f90": "integer, parameter :: max_iter = 50\n",
        "fi2/limits.f90": "integer, parameter :: max_iter = 200\n",
        "fi3/limits.f90": "integer, parameter :: max_iter = 300\n",
        "fsrc/solve_it.f90": "subroutine solve_it()\n implicit none\n include 'limits.f90'\n integer :: k\n k = max_iter\nend subroutine solve_it\n",
    },
    # two preprocessed files include the same header, which branches on a macro only one of them defines before the #include
    "shared_header": {
        "precision.h": "#ifdef SINGLE_PRECISION\n#define WP 4\n#else\n#define WP 8\n#define HAVE_QUAD 1\n#endif\n",
        "fast_kernels.F90": "#define SINGLE_PRECISION 1\n#include \"precision.h\"\nmodule fast_kernels\n implicit none\n real(WP) :: fast_tol\n#ifdef HAVE_QUAD\n real(16) :: fast_acc\n#endif\nend module fast_kernels\n",
        "solver.F90": "#include \"precision.h\"\nmodule solver\n implicit none\n real(WP) :: solver_tol\n#ifdef HAVE_QUAD\n real(16) :: solver_acc\n#endif\nend module solver\n",
        "hdr_main.f90": "program hdr_main\n use fast_kernels\n use solver\n implicit none\n solver_tol = fast_tol\nend program hdr_main\n",
    },
}


def run_schedule(root, files, order, nthreads, seed, mode="init", empty=None, extra=()):
    spec = {"root": root, "files": files, "order": order, "nthreads": nthreads, "mode": mode, "empty": empty, "extra": list(extra)}
    env = dict(os.environ, PYTHONHASHSEED=str(seed), PYTHONPATH=REPO)
    p = subprocess.run([PY, os.path.join(VERIF, "harness", "c15_runner.py"), json.dumps(spec)], capture_output=True, text=True, env=env, timeout=300)
    for line in p.stdout.split("\n"):
        if line.startswith("@@BATTERY@@"):
            return json.loads(line[len("@@BATTERY@@"):])
    return {"<runner failed>": (p.stdout + p.stderr)[-800:]}


def sweep(ctx, quick):
    from concurrent.futures import ThreadPoolExecutor
    from .c10 import first_diff
    from . import c10
    spaces = dict(WORKSPACES)
    for k in range(1 if quick else 6):
        # generated: the C10 file family under random file names, so that alphabetical order and dependency order differ
        base = c10.Spec("module", "m_base")
        ext = c10.Spec("module", "m_ext", uses=["m_base"], base="m_base")
        ext2 = c10.Spec("module", "m_ext2", uses=["m_ext"], base="m_ext")
        main = c10.Spec("program", "prog_main", uses=["m_base", "m_ext"])
        side = c10.Spec("module", "m_side")
        specs = [base, ext, ext2, main, side]
        for sp in specs:
            for _ in range(ctx.rng.choice([0, 1, 2])):
                sp2 = c10.mutate(sp, ctx.rng, [])
                if sp2.extra_unit is None and sp2.name == sp.name:
                    sp.comps, sp.vars, sp.procs, sp.body = sp2.comps, sp2.vars, sp2.procs, sp2.body
        prefixes = ctx.rng.sample("abcdefghijklmnopqrstuvwxyz", len(specs))
        spaces["generated_%d" % k] = {"%s_%s.f90" % (pre, sp.name): sp.text() for pre, sp in zip(prefixes, specs)}
    for wname, files in spaces.items():
        root = tempfile.mkdtemp(prefix="verif_c15_")
        empty = tempfile.mkdtemp(prefix="verif_c15_e_")
        files = dict(files)
        inc_dirs = files.pop("__include_dirs__", None)
        extra = (["--include_dirs"] + [os.path.join(root, x) for x in inc_dirs]) if inc_dirs else []
        try:
            # file names are given a random prefix so that the alphabetical order differs between runs
            names = sorted(files)
            for n in names:
                os.makedirs(os.path.dirname(os.path.join(root, n)), exist_ok=True)
                with open(os.path.join(root, n), "w") as f:
                    f.write(files[n])
            perms = list(itertools.permutations(names))
            ctx.rng.shuffle(perms)
            scheds = [("init", list(names), 1, 0)]
            for pm in perms[: (6 if quick else 60)]:
                scheds.append(("init", list(pm), ctx.rng.choice([1, 2, 4]), ctx.rng.choice([0, 1, 2, 3])))
            for nt in ([3, 8] if quick else [2, 3, 4, 8, 16]):
                scheds.append(("init", list(names), nt, 0))
            for sd in ([1, 7] if quick else [1, 2, 3, 5, 7, 11, 13, 17]):
                scheds.append(("init", list(reversed(names)), 2, sd))
            if inc_dirs:
                # what is found first in a collection of directories must not depend on the hash seed: more seeds for these workspaces
                for sd in range(4, 12):
                    scheds.append(("init", list(names), 1, sd))
            for pm in perms[: (4 if quick else 24)]:
                scheds.append(("open", list(pm), 1, 0))
            with ThreadPoolExecutor(max_workers=8) as ex:
                results = list(ex.map(lambda s: run_schedule(root, names, s[1], s[2], s[3], s[0], empty, extra), scheds))
            ref = results[0]
            for s, got in zip(scheds, results):
                ctx.count(("schedule", wname, s[0], tuple(s[1]), s[2], s[3]), s[1] != names or s[2] != 1 or s[3] != 0)
                if "<runner failed>" in got:
                    raise RuntimeError("C15 schedule runner failed: %s" % got["<runner failed>"])
                if got != ref:
                    d = first_diff(got, ref)
                    ctx.report("C15:schedule-%s" % wname, "the index depends on the schedule (%s, order %s, %d workers, hash seed %d): %s" % (s[0], s[1], s[2], s[3], d[0]),
                               {"kind": "counterexample", "input": {"workspace": wname, "files": files, "mode": s[0], "order": s[1], "nthreads": s[2], "hashseed": s[3]},
                                "implementation": d[1], "oracle": d[2], "reference_schedule": {"mode": "init", "order": names, "nthreads": 1, "hashseed": 0}})
                    break
        finally:
            shutil.rmtree(root, ignore_errors=True)
            shutil.rmtree(empty, ignore_errors=True)


def search_failing(ctx):
    sweep(ctx, True)
    return None


def run(ctx):
    ctx.cov["trusted_base"] = BASE_TRUST + ["schedule runner (harness/c15_runner.py: os.listdir order patched, --nthreads, PYTHONHASHSEED per subprocess) and the C10 query battery",
                                             "the C10 workspace model (trace-validated by the C10 check)"]
    ctx.assumptions = [
        "partial: the theorem covers the merged index (buffers, owners of top-level names); cross-file links are covered by the schedule sweep",
        "premise of the property: top-level unit names are unique in the workspace",
        "not modelled: OS process scheduling, pickling of FortranFile objects between worker and server (exercised by the sweep with 1-16 workers)",
    ]
    ctx.cov["rule"] = ("two hand-written workspaces (EXTENDS over three files with ASSOCIATE and type-bound calls; submodules two deep, INCLUDE, procedure pointers); "
                       "schedules: permutations of the directory listing x {1,2,4} workers x hash seeds, worker counts up to 16, and opening the files one by one "
                       "on an empty directory in several orders; non-trivial = differs from the reference schedule")
    ctx.proof_obligations(search=lambda: search_failing(ctx))
    sweep(ctx, ctx.quick())


def replay(ctx, path):
    with open(path) as f:
        doc = json.load(f)
    print(json.dumps(doc.get("input"), indent=1)[:3000])
    shutil.rmtree(ctx.workdir, ignore_errors=True)
    return 0
