"""C05 -- go-to-definition follows Fortran's scoping and USE-association rules.

Obligations: C05/Props.v.  Correspondence: Shared/Resolve.v (get_use_tree, find_in_scope
transcribed) against textDocument/definition on generated multi-file workspaces.
Oracle: the generator's ground truth (Fortran's rules: local, USE with ONLY/rename through
accessible entities of the used module incl. re-export, host association).
"""
from __future__ import annotations

import json
import os
import shutil
import tempfile

from .. import impl
from ..common import BASE_TRUST, clist, cnat, cstr

IMPORTS = ("From Coq Require Import ZArith.\nFrom FV Require Import Base.Str Shared.Resolve.\n"
           "Definition ans (p : prog) (si : nat) (name : str) : option (nat + nat) :=\n"
           "  match resolve p si name with FSome (_, Some e, _) => Some (inl (e_id e)) | FSome (mi, None, _) => Some (inr mi) | _ => None end.\n"
           "Definition ans_eqb (a b : option (nat + nat)) : bool := match a, b with None, None => true | Some (inl x), Some (inl y) => x =? y\n"
           "  | Some (inr x), Some (inr y) => x =? y | _, _ => false end.\n")

NAMES = ["alpha", "beta", "gam", "delta", "eps", "zeta", "eta", "theta", "kap", "lam"]


class World:
    """abstract program: modules (a DAG of USE), a program with a contained subroutine"""

    def __init__(self, rng, intermediate_private=False):
        self.rng = rng
        r = rng
        self.ents = []          # (id, name, scope index, vis attr)
        self.scopes = []        # dict(kind, name, defvis, ents[ids], uses[(mod index, only|None)], parent)
        nmod = r.choice([1, 2, 3, 4])
        for k in range(nmod):
            sc = {"kind": "module", "name": "m%d" % k, "defvis": "public", "ents": [], "uses": [], "parent": None}
            self.scopes.append(sc)
            self.add_uses(k, range(k), 0.5)
            if r.random() < (0.3 if (not sc["uses"] or intermediate_private) else 0.0):
                sc["defvis"] = "private"
            for _ in range(r.choice([1, 2, 3, 4])):
                self.add_ent(k, r.choice([None, None, "public", "private"]))
        self.prog = len(self.scopes)
        self.scopes.append({"kind": "program", "name": "pmain", "defvis": "public", "ents": [], "uses": [], "parent": None})
        self.add_uses(self.prog, range(nmod), 0.6)
        for _ in range(r.choice([1, 2, 3])):
            self.add_ent(self.prog, None)
        self.sub = len(self.scopes)
        self.scopes.append({"kind": "sub", "name": "ssub", "defvis": "public", "ents": [], "uses": [], "parent": self.prog})
        self.add_uses(self.sub, range(nmod), 0.4)
        for _ in range(r.choice([0, 1, 2])):
            self.add_ent(self.sub, None)

    def add_ent(self, si, vis):
        # standard conforming: a name that is use-associated in a scoping unit cannot be declared there
        taken = {self.ents[e][1] for e in self.scopes[si]["ents"]} | set(self.imported(si)) | {self.scopes[j]["name"] for j, _ in self.scopes[si]["uses"]}
        pool = [n for n in NAMES if n not in taken]
        if not pool:
            return
        # re-using a spelling from another scope creates shadowing on purpose
        name = self.rng.choice(pool)
        eid = len(self.ents)
        self.ents.append((eid, name, si, vis))
        self.scopes[si]["ents"].append(eid)

    def make_use(self, j, have=None):
        r = self.rng
        pub = sorted(self.public_names(j))
        if r.random() < 0.5 or not pub:
            return (j, None)
        only = []
        for n in r.sample(pub, r.randrange(1, len(pub) + 1)):
            local = n if r.random() < 0.7 else "r_" + n
            only.append((local, n))
        return (j, only)

    def add_uses(self, si, candidates, prob):
        """add USE statements one by one, keeping the unit free of name clashes (two different entities under one local name)"""
        for j in candidates:
            if self.rng.random() >= prob:
                continue
            u = self.make_use(j)
            self.scopes[si]["uses"].append(u)
            imp = self.imported(si)
            if any(len(ids) > 1 for ids in imp.values()):
                self.scopes[si]["uses"].pop()

    # ---- Fortran's rules (ground truth) --------------------------------------------------
    def effective_public(self, eid):
        _, _, si, vis = self.ents[eid]
        if vis == "public":
            return True
        if vis == "private":
            return False
        return self.scopes[si]["defvis"] == "public"

    def imported(self, si):
        """names made accessible in scope si by its USE statements: {local name: set of entity ids}"""
        out = {}
        for (j, only) in self.scopes[si]["uses"]:
            pub = self.public_names(j)
            if only is None:
                for n, ids in pub.items():
                    out.setdefault(n, set()).update(ids)
            else:
                for local, remote in only:
                    if remote in pub:
                        out.setdefault(local, set()).update(pub[remote])
        return out

    def public_names(self, j):
        """names another scoping unit gets from `use m_j`: {name: set of entity ids}"""
        sc = self.scopes[j]
        out = {}
        for eid in sc["ents"]:
            if self.effective_public(eid):
                out.setdefault(self.ents[eid][1], set()).add(eid)
        own = {self.ents[e][1] for e in sc["ents"]}
        if sc["defvis"] == "public":
            for n, ids in self.imported(j).items():
                if n not in own:
                    out.setdefault(n, set()).update(ids)
        return out

    def lookup(self, si, name):
        """('ent', id) | ('module', index) | None | 'ambiguous'"""
        sc = self.scopes[si]
        for eid in sc["ents"]:
            if self.ents[eid][1] == name:
                return ("ent", eid)
        imp = self.imported(si)
        if name in imp:
            ids = imp[name]
            return ("ent", next(iter(ids))) if len(ids) == 1 else "ambiguous"
        for (j, only) in sc["uses"]:
            if self.scopes[j]["name"] == name:
                return ("module", j)
        if sc["parent"] is not None:
            return self.lookup(sc["parent"], name)
        for j, s2 in enumerate(self.scopes):
            if s2["kind"] == "module" and s2["name"] == name:
                return ("module", j)
        return None

    # ---- rendering ----------------------------------------------------------------------
    def render(self, root):
        self.decl = {}     # eid -> (path, line)
        self.modline = {}  # scope index -> (path, line)
        self.sites = []    # (path, line, col, scope index, name)
        files = {}
        for k, sc in enumerate(self.scopes):
            if sc["kind"] != "module":
                continue
            path = os.path.join(root, "%s.f90" % sc["name"])
            lines = ["module %s" % sc["name"]]
            self.modline[k] = (path, 0)
            lines += self.use_lines(sc)
            lines.append("implicit none")
            if sc["defvis"] == "private":
                lines.append("private")
            for eid in sc["ents"]:
                _, n, _, vis = self.ents[eid]
                self.decl[eid] = (path, len(lines))
                lines.append("integer%s :: %s" % ("" if vis is None else ", " + vis, n))
            lines.append("end module %s" % sc["name"])
            files[path] = lines
        path = os.path.join(root, "main.f90")
        p, s = self.scopes[self.prog], self.scopes[self.sub]
        lines = ["program pmain"]
        self.modline[self.prog] = (path, 0)
        lines += self.use_lines(p)
        lines.append("implicit none")
        for eid in p["ents"]:
            self.decl[eid] = (path, len(lines)); lines.append("integer :: %s" % self.ents[eid][1])
        lines.append("integer :: qq")
        self.site_lines(lines, path, self.prog)
        lines.append("contains")
        lines.append("subroutine ssub()")
        lines += self.use_lines(s)
        for eid in s["ents"]:
            self.decl[eid] = (path, len(lines)); lines.append("integer :: %s" % self.ents[eid][1])
        lines.append("integer :: ww")
        self.site_lines(lines, path, self.sub)
        lines.append("end subroutine ssub")
        lines.append("end program pmain")
        files[path] = lines
        for pth, ls in files.items():
            with open(pth, "w") as f:
                f.write("\n".join(ls) + "\n")
        return files

    def use_lines(self, sc):
        out = []
        for (j, only) in sc["uses"]:
            if only is None:
                out.append("use %s" % self.scopes[j]["name"])
            else:
                out.append("use %s, only: %s" % (self.scopes[j]["name"], ", ".join(l if l == r else "%s => %s" % (l, r) for l, r in only)))
        return out

    def site_lines(self, lines, path, si):
        names = set(NAMES) | {"r_" + n for n in NAMES} | {sc["name"] for sc in self.scopes if sc["kind"] == "module"}
        for n in sorted(names):
            if self.rng.random() < 0.5:
                col = len("qq = ")
                self.sites.append((path, len(lines), col + 1, si, n))
                lines.append("qq = %s" % n)

    # ---- model term ---------------------------------------------------------------------
    def coq(self):
        scs = []
        for k, sc in enumerate(self.scopes):
            fq = sc["name"] if sc["parent"] is None else "%s::%s" % (self.scopes[sc["parent"]]["name"], sc["name"])
            ents = list(sc["ents"])
            children = []
            for eid in ents:
                _, n, _, vis = self.ents[eid]
                children.append("(EN %s (%d)%%Z %s)" % (cstr(n), {"public": 1, "private": -1, None: 0}[vis], cnat(eid)))
            # the contained subroutine and the helper variables are children too (ids beyond the entity range)
            extra = []
            if k == self.prog:
                extra = ["(EN %s 0%%Z %s)" % (cstr("qq"), cnat(9000)), "(EN %s 0%%Z %s)" % (cstr("ssub"), cnat(9001))]
            if k == self.sub:
                extra = ["(EN %s 0%%Z %s)" % (cstr("ww"), cnat(9002))]
            uses = clist(sc["uses"], lambda u: "(US %s %s %s)" % (
                cstr(self.scopes[u[0]]["name"]),
                clist([] if u[1] is None else [l for l, r in u[1]], cstr),
                clist([] if u[1] is None else [(l, r) for l, r in u[1] if l != r], lambda lr: "(%s, %s)" % (cstr(lr[0]), cstr(lr[1])))))
            scs.append("(SCP %s %s (%d)%%Z %s %s)" % (cstr(fq), clist(children + extra), -1 if sc["defvis"] == "private" else 0, uses,
                                                    "None" if sc["parent"] is None else "(Some %s)" % cnat(sc["parent"])))
        tree = clist([(sc["name"], k) for k, sc in enumerate(self.scopes) if sc["parent"] is None],
                     lambda nk: "(%s, %s)" % (cstr(nk[0]), cnat(nk[1])))
        return "(PR %s %s)" % (clist(scs), tree)


def run_worlds(ctx, n, intermediate_private):
    coq = ctx.coq(IMPORTS)
    exprs = []
    meta = []
    dist = ctx.extra.setdefault("dist", {"sites": 0, "local": 0, "use": 0, "host": 0, "module": 0, "none": 0, "ambiguous": 0, "renamed": 0})
    for k in range(n):
        w = World(ctx.rng, intermediate_private)
        root = tempfile.mkdtemp(prefix="verif_c05_")
        try:
            files = w.render(root)
            srv, conn = impl.make_server(root, extra=["--nthreads", "1"])
            for pth in files:
                impl.did_open(srv, pth)
            term = w.coq()
            by_loc = {v: e for e, v in w.decl.items()}
            mod_by_loc = {v: s for s, v in w.modline.items()}
            text = {os.path.relpath(p, root): "\n".join(ls) for p, ls in files.items()}
            ctx.count(json.dumps(text, sort_keys=True), len(w.scopes) > 3, sample={"files": {k2: v[:400] for k2, v in list(text.items())[:3]}})
            for (path, line, col, si, name) in w.sites:
                truth = w.lookup(si, name)
                dist["sites"] += 1
                if truth == "ambiguous":
                    dist["ambiguous"] += 1
                    continue
                resp, _ = impl.request(srv, conn, "textDocument/definition", impl.pos_params(path, line, col))
                got = None
                if resp and resp[0] == "r" and resp[2]:
                    loc = resp[2]
                    gp = impl_path(loc["uri"])
                    key = (gp, loc["range"]["start"]["line"])
                    got = ("ent", by_loc[key]) if key in by_loc else (("module", mod_by_loc[key]) if key in mod_by_loc else ("other", key))
                elif resp is None or resp[0] != "r":
                    got = ("error", repr(resp)[:100])
                if truth is None:
                    dist["none"] += 1
                elif truth[0] == "module":
                    dist["module"] += 1
                else:
                    esi = w.ents[truth[1]][2]
                    dist["local" if esi == si else ("host" if esi == w.scopes[si]["parent"] else "use")] += 1
                    dist["renamed"] += name.startswith("r_")
                inp = {"files": text, "site": {"file": os.path.relpath(path, root), "line": line, "character": col, "name": name}}
                helper = name in ("qq", "ww", "ssub")
                ok = (got == truth) or (truth is None and got is not None and got[0] == "other") or helper
                # a private entity must never be the answer outside its module
                if got and got[0] == "ent":
                    eid = got[1]
                    if w.ents[eid][2] != si and w.scopes[w.ents[eid][2]]["kind"] == "module" and not w.effective_public(eid):
                        ok = False
                if not ok:
                    sig = "C05:definition"
                    if intermediate_private and reexport_private_involved(w, si, name):
                        sig = "C05:private-reexport"
                    elif rename_lost_diamond(w, si, name, truth, got):
                        sig = "C05:rename-lost-diamond"
                    ctx.report(sig, "go-to-definition on '%s' lands on %s, Fortran binds it to %s" % (name, describe(w, got), describe(w, truth)),
                               {"kind": "counterexample", "input": inp, "implementation": describe(w, got), "oracle": describe(w, truth)})
                # model correspondence
                if got is None:
                    g = "None"
                elif got[0] == "ent":
                    g = "(Some (inl %s))" % cnat(got[1])
                elif got[0] == "module":
                    g = "(Some (inr %s))" % cnat(got[1])
                else:
                    continue
                exprs.append("ans_eqb (ans %s %s %s) %s" % (term, cnat(si), cstr(name), g))
                meta.append(inp)
        finally:
            shutil.rmtree(root, ignore_errors=True)
    bad = coq.bools(exprs, shard=60)
    ctx.cov["traces_validated_against_impl"] += len(exprs)
    for b in bad[:5]:
        ctx.report("C05:model-impl-mismatch", "textDocument/definition differs from Shared.Resolve.resolve",
                   {"kind": "broken-correspondence", "input": meta[b], "correspondence": "FV.Shared.Resolve.resolve vs find_in_scope/get_use_tree"},
                   found_input=False)


def impl_path(uri):
    from fortls.jsonrpc import path_from_uri
    return path_from_uri(uri)


def describe(w, x):
    if x is None:
        return "nothing"
    if x[0] == "ent":
        e = w.ents[x[1]]
        return "%s declared in %s" % (e[1], w.scopes[e[2]]["name"])
    if x[0] == "module":
        return "module %s" % w.scopes[x[1]]["name"]
    return repr(x)


def reexport_private_involved(w, si, name):
    """does some module on the USE path have default PRIVATE while using another module? (known finding C05:private-reexport)"""
    return any(sc["kind"] == "module" and sc["defvis"] == "private" and sc["uses"] for sc in w.scopes)


def use_paths(w, si, target):
    """number of distinct USE paths from scope si (and its hosts) to module index target"""
    def paths(j):
        n = 1 if j == target else 0
        for (k, _) in w.scopes[j]["uses"]:
            n += paths(k)
        return n
    total = 0
    cur = si
    while cur is not None:
        for (k, _) in w.scopes[cur]["uses"]:
            total += paths(k)
        cur = w.scopes[cur]["parent"]
    return total


def rename_lost_diamond(w, si, name, truth, got):
    """known finding: the flattened USE dictionary is keyed by module name, so a local name introduced by a rename in one USE path is
    lost when the same module is also reached by another path"""
    if not (truth and truth[0] == "ent" and got is None):
        return False
    e = w.ents[truth[1]]
    return e[1] != name and use_paths(w, si, e[2]) >= 2


WITNESSES = [
    ("C05:rename-lost-diamond",
     {"m1.f90": "module m1\ninteger :: x\nend module m1\n", "m2.f90": "module m2\nuse m1, only: x\nend module m2\n",
      "main.f90": "program p\nuse m1\nuse m2, only: r => x\ninteger :: q\nq = r\nend program p\n"},
     ("main.f90", 4, 5), ("m1.f90", 1)),
    # regression (fixed ee7556d): m2 first reached with an ONLY list, then wholly through m3; kap of m1 is re-exported by m2
    ("C05:only-widened-no-descent",
     {"m1.f90": "module m1\ninteger :: kap\ninteger :: zeta\nend module m1\n", "m2.f90": "module m2\nuse m1, only: kap, zeta\ninteger :: lam\nend module m2\n",
      "m3.f90": "module m3\nuse m2\nend module m3\n",
      "main.f90": "program p\nuse m2, only: lam, zeta\nuse m3\ninteger :: q\nq = kap\nend program p\n"},
     ("main.f90", 4, 5), ("m1.f90", 1)),
    ("C05:private-reexport",
     {"m1.f90": "module m1\ninteger :: x\nend module m1\n", "m2.f90": "module m2\nuse m1\nprivate\nend module m2\n",
      "main.f90": "program p\nuse m2\ninteger :: q\nq = x\nend program p\n"},
     ("main.f90", 3, 5), None),
]


def run_witnesses(ctx):
    """the witnesses of the refuted lemmas of C05/Props.v, replayed on the implementation on every run"""
    for sig, files, site, want in WITNESSES:
        root = tempfile.mkdtemp(prefix="verif_c05_w_")
        try:
            for n, t in files.items():
                with open(os.path.join(root, n), "w") as f:
                    f.write(t)
            srv, conn = impl.make_server(root, extra=["--nthreads", "1"])
            for n in files:
                impl.did_open(srv, os.path.join(root, n))
            resp, _ = impl.request(srv, conn, "textDocument/definition", impl.pos_params(os.path.join(root, site[0]), site[1], site[2]))
            got = None
            if resp and resp[0] == "r" and resp[2]:
                got = (os.path.relpath(impl_path(resp[2]["uri"]), root), resp[2]["range"]["start"]["line"])
            ctx.count(("witness", sig), True)
            if got != want:
                ctx.report(sig, "go-to-definition lands on %s, Fortran binds the name to %s" % (got, want),
                           {"kind": "counterexample", "input": {"files": files, "site": {"file": site[0], "line": site[1], "character": site[2]}},
                            "implementation": got, "oracle": want})
        finally:
            shutil.rmtree(root, ignore_errors=True)


def check_inherit(ctx, n):
    """C05.Inherit.members / lookup_member against Type.get_children() and go-to-definition through `%` on generated EXTENDS chains"""
    coq = ctx.coq("From Coq Require Import ZArith.\nFrom FV Require Import Base.Str Shared.Resolve C05.Inherit.")
    r = ctx.rng
    pool = ["ca", "cb", "cc", "cd", "ce"]
    exprs, meta = [], []
    for k in range(n):
        nt = r.choice([2, 3, 4, 5])
        parents = [None] + [r.randrange(0, i) for i in range(1, nt)]      # a forest rooted at type 0, parents declared first
        comps = [r.sample(pool, r.choice([0, 1, 2, 3])) for _ in range(nt)]
        lines = ["module m_inh", "implicit none"]
        decl = {}
        for i in range(nt):
            lines.append("type%s :: t%d" % ("" if parents[i] is None else ", extends(t%d)" % parents[i], i))
            for c in comps[i]:
                decl[(i, c)] = len(lines)
                lines.append("  integer :: %s" % c)
            lines.append("end type t%d" % i)
        lines.append("contains")
        lines.append("subroutine s_inh()")
        for i in range(nt):
            lines.append("type(t%d) :: o%d" % (i, i))
        sites = []
        for i in range(nt):
            for c in pool:
                sites.append((len(lines), i, c))
                lines.append("o%d%%%s = 1" % (i, c))
        lines += ["end subroutine s_inh", "end module m_inh"]
        text = "\n".join(lines) + "\n"
        root = tempfile.mkdtemp(prefix="verif_c05_i_")
        try:
            path = os.path.join(root, "m_inh.f90")
            with open(path, "w") as f:
                f.write(text)
            srv, conn = impl.make_server(root, extra=["--nthreads", "1"])
            impl.did_open(srv, path)
            mod = srv.obj_tree["m_inh"][0]
            tyobjs = {c.name.lower(): c for c in mod.children if type(c).__name__ == "Type"}
            ctx.count(("inherit", text), nt > 2)
            ents = {}

            def eid(i, c):
                return ents.setdefault((i, c), len(ents) + 1)
            ts = clist(range(nt), lambda i: "(TY %s %s)" % (clist(comps[i], lambda c: "(EN %s 0%%Z %s)" % (cstr(c), cnat(eid(i, c)))),
                                                            "None" if parents[i] is None else "(Some %s)" % cnat(parents[i])))
            for i in range(nt):
                got = [c.name.lower() for c in tyobjs["t%d" % i].get_children()]
                exprs.append("list_eqb str_eqb (map e_name (members %s %s %s)) %s" % (cnat(nt + 1), ts, cnat(i), clist(got, cstr)))
                meta.append({"text": text, "type": "t%d" % i, "implementation": got})
            # the language rule, directly: nearest declaration up the chain
            for (line, i, c) in sites:
                j, want = i, None
                while j is not None:
                    if c in comps[j]:
                        want = decl[(j, c)]
                        break
                    j = parents[j]
                resp, _ = impl.request(srv, conn, "textDocument/definition", impl.pos_params(path, line, len("o%d%%" % i) + 1))
                got = resp[2]["range"]["start"]["line"] if resp and resp[0] == "r" and resp[2] else None
                if got != want:
                    ctx.report("C05:inherited-component", "o%d%%%s lands on line %s, the nearest declaration up the EXTENDS chain is on line %s" % (i, c, got, want),
                               {"kind": "counterexample", "input": {"files": {"m_inh.f90": text}, "site": {"file": "m_inh.f90", "line": line, "character": len("o%d%%" % i) + 1}},
                                "implementation": got, "oracle": want})
                    break
        finally:
            shutil.rmtree(root, ignore_errors=True)
    bad = coq.bools(exprs, shard=200)
    ctx.cov["traces_validated_against_impl"] += len(exprs)
    for b in bad[:3]:
        ctx.report("C05:model-impl-mismatch", "Type.get_children() differs from C05.Inherit.members", {"kind": "broken-correspondence", "input": meta[b],
                   "correspondence": "FV.C05.Inherit.members vs Type.get_children / _resolve_inherit_parent"}, found_input=False)


def search_failing(ctx):
    return None


def run(ctx):
    ctx.cov["trusted_base"] = BASE_TRUST + [
        "hand-written model Shared/Resolve.v (branch-for-branch transcription of get_use_tree / find_in_scope) tied to textDocument/definition by "
        "differential execution on generated workspaces (this run)",
        "the generator's ground truth (Fortran's association rules) as oracle",
    ]
    ctx.assumptions = [
        "fragment: variables in modules/program/contained subroutine; USE with and without ONLY and renames inside ONLY; PUBLIC/PRIVATE attributes and "
        "module defaults; no anonymous interface blocks, INCLUDE, IMPORT, submodules, `%` chains (trace-level only)",
        "hypothesis intermediate_public: a module that re-exports what it uses has default accessibility PUBLIC (known finding C05:private-reexport otherwise)",
        "every use site has at most one accessible declaration (ambiguous sites are skipped)",
    ]
    ctx.cov["rule"] = ("workspaces of 1-4 modules (DAG of USE, ONLY lists with renames, PUBLIC/PRIVATE by attribute and by default) + a program with a contained "
                       "subroutine; sites: a random half of 25 spellings in both scopes; non-trivial = more than 3 scoping units; distinct by workspace text")
    ctx.proof_obligations(search=lambda: search_failing(ctx))
    q = ctx.quick()
    run_witnesses(ctx)
    from .. import marked
    marked.check_definitions(ctx)
    from . import c05_blocks
    c05_blocks.run(ctx, 12 if q else 300)
    check_inherit(ctx, 25 if q else 500)
    run_worlds(ctx, 50 if q else 1500, intermediate_private=False)
    run_worlds(ctx, 15 if q else 400, intermediate_private=True)


def replay(ctx, path):
    with open(path) as f:
        doc = json.load(f)
    inp = doc["input"]
    root = tempfile.mkdtemp(prefix="verif_c05_r_")
    try:
        for n, t in inp["files"].items():
            with open(os.path.join(root, n), "w") as f:
                f.write(t + "\n")
        srv, conn = impl.make_server(root, extra=["--nthreads", "1"])
        for n in inp["files"]:
            impl.did_open(srv, os.path.join(root, n))
        s = inp["site"]
        resp, _ = impl.request(srv, conn, "textDocument/definition", impl.pos_params(os.path.join(root, s["file"]), s["line"], s["character"]))
        print("definition:", resp)
        return 0
    finally:
        shutil.rmtree(root, ignore_errors=True)
        shutil.rmtree(ctx.workdir, ignore_errors=True)
