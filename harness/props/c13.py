"""C13 -- the index is invariant under meaning-preserving re-layout of the source.

Obligations: C13/Props.v.  Correspondence: Base/Lines.splitlines against the implementation's
splitlines on the three terminator renderings; engine fidelity of the statement patterns on
case variants.  Oracle (metamorphic): a normalised dump (document symbols incl. type members,
diagnostics) of a generated program and of its re-laid-out twin must be equal modulo the line map.
"""
from __future__ import annotations

import json
import os
import shutil
import tempfile

from .. import impl
from ..common import BASE_TRUST, clist, cstr
from . import c04

IMPORTS = "From FV Require Import Base.Str Base.Lines C13.Model."


def statements(units):
    """[(text, kind)] one statement per entry; kind: struct | decl | exec | plain"""
    out = []

    def walk(nodes):
        for nd in nodes:
            if "leaf" in nd:
                t = nd["text"]
                if nd["leaf"].startswith("LVar"):
                    k = "decl"
                elif t.strip().lower() in ("contains", "implicit none") or t.strip().lower().startswith(("use ", "private", "public")):
                    k = "plain"
                else:
                    k = "exec"
                out.append((t, k))
            else:
                out.append((nd["open"], "struct"))
                walk(nd["body"])
                out.append((nd["end"], "struct"))
    walk(units)
    return out


CORPUS = [
    # an abstract type with a deferred binding spelled in mixed case, an extension that overrides it and one that does not (one diagnostic)
    """module Shapes
implicit none
type, abstract :: Shape
integer :: Ident
contains
procedure(Area_If), deferred :: Area
procedure :: Show => Show_Shape
end type Shape
abstract interface
function Area_If(self) result(a)
import :: Shape
class(Shape), intent(in) :: self
real :: a
end function Area_If
end interface
type, extends(Shape) :: Square
real :: Side
contains
procedure :: Area => Square_Area
procedure :: Show => Show_Square
end type Square
type, extends(Shape) :: Blob
real :: Mass
end type Blob
interface Describe
module procedure Show_Shape, Show_Square
end interface Describe
contains
subroutine Show_Shape(self)
class(Shape), intent(in) :: self
end subroutine Show_Shape
subroutine Show_Square(self)
class(Square), intent(in) :: self
end subroutine Show_Square
function Square_Area(self) result(a)
class(Square), intent(in) :: self
real :: a
a = self%Side**2
end function Square_Area
end module Shapes
""",
    # interface bodies importing several names, a typed function with RESULT, an extension of a plain type
    """module Kinds
implicit none
integer, parameter :: wp = 8
type :: Base_T
integer :: k
end type Base_T
type, extends(Base_T) :: Ext_T
integer :: m
end type Ext_T
interface
subroutine Draw(p, q, scale)
import :: Base_T, Ext_T, wp
type(Base_T), intent(in) :: p
type(Ext_T), intent(in) :: q
real(wp), intent(in) :: scale
end subroutine Draw
end interface
contains
function Twice(x) result(res)
integer, intent(in) :: x
integer :: res
res = 2*x
end function Twice
end module Kinds
""",
    # a dummy procedure declared by an interface body, names with capitals
    """module Integ
implicit none
contains
subroutine Trapz(Func, Lo, Hi, Res)
interface
function Func(x) result(y)
real, intent(in) :: x
real :: y
end function Func
end interface
real, intent(in) :: Lo, Hi
real, intent(out) :: Res
Res = 0.5 * (Hi - Lo) * (Func(Lo) + Func(Hi))
end subroutine Trapz
end module Integ
""",
]


def corpus_statements(text):
    import re
    out = []
    for line in text.split("\n"):
        if not line.strip():
            continue
        low = line.strip().lower()
        if re.match(r"(end\b|module\s+\w+$|program\b|subroutine\b|function\b|abstract interface|interface\b|type\s*(,|::)|type\s+\w+$)", low):
            k = "struct"
        elif low in ("contains", "implicit none") or low.startswith(("use ", "private", "public")):
            k = "plain"
        elif "::" in low or low.startswith(("import", "module procedure")):
            k = "decl"
        else:
            k = "exec"
        out.append((line, k))
    return out


def relayout(stmts, rng, kinds):
    """returns (text, start_line_of_statement[i]) for a random composition of the chosen transformation kinds"""
    lines = []
    start = []
    i = 0
    n = len(stmts)
    while i < n:
        text, kind = stmts[i]
        if "blank" in kinds and rng.random() < 0.25:
            for _ in range(rng.choice([1, 1, 2, 3])):
                lines.append(rng.choice(["", "   "]))
        if "comment" in kinds and rng.random() < 0.2:
            lines.append(rng.choice(["! an ordinary comment", "  ! end subroutine fake", "!integer :: not_a_decl", "! module x", "! a & b", " ! trailing &"]))
        t = text
        if "case" in kinds:
            mode = rng.choice(["upper", "lower", "mixed", "same"])
            if mode == "upper":
                t = t.upper()
            elif mode == "lower":
                t = t.lower()
            elif mode == "mixed":
                t = "".join(c.upper() if rng.random() < 0.5 else c.lower() for c in t)
        # join with the next statement
        low = text.strip().lower()
        nxt_low = stmts[i + 1][0].strip().lower() if i + 1 < n else ""
        # statements of one kind, or the pairs whose order the diagnostics watch: USE before IMPLICIT, CONTAINS before a procedure
        joinable = (kind in ("exec", "decl") and i + 1 < n and stmts[i + 1][1] == kind) or (low.startswith("use ") and nxt_low == "implicit none") or \
                   (low == "contains" and nxt_low.startswith(("subroutine ", "function ")))
        if "semicolon" in kinds and joinable and rng.random() < 0.3:
            t2 = stmts[i + 1][0]
            start.append(len(lines)); start.append(len(lines))
            lines.append(t.rstrip() + rng.choice(["; ", ";", " ; "]) + t2.strip())
            i += 2
            continue
        start.append(len(lines))
        if "continuation" in kinds and (kind in ("exec", "decl") or (kind == "struct" and "(" in t)) and " " in t.strip() and rng.random() < 0.35:
            s = t.rstrip()
            cut = [k for k in range(len(s)) if s[k] == " " and s[:k].strip() and s[k:].strip()]
            if "'" not in s and '"' not in s and "!" not in s:
                # between two tokens no blank is needed: right after an opening parenthesis or a comma
                cut += [k for k in range(1, len(s)) if s[k - 1] in "(," and s[k:].strip()]
            k = rng.choice(cut)
            lead = rng.choice(["", "&", "  & "])
            tail = ""
            if "comment" in kinds and rng.random() < 0.5:
                tail = rng.choice([" ! rows & columns", " ! note", "! R&D &", " !& x"])
            lines.append(s[:k] + " &" + tail)
            if "comment" in kinds and rng.random() < 0.2:
                lines.append("  ! a comment inside a continued statement")
            lines.append("   " + lead + s[k:])
        else:
            if "trailing" in kinds and rng.random() < 0.4:
                t = t + " " * rng.choice([1, 3, 8])
            if "comment" in kinds and rng.random() < 0.25 and kind != "plain":
                t = t + rng.choice([" ! trailing note", "  !x", " ! end", " ! in & out", " ! 'quoted' \"text\""])
            lines.append(t)
        i += 1
    term = rng.choice(["\n", "\r\n", "\r"]) if "terminator" in kinds else "\n"
    return term.join(lines) + term, start


def dump(text, ext=".f90", hover_words=()):
    """(symbols, diagnostics[, hover text of the first occurrence of each word])"""
    root = tempfile.mkdtemp(prefix="verif_c13_")
    try:
        path = os.path.join(root, "t" + ext)
        with open(path, "w", newline="", encoding="utf-8") as f:
            f.write(text)
        srv, conn = impl.make_server(root, extra=["--nthreads", "1"])
        conn.take()
        impl.did_open(srv, path)
        out = conn.take()
        diags = []
        for o in out:
            if o[0] == "n" and o[1] == "textDocument/publishDiagnostics":
                for d in o[2]["diagnostics"]:
                    diags.append((d["severity"], d["message"].lower(), d["range"]["start"]["line"]))
        resp, _ = impl.request(srv, conn, "textDocument/documentSymbol", {"textDocument": {"uri": impl.uri(path)}})
        syms = []
        if resp and resp[0] == "r" and resp[2] is not None:
            for s in resp[2]:
                rg = s["location"]["range"]
                syms.append((s["name"].lower(), s["kind"], rg["start"]["line"], rg["end"]["line"], (s.get("containerName") or "").lower()))
        else:
            return None
        if hover_words:
            hovers = []
            tl = text.replace("\r\n", "\n").replace("\r", "\n").split("\n")
            for w in hover_words:
                at = next(((i, l.lower().find(w)) for i, l in enumerate(tl) if w in l.lower()), None)
                r, _ = impl.request(srv, conn, "textDocument/hover", impl.pos_params(path, at[0], at[1] + 1)) if at else (None, None)
                hovers.append((w, " ".join(r[2]["contents"]["value"].lower().split()) if r and r[0] == "r" and r[2] else None))
            return syms, diags, hovers
        return syms, diags
    finally:
        shutil.rmtree(root, ignore_errors=True)


def map_dump(d, start):
    """physical line -> statement index (the statement that starts there)"""
    inv = {}
    for si, ln in enumerate(start):
        inv.setdefault(ln, si)
    syms, diags = d

    def m(l):
        return inv.get(l, ("?", l))
    # symbols declared by joined statements share a line: compare names per statement index as a multiset
    # a diagnostic sits on the physical line where the offending word is written: any line of the statement's extent
    ext = {}
    for si, ln in enumerate(start):
        nxt = start[si + 1] if si + 1 < len(start) else ln + 1
        for l in range(ln, max(nxt, ln + 1)):
            ext.setdefault(l, si)

    def md(l):
        return ext.get(l, ("?", l))
    return (sorted(((n, k, m(a), m(b) if b != a else m(a), c) for (n, k, a, b, c) in syms), key=repr),
            sorted(((s, msg, md(l)) for (s, msg, l) in diags), key=repr))


def check_metamorphic(ctx, n):
    kinds_all = ["terminator", "trailing", "comment", "blank", "case", "continuation", "semicolon"]
    for k in range(n + len(CORPUS) * (2 if ctx.quick() else 12)):
        if k >= n:
            stmts = corpus_statements(CORPUS[(k - n) % len(CORPUS)])
        else:
            g = c04.Gen(ctx.rng, keyword_names=False)
            units = [g.unit() for _ in range(ctx.rng.choice([1, 2]))]
            stmts = statements(units)
        base_text = "\n".join(t for t, _ in stmts) + "\n"
        base = dump(base_text)
        if base is None:
            continue
        bstart = list(range(len(stmts)))
        bmap = map_dump(base, bstart)
        if k >= n:
            # hand-written programs spell their names in mixed case: the whole text in upper and in lower case
            for variant, vt in (("upper", base_text.upper()), ("lower", base_text.lower())):
                got = dump(vt)
                ctx.count(("meta-case", base_text, variant), True)
                if got is None or map_dump(got, bstart) != bmap:
                    tm = map_dump(got, bstart) if got else ([], [])
                    ctx.report("C13:layout", "entities/diagnostics change when the whole program is written in %s case" % variant,
                               {"kind": "counterexample", "input": {"original": base_text, "text": vt, "transformations": ["case"]},
                                "implementation": {"symbols": [x for x in tm[0] if x not in bmap[0]][:8], "diagnostics": [x for x in tm[1] if x not in bmap[1]][:8]},
                                "oracle": {"symbols": [x for x in bmap[0] if x not in tm[0]][:8], "diagnostics": [x for x in bmap[1] if x not in tm[1]][:8]}})
        for _ in range(3 if ctx.quick() else 6):
            kinds = set(ctx.rng.sample(kinds_all, ctx.rng.choice([1, 2, 3, 7])))
            text, start = relayout(stmts, ctx.rng, kinds)
            got = dump(text)
            ctx.count(("meta", base_text, tuple(sorted(kinds)), text), True, sample={"transformations": sorted(kinds), "text": text[:500]})
            if got is None:
                ctx.report("C13:no-index", "no outline for a re-laid-out program", {"kind": "counterexample", "input": {"text": text, "original": base_text}})
                continue
            # joined statements: both map to the same physical line; on the base side they are distinct statements, so compare
            # through the physical line of the transformed text
            tmap = map_dump(got, start)
            bm = remap_joined(bmap, start)
            tm = remap_joined(tmap, start)
            if bm != tm:
                sig = "C13:layout"
                ctx.report(sig, "entities/diagnostics change under re-layout (%s)" % ", ".join(sorted(kinds)),
                           {"kind": "counterexample", "input": {"original": base_text, "text": text, "transformations": sorted(kinds)},
                            "implementation": {"symbols": [x for x in tm[0] if x not in bm[0]][:8], "diagnostics": [x for x in tm[1] if x not in bm[1]][:8]},
                            "oracle": {"symbols": [x for x in bm[0] if x not in tm[0]][:8], "diagnostics": [x for x in bm[1] if x not in tm[1]][:8]}})


FIXED_PROGRAM = ("      module fxm\n      implicit none\n      contains\n      real function area(w,\n     &                   h)\n      real w, h\n      area = w * h\n      end function area\n"
                 "      subroutine reset(flag)\n      logical flag\n      flag = .false.\n      end subroutine reset\n      end module fxm\n")


def check_fixed_comments(ctx):
    """C13 for a fixed-form source: ordinary comments (flagged in column 1, or `!` after a few blanks, or from column 7 on) and blank
    lines added between statements do not change the index (line numbers shift)"""
    base_lines = FIXED_PROGRAM.split("\n")[:-1]
    base3 = dump(FIXED_PROGRAM, ".f", hover_words=("area", "reset"))
    base = base3[:2] if base3 else None
    if base is None:
        ctx.report("C13:no-index", "no outline for the fixed-form program", {"kind": "counterexample", "input": {"text": FIXED_PROGRAM}})
        return
    for trial in range(4 if ctx.quick() else 40):
        lines, start = [], []
        for i, l in enumerate(base_lines):
            cont = l.startswith("     &")
            if not cont and ctx.rng.random() < 0.4:
                lines.append(ctx.rng.choice(["C a remark", "* a remark", "! a remark", "  ! note", "    ! note", " !x", "       ! from column 8", ""]))
            start.append(len(lines))
            lines.append(l)
        text = "\n".join(lines) + "\n"
        got3 = dump(text, ".f", hover_words=("area", "reset"))
        got = got3[:2] if got3 else None
        ctx.count(("fixed-comments", text), True)
        if got is None or map_dump(got, start) != map_dump(base, list(range(len(base_lines)))) or got3[2] != base3[2]:
            tm = map_dump(got, start) if got else ([], [])
            bm = map_dump(base, list(range(len(base_lines))))
            ctx.report("C13:layout", "entities/diagnostics of a fixed-form program change when ordinary comments and blank lines are added",
                       {"kind": "counterexample", "input": {"original": FIXED_PROGRAM, "text": text, "transformations": ["comment", "blank"]},
                        "implementation": {"symbols": [x for x in tm[0] if x not in bm[0]][:8], "diagnostics": [x for x in tm[1] if x not in bm[1]][:8], "hovers": got3[2] if got3 else None},
                        "oracle": {"symbols": [x for x in bm[0] if x not in tm[0]][:8], "diagnostics": [x for x in bm[1] if x not in tm[1]][:8], "hovers": base3[2]}})
            break


def remap_joined(mapped, start):
    """statements that share a physical line are identified with the first of them"""
    first = {}
    for si, ln in enumerate(start):
        first.setdefault(ln, si)
    canon = {si: first[ln] for si, ln in enumerate(start)}

    def c(x):
        return canon.get(x, x) if isinstance(x, int) else x
    syms, diags = mapped
    return (sorted(((n, k, c(a), c(b), cn) for (n, k, a, b, cn) in syms), key=repr), sorted(((s, m, c(l)) for (s, m, l) in diags), key=repr))


def check_splitlines(ctx, n):
    from fortls.parsers.internal.parser import splitlines
    coq = ctx.coq(IMPORTS)
    exprs = []
    meta = []
    for _ in range(n):
        ls = ["".join(ctx.rng.choice("ab c!'&;\t\x0c\x0b\x1c\x85\u2028") for _ in range(ctx.rng.choice([0, 0, 1, 3, 6]))) for _ in range(ctx.rng.choice([1, 2, 3, 5]))]
        for term, tn in (("\n", "T_LF"), ("\r\n", "T_CRLF"), ("\r", "T_CR")):
            text = term.join(ls)
            got = splitlines(text)
            ctx.count(("split", text), len(ls) > 1)
            exprs.append("lines_eqb (splitlines (join %s %s)) %s" % (tn, clist(ls, cstr), clist(got, cstr)))
            meta.append((ls, term, got))
            if got != ls:
                ctx.report("C13:terminators", "splitlines differs between terminator styles",
                           {"kind": "counterexample", "input": {"lines": ls, "terminator": repr(term)}, "implementation": got, "oracle": ls})
    bad = coq.bools(exprs, shard=400)
    ctx.cov["traces_validated_against_impl"] += len(exprs)
    for b in bad[:3]:
        ctx.report("C13:model-impl-mismatch", "splitlines differs from Base.Lines.splitlines", {"kind": "broken-correspondence", "input": {"lines": meta[b][0], "terminator": repr(meta[b][1])},
                                                                                             "correspondence": "FV.Base.Lines.splitlines"}, found_input=False)


def check_continuation(ctx, n):
    """C13.Cont.joined against get_code_line + the join of the parse loop, on statements cut into pieces"""
    from fortls.parsers.internal.parser import FortranFile
    coq = ctx.coq("From FV Require Import Base.Str C13.Cont.")
    r = ctx.rng
    stmts = ["integer :: alpha, beta, gam", "call ext_sub(x, y, z + 1)", "x = y * (z + 1) - arr(2)", "if (x > 0 .and. y < 2) z = 3", "real(8), dimension(3) :: v_one, v_two",
             "print *, x, y, z", "type(t_a), pointer :: p => null()"]
    fillers = ["", "   ", "! a comment", "  ! & and more", "#ifdef X", "  #endif", "\t"]
    exprs, meta = [], []
    for _ in range(n):
        stmt = r.choice(stmts)
        cuts = sorted(r.sample(range(1, len(stmt)), r.choice([0, 1, 2, 3])))
        bodies = [stmt[a:b] for a, b in zip([0] + cuts, cuts + [len(stmt)])]
        if any(not b.strip() for b in bodies):
            continue
        pieces = []
        for i, b in enumerate(bodies):
            pieces.append({"lead": r.choice([0, 2, 5]), "amp": (i > 0 and r.random() < 0.5), "body": b, "filler": [r.choice(fillers) for _ in range(r.choice([0, 0, 1, 2]))]})
        lines = []
        for i, pc in enumerate(pieces):
            lines.append(" " * pc["lead"] + ("&" if pc["amp"] else "") + pc["body"] + ("" if i == len(pieces) - 1 else " &"))
            lines += pc["filler"]
        lines.append("end")
        f = FortranFile("/nonexistent/cont.f90")
        f.set_contents(list(lines))
        f.fixed = False         # the layout under test is free form (short unindented texts are otherwise taken for fixed form, see C14)
        _, cur, post = f.get_code_line(0, backward=False)
        got = "".join([cur] + post)
        ctx.count(("cont", tuple(lines)), len(pieces) > 1)
        if got.replace(" ", "") != stmt.replace(" ", ""):
            ctx.report("C13:continuation", "a statement split over continuation lines is not reassembled",
                       {"kind": "counterexample", "input": {"lines": lines, "statement": stmt}, "implementation": got})
        exprs.append("str_eqb (joined %s %s) %s" % (cstr(lines[0]), clist(lines[1:], cstr), cstr(got)))
        meta.append({"lines": lines, "implementation": got})
    bad = coq.bools(exprs, shard=300)
    ctx.cov["traces_validated_against_impl"] += len(exprs)
    for b in bad[:3]:
        ctx.report("C13:model-impl-mismatch", "get_code_line differs from C13.Cont.joined", {"kind": "broken-correspondence", "input": meta[b],
                   "correspondence": "FV.C13.Cont.joined vs FortranFile.get_code_line(forward) + join"}, found_input=False)


SEMI_IMPORTS = "From FV Require Import Base.Str C13.Semi."

SEMI_PROGRAM = [
    ("module semi_m", "struct"), ("implicit none", "plain"),
    ("character(len=3), parameter :: tag = 'a;c'", "decl"), ("integer :: n_items", "decl"),
    ("character(len=5), parameter :: msg = \"it's!\"", "decl"), ("real :: width", "decl"),
    ("character(len=4), parameter :: both = 'x\"y;'", "decl"), ("include 'semi_inc.h'", "decl"), ("logical :: flag", "decl"),
    ("contains", "plain"), ("subroutine semi_s()", "struct"), ("print *, 'p;q'", "exec"), ("n_items = 1", "exec"),
    ("end subroutine semi_s", "struct"), ("end module semi_m", "struct"),
]
SEMI_INCLUDE = "integer :: from_include\n"
SEMI_WORDS = ("tag", "n_items", "msg", "width", "both", "flag", "from_include")


def _semi_statement(rng):
    """a statement in the sense of C13.Semi.statement: literals closed, `;` and `!` only inside literals"""
    out = ["q="]
    for _ in range(rng.choice([0, 1, 1, 2, 3])):
        if rng.random() < 0.6:
            q = rng.choice("'\"")
            body = "".join(rng.choice("ab ;!&" + ("\"" if q == "'" else "'")) for _ in range(rng.choice([0, 1, 2, 4])))
            out.append(q + body + q)
        else:
            out.append("".join(rng.choice("ab =+") for _ in range(rng.choice([1, 2, 3]))))
    return "".join(out).rstrip() or "q"


def semicolon_dump(lines, root):
    """(hover text per word, document symbols) of the module written with the given lines"""
    path = os.path.join(root, "semi.f90")
    with open(path, "w") as f:
        f.write("\n".join(lines) + "\n")
    with open(os.path.join(root, "semi_inc.h"), "w") as f:
        f.write(SEMI_INCLUDE)
    srv, conn = impl.make_server(root, extra=["--nthreads", "1"])
    conn.take()
    impl.did_open(srv, path)
    conn.take()
    hovers = []
    for w in SEMI_WORDS:
        at = next(((i, l.find(w)) for i, l in enumerate(lines) if w in l), None)
        r = None
        if at:
            r, _ = impl.request(srv, conn, "textDocument/hover", impl.pos_params(path, at[0], at[1] + 1))
        hovers.append((w, " ".join(r[2]["contents"]["value"].split()) if r and r[0] == "r" and r[2] else None))
    # the entity declared in the included file: definition of a use of it is not needed, completion of the module lists it
    mod = srv.obj_tree.get("semi_m")
    names = sorted(c.name.lower() for c in mod[0].get_children()) if mod else None
    return hovers, names


def check_semicolon(ctx, n):
    """C13/Semi.v against the implementation: strip_strings(maintain_len) itself, and the pieces parse() pushes on its stack
    for a line with semicolons (recorded by a deque that notes extendleft); ground truth = the statements that were joined.
    Then end to end: a module whose statements carry literals with `;`, `!` and the other quote, and an INCLUDE, written one
    statement per line and with statements joined by `;` -- same hovers (PARAMETER values), same entities."""
    import collections
    from fortls.helper_functions import strip_strings
    from fortls.parsers.internal import parser as P
    coq = ctx.coq(SEMI_IMPORTS)
    exprs, meta = [], []
    # 1. strip_strings on arbitrary lines (unclosed literals included)
    for _ in range(n):
        line = "".join(ctx.rng.choice("ab '\";!=") for _ in range(ctx.rng.choice([0, 1, 3, 6, 10, 16])))
        got = strip_strings(line, maintain_len=True)
        ctx.count(("strip", line), "'" in line or '"' in line)
        exprs.append("str_eqb (strip_strings %s) %s" % (cstr(line), cstr(got)))
        meta.append({"what": "strip_strings", "line": line, "implementation": got})
    # 2. the pieces
    calls = []

    class Rec(collections.deque):
        def extendleft(self, it):
            it = list(it)
            calls.append(it)
            return super().extendleft(it)
    saved = P.deque
    P.deque = Rec
    try:
        for k in range(n):
            if k % 3 == 0:
                line = "q=" + "".join(ctx.rng.choice("ab '\";!=") for _ in range(ctx.rng.choice([1, 3, 6, 10, 16]))).rstrip()
                truth = None
            else:
                ss = [_semi_statement(ctx.rng) for _ in range(ctx.rng.choice([1, 2, 2, 3, 4]))]
                line = ";".join(ss) + ctx.rng.choice(["", "", "! note; more", "!'"])
                truth = ss
            del calls[:]
            f = P.FortranFile("/nonexistent/semi.f90")
            f.set_contents([line])
            try:
                f.parse()
            except Exception as ex:      # noqa: BLE001
                ctx.report("C13:semicolon-crash", "parse() raises %s on a line with semicolons" % type(ex).__name__,
                           {"kind": "counterexample", "input": {"text": line}})
                continue
            got = calls[0] if calls else None
            ctx.count(("semi", line), got is not None)
            if truth is not None:
                want = truth if len(truth) > 1 else None
                if got != want:
                    ctx.report("C13:semicolon-literal", "statements joined by `;` are not handed on as written: %r" % (got,),
                               {"kind": "counterexample", "input": {"text": line, "statements": truth}, "implementation": got, "oracle": want})
            exprs.append("lines_eqb (statements %s) %s" % (cstr(line), clist(got, cstr)) if got is not None
                         else "Nat.eqb (length (statements %s)) 1" % cstr(line))
            meta.append({"what": "statements", "line": line, "implementation": got})
    finally:
        P.deque = saved
    bad = coq.bools(exprs, shard=400)
    ctx.cov["traces_validated_against_impl"] += len(exprs)
    for b in bad[:3]:
        ctx.report("C13:model-impl-mismatch", "%s differs from C13.Semi on %r" % (meta[b]["what"], meta[b]["line"]),
                   {"kind": "broken-correspondence", "input": meta[b], "correspondence": "FV.C13.Semi.%s" % meta[b]["what"]}, found_input=False)
    # 3. end to end
    root = tempfile.mkdtemp(prefix="verif_c13s_")
    try:
        base_lines = [t for t, _ in SEMI_PROGRAM]
        base = semicolon_dump(base_lines, root)
        for trial in range(3 if ctx.quick() else 30):
            lines, i = [], 0
            while i < len(SEMI_PROGRAM):
                t, kind = SEMI_PROGRAM[i]
                j = i + 1
                while j < len(SEMI_PROGRAM) and SEMI_PROGRAM[j][1] == kind and kind in ("decl", "exec") and (trial == 0 or ctx.rng.random() < 0.6):
                    t = t + ctx.rng.choice(["; ", ";", " ; "]) + SEMI_PROGRAM[j][0]
                    j += 1
                lines.append(t + (ctx.rng.choice(["", " ! note; more"]) if trial else ""))
                i = j
            got = semicolon_dump(lines, root)
            ctx.count(("semi-e2e", tuple(lines)), True)
            if got != base:
                ctx.report("C13:semicolon-literal", "hovers/entities of a module change when its statements are joined by `;`: %s"
                           % [(a, b) for a, b in zip(base[0], got[0]) if a != b][:3],
                           {"kind": "counterexample", "input": {"original": "\n".join(base_lines), "text": "\n".join(lines), "transformations": ["semicolon"]},
                            "implementation": got, "oracle": base})
                break
    finally:
        shutil.rmtree(root, ignore_errors=True)


def known_mixed_quotes(ctx):
    """witness of C13_refuted_mixed_quotes on the implementation"""
    a = dump("program p\ncharacter(len=20) :: s\ns = \"it's\" // 'a!b'; integer :: zz\nend program p\n")
    b = dump("program p\ncharacter(len=20) :: s\ns = \"it's\" // 'a!b'\ninteger :: zz\nend program p\n")
    ctx.count(("kf", "mixed-quotes"), True)
    na = {x[0] for x in (a[0] if a else [])}
    nb = {x[0] for x in (b[0] if b else [])}
    if a is None or b is None:
        return
    srv_names_equal = True
    # the declaration after the `;` must be indexed in both renderings: ask the parser directly
    from fortls.parsers.internal.parser import FortranFile, splitlines
    def vars_of(text):
        f = FortranFile("/nonexistent/q.f90"); f.set_contents(splitlines(text)); ast = f.parse()
        return sorted(v.name.lower() for v in ast.variable_list)
    va = vars_of("program p\ncharacter(len=20) :: s\ns = \"it's\" // 'a!b'; integer :: zz\nend program p\n")
    vb = vars_of("program p\ncharacter(len=20) :: s\ns = \"it's\" // 'a!b'\ninteger :: zz\nend program p\n")
    if va != vb:
        ctx.report("C13:mixed-quotes", "joining statements with ';' after literals of both quote kinds drops the second statement",
                   {"kind": "counterexample", "input": {"joined": "s = \"it's\" // 'a!b'; integer :: zz"}, "implementation": va, "oracle": vb})


def search_failing(ctx):
    return None


def run(ctx):
    ctx.cov["trusted_base"] = BASE_TRUST + [
        "regex translator + engine fidelity (every statement pattern, incl. case variants of matching strings)",
        "metamorphic oracle over the C04 program generator (harness/props/c13.py)",
    ]
    ctx.assumptions = [
        "partial: the statement readers are not modelled (continuation gathering: C13/Cont.v, `;` splitting: C13/Semi.v); they are exercised by the metamorphic oracle",
        "the random transformations are applied to generated free-form programs whose statements contain no character literals (a directed module with "
        "literals that hold `;`, `!` and the other quote is joined by `;` in check_semicolon); "
        "mixed quote kinds are a known finding (C13:mixed-quotes)",
        "continuation and `;` joining are applied to declarations and executable statements, not to the statements that open/close constructs",
    ]
    ctx.cov["rule"] = ("generated programs (C04 generator) x random compositions of {terminator style, trailing blanks, ordinary comments incl. inside "
                       "continued statements, blank lines, letter case, & continuation with/without leading &, ; joining}; dumps compared modulo the "
                       "line map; non-trivial: all; distinct by (program, transformation set, text)")
    ctx.proof_obligations(search=lambda: search_failing(ctx))
    from .. import regexfid
    regexfid.run(ctx, 25 if ctx.quick() else 600)
    q = ctx.quick()
    check_splitlines(ctx, 200 if q else 4000)
    known_mixed_quotes(ctx)
    check_continuation(ctx, 300 if q else 6000)
    check_semicolon(ctx, 240 if q else 4000)
    check_metamorphic(ctx, 40 if q else 800)
    check_fixed_comments(ctx)


def replay(ctx, path):
    with open(path) as f:
        doc = json.load(f)
    inp = doc["input"]
    if "text" in inp:
        print("original:", dump(inp["original"]))
        print("re-laid-out:", dump(inp["text"]))
    shutil.rmtree(ctx.workdir, ignore_errors=True)
    return 0
