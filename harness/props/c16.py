"""C16 -- wire framing is byte-exact in both directions.

Obligations: coq/theories/C16/Props.v.  Correspondence: C16/Model.v `send`, `receive_all`,
`path_to_uri`, `unquote_bytes` against fortls.jsonrpc.  Oracle: an independent frame reader/writer.
"""
from __future__ import annotations

import io
import json
import os
import signal

from ..common import BASE_TRUST, CoqError, cbytes, clist, cstr

IMPORTS = "From Coq Require Import ZArith.\nFrom FV Require Import Base.Str C16.Model C16.Chunks."


# ----------------------------------------------------------------------------- generators

def gen_string(rng):
    kind = rng.choices(["ascii", "ctrl", "quote", "latin", "bmp", "astral", "mixed", "path", "surr"],
                       [25, 8, 10, 12, 12, 12, 14, 6, 1])[0]
    n = rng.choice([0, 1, 2, 3, 5, 8, 13])
    pools = {
        "ascii": "abcXYZ 019_-.,:;{}[]/",
        "ctrl": "\x00\x01\x08\x09\x0a\x0c\x0d\x1f\x7f a",
        "quote": "\"\\/'a b\\n",
        "latin": "éüñ ß\x80\xffa",
        "bmp": "λжक中 ￿ࠀa",
        "astral": "😀𝒳\U00010000\U0010ffffa",
        "path": "/tmp/a b/%41#é.f90",
        "surr": "𐏿a",
    }
    if kind == "mixed":
        pool = "".join(pools[k] for k in ("ascii", "ctrl", "quote", "latin", "bmp", "astral"))
    else:
        pool = pools[kind]
    return "".join(rng.choice(pool) for _ in range(n))


def gen_json(rng, depth=0, allow_surr=True):
    kinds = ["null", "bool", "int", "str", "str", "str"]
    if depth < 3:
        kinds += ["arr", "obj", "obj"]
    k = rng.choice(kinds)
    if k == "null":
        return None
    if k == "bool":
        return rng.random() < 0.5
    if k == "int":
        return rng.choice([0, 1, -1, 7, 10, 99, 100, -32601, 2 ** 31, -(2 ** 40), rng.randrange(-10 ** 6, 10 ** 6)])
    if k == "str":
        s = gen_string(rng)
        if not allow_surr:
            s = "".join(c for c in s if not (0xD800 <= ord(c) <= 0xDFFF))
        return s
    if k == "arr":
        return [gen_json(rng, depth + 1, allow_surr) for _ in range(rng.choice([0, 1, 2, 3]))]
    d = {}
    for _ in range(rng.choice([0, 1, 2, 3, 4])):
        key = gen_string(rng)
        if not allow_surr:
            key = "".join(c for c in key if not (0xD800 <= ord(c) <= 0xDFFF))
        d[key] = gen_json(rng, depth + 1, allow_surr)
    return d


def coq_json(v):
    if v is None:
        return "JNull"
    if v is True:
        return "(JBool true)"
    if v is False:
        return "(JBool false)"
    if isinstance(v, int):
        return "(JInt (%d)%%Z)" % v
    if isinstance(v, str):
        return "(JStr %s)" % cstr(v)
    if isinstance(v, list):
        return "(JArr %s)" % clist(v, coq_json)
    if isinstance(v, dict):
        return "(JObj %s)" % clist(v.items(), lambda kv: "(%s, %s)" % (cstr(kv[0]), coq_json(kv[1])))
    raise TypeError(v)


# ----------------------------------------------------------------------------- independent framer (oracle)

def oracle_read_frames(data: bytes):
    """Independent reader: header fields in any order, returns list of body bytes; raises on garbage."""
    out = []
    pos = 0
    while pos < len(data):
        end = data.index(b"\r\n\r\n", pos)
        fields = data[pos:end].split(b"\r\n")
        n = None
        for f in fields:
            name, _, val = f.partition(b":")
            if name.strip().lower() == b"content-length":
                n = int(val.strip())
        if n is None:
            raise ValueError("no content-length")
        body = data[end + 4:end + 4 + n]
        if len(body) != n:
            raise ValueError("short body")
        out.append(body)
        pos = end + 4 + n
    return out


H_TYPE = b"Content-Type: application/vscode-jsonrpc; charset=utf8"


def oracle_frame(layout, body: bytes):
    n = b"Content-Length: %d" % len(body)
    if layout == "LenFirst":
        return n + b"\r\n" + H_TYPE + b"\r\n\r\n" + body
    if layout == "TypeFirst":
        return H_TYPE + b"\r\n" + n + b"\r\n\r\n" + body
    return n + b"\r\n\r\n" + body


class ChunkRaw(io.RawIOBase):
    """A raw stream that hands out the given chunks, one (or a part of one) per read call."""

    def __init__(self, chunks):
        self.chunks = [bytes(c) for c in chunks if c]

    def readable(self):
        return True

    def readinto(self, b):
        if not self.chunks:
            return 0
        c = self.chunks[0]
        n = min(len(b), len(c))
        b[:n] = c[:n]
        if n == len(c):
            self.chunks.pop(0)
        else:
            self.chunks[0] = c[n:]
        return n


class Timeout(BaseException):   # not an Exception: handlers of the implementation must not swallow it
    pass


def _alarm(signum, frame):
    raise Timeout()


def impl_receive_all(chunks, buffer_size=16):
    from fortls.jsonrpc import JSONRPC2Connection, ReadWriter
    reader = io.BufferedReader(ChunkRaw(chunks), buffer_size=buffer_size)
    conn = JSONRPC2Connection(ReadWriter(reader, io.BytesIO()))
    msgs = []
    status = "eof"
    old = signal.signal(signal.SIGALRM, _alarm)
    signal.alarm(5)
    try:
        while True:
            try:
                msgs.append(conn._receive())
            except EOFError:
                break
            except Timeout:
                status = "hang"; break
            except Exception as ex:
                status = "error:%s" % type(ex).__name__; break
    finally:
        signal.alarm(0)
        signal.signal(signal.SIGALRM, old)
    return msgs, status


def impl_send(v, how="_send"):
    from fortls.jsonrpc import JSONRPC2Connection, ReadWriter
    w = io.BytesIO()
    conn = JSONRPC2Connection(ReadWriter(None, w))
    if how == "_send":
        conn._send(v)
    elif how == "response":
        conn.write_response(v[0], v[1])
    elif how == "error":
        conn.write_error(v[0], -32603, v[1])
    elif how == "notification":
        conn.send_notification(v[0], v[1])
    return w.getvalue()


# ----------------------------------------------------------------------------- checks

def check_writer(ctx, n):
    coq = ctx.coq(IMPORTS)
    cases = []
    for _ in range(n):
        v = gen_json(ctx.rng)
        cases.append(v)
    # corpus: strings that matter
    cases = [
        {"a": "é"}, "😀", {"uri": "file:///tmp/a b/é.f90", "msg": "λ\n\"\\"}, [1, -2, None, True, False], {}, [], "", "\x7f",
        {"jsonrpc": "2.0", "id": 1, "result": {"contents": "REAL(8) :: ünïcödé"}},
    ] + cases
    exprs = []
    outs = []
    for v in cases:
        got = impl_send(v)
        outs.append(got)
        exprs.append("str_eqb (send %s) %s" % (coq_json(v), cbytes(got)))
    bad = coq.bools(exprs, shard=150)
    ctx.cov["traces_validated_against_impl"] += len(cases)
    for i, (v, got) in enumerate(zip(cases, outs)):
        body_key = json.dumps(v, sort_keys=True)
        nontrivial = any(ord(c) > 126 or ord(c) < 32 for c in json.dumps(v, ensure_ascii=False))
        ctx.count(("w", body_key), nontrivial, sample={"payload": v, "bytes": got.decode("latin-1")[:200]})
        # oracle: a conforming reader recovers exactly the message
        ok = True
        why = ""
        try:
            frames = oracle_read_frames(got)
            if len(frames) != 1 or json.loads(frames[0].decode("utf-8")) != v:
                ok = False; why = "independent reader recovered %r" % (frames,)
        except Exception as ex:
            ok = False; why = "independent reader failed: %r" % ex
        if not ok:
            ctx.report("C16:writer-frame", "a frame written by _send is not recovered by a conforming reader",
                       {"kind": "counterexample", "input": {"payload": v}, "implementation": got.decode("latin-1"), "oracle": why})
        elif i in bad:
            ctx.report("C16:writer-model-mismatch", "_send differs from C16.Model.send",
                       {"kind": "broken-correspondence", "input": {"payload": v}, "implementation": got.decode("latin-1"),
                        "correspondence": "FV.C16.Model.send vs JSONRPC2Connection._send"}, found_input=False)
    # the three public writers go through _send: check them with the oracle only
    for how in ("response", "error", "notification"):
        for _ in range(max(20, n // 20)):
            a = ctx.rng.choice([1, "id-é", None, 7]) if how != "notification" else gen_string(ctx.rng)
            b = gen_json(ctx.rng) if how != "error" else gen_string(ctx.rng)
            got = impl_send((a, b), how)
            ctx.count(("w2", how, json.dumps([a, b])), True)
            try:
                frames = oracle_read_frames(got)
                doc = json.loads(frames[0].decode("utf-8"))
                key = {"response": "result", "error": "error", "notification": "params"}[how]
                val = doc[key]["message"] if how == "error" else doc[key]
                good = len(frames) == 1 and val == b and (doc.get("id") == a if how != "notification" else doc["method"] == a)
            except Exception as ex:
                good = False
            if not good:
                ctx.report("C16:writer-frame", "a frame written by write_%s is not recovered by a conforming reader" % how,
                           {"kind": "counterexample", "input": {"how": how, "args": [a, b]}, "implementation": got.decode("latin-1")})


def gen_chunks(rng, data: bytes):
    mode = rng.choice(["whole", "bytes", "random", "random", "two"])
    if mode == "whole":
        return [data]
    if mode == "bytes":
        return [data[i:i + 1] for i in range(len(data))]
    if mode == "two":
        k = rng.randrange(0, len(data) + 1)
        return [data[:k], data[k:]]
    out = []
    i = 0
    while i < len(data):
        k = rng.choice([1, 2, 3, 5, 8, 17, 40])
        out.append(data[i:i + k]); i += k
    return out


def check_reader(ctx, n, exhaustive_chunking=False):
    coq = ctx.coq(IMPORTS)
    cases = []
    for _ in range(n):
        msgs = [gen_json(ctx.rng, allow_surr=False) for _ in range(ctx.rng.choice([1, 1, 2, 3, 4]))]
        msgs = [m if isinstance(m, dict) else {"v": m} for m in msgs]
        layouts = [ctx.rng.choice(["LenFirst", "TypeFirst", "LenOnly"]) for _ in msgs]
        bodies = [json.dumps(m, ensure_ascii=ctx.rng.random() < 0.3, separators=(",", ":")).encode("utf-8") for m in msgs]
        data = b"".join(oracle_frame(l, b) for l, b in zip(layouts, bodies))
        cases.append((msgs, layouts, bodies, data, gen_chunks(ctx.rng, data)))
    if exhaustive_chunking:
        msgs = [{"a": "é"}, {"b": [1, "😀"]}, {"c": None}]
        layouts = ["LenFirst", "TypeFirst", "LenOnly"]
        bodies = [json.dumps(m, ensure_ascii=False, separators=(",", ":")).encode("utf-8") for m in msgs]
        data = b"".join(oracle_frame(l, b) for l, b in zip(layouts, bodies))
        for i in range(len(data) + 1):
            for j in range(i, len(data) + 1, 3):
                cases.append((msgs, layouts, bodies, data, [data[:i], data[i:j], data[j:]]))
    exprs = []
    for k, (msgs, layouts, bodies, data, chunks) in enumerate(cases):
        e = "list_eqb str_eqb (fst (receive_all %d%%nat %s)) %s" % (len(bodies) + 1, cbytes(data), clist(bodies, cbytes))
        if k < n and len(chunks) <= 8:
            # the chunked reader program of C16/Chunks.v on the very chunks the implementation gets
            e += " && (match receive_all_chunks %d%%nat %s with (l, PEof) => list_eqb str_eqb l %s | _ => false end)" % (
                len(bodies) + 1, clist(chunks, cbytes), clist(bodies, cbytes))
            ctx.extra["chunked_model_runs"] = ctx.extra.get("chunked_model_runs", 0) + 1
        exprs.append(e)
    # the model is evaluated once per distinct stream
    uniq = {}
    for k, e in enumerate(exprs):
        uniq.setdefault(e, []).append(k)
    ue = list(uniq)
    badu = coq.bools(ue, shard=100)
    badset = set()
    for b in badu:
        badset.update(uniq[ue[b]])
    ctx.cov["traces_validated_against_impl"] += len(cases)
    dist = ctx.extra.setdefault("reader_dist", {"LenFirst": 0, "TypeFirst": 0, "LenOnly": 0, "chunks_gt1": 0, "non_ascii_body": 0})
    for k, (msgs, layouts, bodies, data, chunks) in enumerate(cases):
        for l in layouts:
            dist[l] += 1
        dist["chunks_gt1"] += len(chunks) > 1
        dist["non_ascii_body"] += any(any(x > 127 for x in b) for b in bodies)
        got, status = impl_receive_all(chunks, buffer_size=ctx.rng.choice([1, 7, 16, 8192]))
        ctx.count(("r", data, tuple(len(c) for c in chunks)), len(chunks) > 1 or "TypeFirst" in layouts,
                  sample={"stream": data.decode("latin-1")[:300], "chunk_sizes": [len(c) for c in chunks][:20]})
        if got != msgs or status != "eof":
            sig = "C16:reader"
            ctx.report(sig, "a correctly framed stream is not decoded into the messages sent",
                       {"kind": "counterexample", "input": {"stream_latin1": data.decode("latin-1"), "chunk_sizes": [len(c) for c in chunks],
                                                            "layouts": layouts},
                        "implementation": {"messages": got, "status": status}, "oracle": msgs})
        elif k in badset:
            ctx.report("C16:reader-model-mismatch", "_receive differs from C16.Model.receive_all / C16.Chunks.receive_all_chunks",
                       {"kind": "broken-correspondence", "input": {"stream_latin1": data.decode("latin-1")},
                        "implementation": got, "correspondence": "FV.C16.Model.receive_all vs JSONRPC2Connection._receive"},
                       found_input=False)


def check_big_frames(ctx):
    """bodies larger than any internal block size, with a multi-byte character lying across each power-of-two byte offset
    (a reader that decodes the body block by block breaks there); oracle: the messages sent"""
    sizes = [1 << k for k in range(10, 18)] + [3 << 14, 5 << 13]
    for B in sizes:
        for ch in ("é", "€", "😀"):
            width = len(ch.encode("utf-8"))
            for back in range(1, width):
                pad = B - back - 6               # the character starts `back` bytes before offset B of the body
                msg = {"t": "a" * pad + ch + "z" * 9}
                body = json.dumps(msg, ensure_ascii=False, separators=(",", ":")).encode("utf-8")
                assert body[B - back:B - back + width] == ch.encode("utf-8")
                follow = {"after": B}
                data = oracle_frame("LenFirst", body) + oracle_frame("TypeFirst", json.dumps(follow, separators=(",", ":")).encode("utf-8"))
                head = len(data) - len(oracle_frame("TypeFirst", json.dumps(follow, separators=(",", ":")).encode("utf-8"))) - len(body)
                for chunks in ([data], [data[:head + B], data[head + B:]], [data[:head + B - back], data[head + B - back:]]):
                    got, status = impl_receive_all(chunks, buffer_size=ctx.rng.choice([16, 8192, 65536]))
                    ctx.count(("big", B, ch, back, len(chunks)), True)
                    if got != [msg, follow] or status != "eof":
                        ctx.report("C16:reader", "a correctly framed stream with a %d-byte body (a %d-byte character across byte %d) is not decoded into the messages sent"
                                   % (len(body), width, B),
                                   {"kind": "counterexample", "input": {"body_bytes": len(body), "character": ch, "crosses_offset": B, "chunk_sizes": [len(c) for c in chunks]},
                                    "implementation": {"messages": [str(g)[:80] for g in got], "status": status}, "oracle": "the two messages sent"})
                        return


def gen_path(rng):
    segs = []
    for _ in range(rng.choice([1, 2, 3, 4])):
        pool = rng.choice(["abcXYZ019_-.~", "a b%#?&=+", "éλ中😀", "ab%41%zz%", "a'\"!*()[]{}<>|\\^`$@,;:"])
        s = "".join(rng.choice(pool) for _ in range(rng.choice([1, 2, 4, 7])))
        if s in (".", ".."):
            s = "x" + s
        segs.append(s)
    return "/nonexistent_root/" + "/".join(segs)


def check_uris(ctx, n):
    from fortls.jsonrpc import path_from_uri, path_to_uri
    coq = ctx.coq(IMPORTS)
    paths = ["/tmp/a b/c.f90", "/tmp/100%/x#1.F90", "/tmp/é/λ.f90", "/tmp/%41.f90", "/tmp/😀.f", "/a~b/c_d-e.f90"]
    paths += [gen_path(ctx.rng) for _ in range(n)]
    exprs = []
    uris = []
    for p in paths:
        u = path_to_uri(p)
        uris.append(u)
        back = path_from_uri(u)
        exprs.append("str_eqb (path_to_uri %s) %s && str_eqb (unquote_bytes (uri_quote %s)) %s"
                     " && (match path_from_uri %s with Some b => str_eqb b %s | None => false end)" % (
            cstr(p), cbytes(u.encode("utf-8")), cstr(p), cbytes(p.encode("utf-8")),
            cbytes(u.encode("utf-8")), cbytes(back.encode("utf-8", "surrogatepass"))))
    bad = coq.bools(exprs, shard=300)
    ctx.cov["traces_validated_against_impl"] += len(paths)
    for i, (p, u) in enumerate(zip(paths, uris)):
        ctx.count(("u", p), any(c in p for c in " %#") or any(ord(c) > 127 for c in p), sample={"path": p, "uri": u})
        back = path_from_uri(u)
        ascii_ok = all(ord(c) < 128 for c in u) and all((c.isalnum() or c in "/_.-~%:") for c in u)
        if back != p or not ascii_ok:
            ctx.report("C16:uri-roundtrip", "file URI does not round-trip to the path",
                       {"kind": "counterexample", "input": {"path": p}, "implementation": {"uri": u, "back": back}, "oracle": p})
        elif i in bad:
            ctx.report("C16:uri-model-mismatch", "path_to_uri/path_from_uri differ from C16.Model.path_to_uri/path_from_uri",
                       {"kind": "broken-correspondence", "input": {"path": p}, "implementation": u,
                        "correspondence": "FV.C16.Model.path_to_uri, path_from_uri vs fortls.jsonrpc.path_to_uri, path_from_uri"}, found_input=False)


def search_failing(ctx):
    for v in ["é", {"a": "😀"}, "\x7f", " "]:
        got = impl_send(v)
        try:
            frames = oracle_read_frames(got)
            if len(frames) == 1 and json.loads(frames[0].decode("utf-8")) == v:
                continue
        except Exception:
            pass
        return ("C16:writer-frame", "a frame written by _send is not recovered by a conforming reader",
                {"kind": "counterexample", "input": {"payload": v}, "implementation": got.decode("latin-1")})
    for layout in ("LenFirst", "TypeFirst", "LenOnly"):
        body = b'{"a":1}'
        data = oracle_frame(layout, body) * 2
        got, status = impl_receive_all([data])
        if got != [{"a": 1}, {"a": 1}] or status != "eof":
            return ("C16:reader", "a correctly framed stream is not decoded into the messages sent",
                    {"kind": "counterexample", "input": {"stream_latin1": data.decode("latin-1"), "layouts": [layout, layout]},
                     "implementation": {"messages": got, "status": status}})
    return None


def check_process_pipes(ctx):
    """the server as it is started by an editor: `python -m fortls` over OS pipes.  A body delivered in pieces with pauses in between
    and a body larger than the pipe capacity are decoded like any other (the in-process passes cannot see how stdin is opened)."""
    import subprocess
    import tempfile
    import time
    from ..common import REPO
    root = tempfile.mkdtemp(prefix="verif_c16_p_")
    big = "program big\n" + "".join("  ! %05d %s\n" % (i, "x" * 60) for i in range(4500)) + "end program big\n"     # ~300 kB
    path = os.path.join(root, "big.f90")
    with open(path, "w") as f:
        f.write(big)

    def frame(m):
        b = json.dumps(m).encode("ascii")
        return b"Content-Length: %d\r\n\r\n" % len(b) + b
    init = frame({"jsonrpc": "2.0", "id": 1, "method": "initialize", "params": {"rootPath": root}})
    chg = frame({"jsonrpc": "2.0", "method": "textDocument/didChange", "params": {"textDocument": {"uri": "file://" + path}, "contentChanges": [{"text": big}]}})
    opn = frame({"jsonrpc": "2.0", "method": "textDocument/didOpen", "params": {"textDocument": {"uri": "file://" + path}}})
    sym = frame({"jsonrpc": "2.0", "id": 2, "method": "textDocument/documentSymbol", "params": {"textDocument": {"uri": "file://" + path}}})
    shut = frame({"jsonrpc": "2.0", "id": 3, "method": "shutdown", "params": {}}) + frame({"jsonrpc": "2.0", "method": "exit", "params": {}})
    env = dict(os.environ, PYTHONPATH=REPO)
    proc = subprocess.Popen([os.environ.get("VERIF_PY", "/venv/bin/python"), "-m", "fortls", "--disable_autoupdate", "--incremental_sync", "--nthreads", "1"],
                            stdin=subprocess.PIPE, stdout=subprocess.PIPE, stderr=subprocess.DEVNULL, env=env, cwd=root)
    problem = None
    try:
        # initialize in five pieces, an idle server in between
        n = len(init)
        for a, b in zip([0, 7, n // 3, n // 2, n - 5], [7, n // 3, n // 2, n - 5, n]):
            proc.stdin.write(init[a:b]); proc.stdin.flush(); time.sleep(0.15)
        proc.stdin.write(opn); proc.stdin.flush(); time.sleep(0.1)
        proc.stdin.write(chg[:50000]); proc.stdin.flush(); time.sleep(0.2)      # a 300 kB body, the rest after a pause
        proc.stdin.write(chg[50000:]); proc.stdin.write(sym); proc.stdin.write(shut); proc.stdin.flush()
        proc.stdin.close()
    except (BrokenPipeError, OSError) as ex:
        problem = "the server closed its input while a correctly framed message was being written (%r)" % ex
    try:
        try:
            out = proc.stdout.read()
            proc.wait(timeout=60)
        except subprocess.TimeoutExpired:
            out = b""
            problem = "the server did not end within 60 s"
        frames = oracle_read_frames(out) if out else []
        ids = []
        for fr in frames:
            try:
                m = json.loads(fr.decode("utf-8"))
            except ValueError:
                continue
            if "id" in m and ("result" in m or "error" in m):
                ids.append(m["id"])
        ctx.count(("process-pipes",), True)
        if problem is None and ids != [1, 2, 3]:
            problem = "responses %r for the requests 1, 2, 3" % (ids,)
        if problem:
            ctx.report("C16:process-pipes", "python -m fortls over pipes, a request in five pieces and a 300 kB notification in two: %s" % problem,
                       {"kind": "counterexample", "input": {"pieces_of_initialize": [7, n // 3, n // 2, n - 5, n], "big_body_bytes": len(chg)}, "implementation": ids})
    finally:
        try:
            proc.kill()
        except Exception:  # noqa: BLE001
            pass
        import shutil
        shutil.rmtree(root, ignore_errors=True)


def run(ctx):
    ctx.cov["trusted_base"] = BASE_TRUST + [
        "hand-written model C16/Model.v + C16/Chunks.v tied to fortls.jsonrpc (_send, _receive incl. the chunked read loop, path_to_uri, path_from_uri) by differential execution (this run)",
        "CPython json.dumps/json.loads, io.BufferedReader, urllib.parse.quote/unquote, pathlib.Path.resolve",
        "independent frame reader/writer in harness/props/c16.py (oracle)",
    ]
    ctx.assumptions = [
        "JSON structure parsing (json.loads) is not modelled; structural recovery is checked by the independent reader",
        "payload values are null/bool/int/str/list/dict (no floats are modelled)",
        "Path.resolve is the identity on canonical absolute POSIX paths",
    ]
    ctx.cov["rule"] = ("writer: random JSON values (strings over ASCII, controls, quotes, Latin-1, BMP, astral, lone surrogates); "
                       "reader: 1-4 back-to-back frames x 3 header layouts x chunkings (whole, per byte, random, two-way; thorough: all "
                       "two-cut chunkings of a 3-frame stream) x BufferedReader sizes; uris: paths over unreserved, reserved, non-ASCII; "
                       "non-trivial = contains a character that needs escaping / is chunked or has Content-Type first / has a character "
                       "that needs percent-encoding; distinct by value")
    ctx.proof_obligations(search=lambda: search_failing(ctx))
    q = ctx.quick()
    check_writer(ctx, 900 if q else 20000)
    check_reader(ctx, 400 if q else 5000, exhaustive_chunking=not q)
    check_big_frames(ctx)
    check_uris(ctx, 500 if q else 10000)
    check_process_pipes(ctx)


def replay(ctx, path):
    with open(path) as f:
        doc = json.load(f)
    inp = doc["input"]
    if "payload" in inp:
        got = impl_send(inp["payload"])
        print("implementation:", got)
        frames = oracle_read_frames(got)
        ok = len(frames) == 1 and json.loads(frames[0].decode("utf-8")) == inp["payload"]
        print("recovered by independent reader:", ok)
        return 0 if ok else 1
    if "stream_latin1" in inp:
        data = inp["stream_latin1"].encode("latin-1")
        sizes = inp.get("chunk_sizes") or [len(data)]
        chunks = []
        i = 0
        for s in sizes:
            chunks.append(data[i:i + s]); i += s
        got, status = impl_receive_all(chunks)
        print("implementation:", got, status)
        want = [json.loads(b.decode("utf-8")) for b in oracle_read_frames(data)]
        print("oracle:", want)
        return 0 if (got == want and status == "eof") else 1
    if "path" in inp:
        from fortls.jsonrpc import path_from_uri, path_to_uri
        u = path_to_uri(inp["path"])
        print(u, path_from_uri(u))
        return 0 if path_from_uri(u) == inp["path"] else 1
    return 2
