"""Shared machinery for all checks: context, Coq driving, evidence, violation protocol.

Every check is `run(ctx)` in harness/props/cXX.py.  The flow is DESIGN.md section 2.4:
regenerate Gen/*.v -> make (proof obligations) -> correspondence -> property oracle.
"""
from __future__ import annotations

import fcntl
import hashlib
import json
import os
import random
import re
import shutil
import subprocess
import sys
import tempfile
import time

VERIF = os.path.dirname(os.path.dirname(os.path.abspath(__file__)))
REPO = os.environ.get("VERIF_REPO", "/repo")
COQ = os.path.join(VERIF, "coq")
THEORIES = os.path.join(COQ, "theories")
GEN = os.path.join(THEORIES, "Gen")
EVID = os.path.join(VERIF, "evidence")
REPLAYS = os.path.join(VERIF, "replays")
CORPUS = os.path.join(VERIF, "corpus")
PY = "/venv/bin/python"
NPROC = 16

ALLOWED_AXIOMS: set[str] = set()  # the development is axiom free; see DESIGN.md section 6

FORBIDDEN = re.compile(
    r"\b(Admitted|admit|Axiom|Axioms|Parameter|Parameters|Conjecture|Conjectures|"
    r"Admit Obligations|Unset Guard Checking|bypass_check|Unset Positivity Checking|"
    r"Unset Universe Checking|type-in-type|impredicative-set)\b"
)


def sh(cmd, timeout=600, cwd=None, env=None, input=None):
    e = dict(os.environ)
    if env:
        e.update(env)
    try:
        p = subprocess.run(
            cmd, shell=isinstance(cmd, str), cwd=cwd, env=e, input=input,
            stdout=subprocess.PIPE, stderr=subprocess.STDOUT, timeout=timeout, text=True,
        )
        return p.returncode, p.stdout
    except subprocess.TimeoutExpired as ex:
        out = ex.stdout or ""
        if isinstance(out, bytes):
            out = out.decode("utf-8", "replace")
        return 124, out + "\n[timeout after %ss]" % timeout


# --------------------------------------------------------------------------- Coq values

def cN(n: int) -> str:
    return "%d" % n


def cstr(s) -> str:
    """Python str (or list of code points) -> Coq `list N` literal (N_scope must be open)."""
    if isinstance(s, str):
        s = [ord(c) for c in s]
    return "[" + ";".join("%d" % c for c in s) + "]"


def cbytes(b: bytes) -> str:
    return "[" + ";".join("%d" % c for c in b) + "]"


def clist(items, f=str) -> str:
    return "[" + "; ".join(f(x) for x in items) + "]"


def cnat(n: int) -> str:
    return "%d%%nat" % n


def cbool(b) -> str:
    return "true" if b else "false"


def copt(x, f=str) -> str:
    return "None" if x is None else "(Some %s)" % f(x)


# --------------------------------------------------------------------------- Coq build

class CoqError(Exception):
    pass


def _lock():
    os.makedirs(os.path.join(VERIF, ".work"), exist_ok=True)
    f = open(os.path.join(VERIF, ".work", "lock"), "w")
    fcntl.flock(f, fcntl.LOCK_EX)
    return f


def write_if_changed(path: str, text: str) -> bool:
    try:
        with open(path) as f:
            if f.read() == text:
                return False
    except OSError:
        pass
    os.makedirs(os.path.dirname(path), exist_ok=True)
    with open(path, "w") as f:
        f.write(text)
    return True


def coq_project_files():
    out = []
    for root, _, files in os.walk(THEORIES):
        for fn in sorted(files):
            if fn.endswith(".v"):
                out.append(os.path.relpath(os.path.join(root, fn), COQ))
    return sorted(out)


def coq_make(targets=None, timeout=1500):
    """(Re)build the Coq development.  Full .vo build, never -vos.  Returns (ok, log)."""
    lk = _lock()
    try:
        proj = "-Q theories FV\n" + "\n".join(coq_project_files()) + "\n"
        changed = write_if_changed(os.path.join(COQ, "_CoqProject"), proj)
        if changed or not os.path.exists(os.path.join(COQ, "Makefile")):
            rc, out = sh("coq_makefile -f _CoqProject -o Makefile", cwd=COQ, timeout=60)
            if rc != 0:
                return False, out
        tg = " ".join(targets) if targets else ""
        rc, out = sh("timeout %d make -j%d %s" % (timeout, NPROC, tg), cwd=COQ, timeout=timeout + 30)
        return rc == 0, out
    finally:
        lk.close()


def grep_forbidden():
    """Return list of (file, line, text) of forbidden constructs in the Coq sources."""
    hits = []
    for rel in coq_project_files():
        p = os.path.join(COQ, rel)
        with open(p) as f:
            txt = f.read()
        # strip comments (non nested is enough: we do not nest)
        nocom = re.sub(r"\(\*.*?\*\)", lambda m: " " * len(m.group(0)), txt, flags=re.S)
        for i, line in enumerate(nocom.split("\n"), 1):
            if FORBIDDEN.search(line):
                hits.append((rel, i, line.strip()))
    return hits


def check_props_file(prop: str, relpath=None, timeout=600):
    """Compile <prop>/Props.v on its own (always, so that Print Assumptions output is seen).

    Returns dict(ok, theorems=[names], assumptions={name: [axioms]}, log).
    """
    rel = relpath or os.path.join("theories", prop, "Props.v")
    lk = _lock()
    try:
        rc, out = sh("timeout %d coqc -Q theories FV %s" % (timeout, rel), cwd=COQ, timeout=timeout + 30)
    finally:
        lk.close()
    with open(os.path.join(COQ, rel)) as f:
        src = f.read()
    src_nocom = re.sub(r"\(\*.*?\*\)", "", src, flags=re.S)
    theorems = re.findall(r"^\s*(?:Theorem|Example)\s+([A-Za-z0-9_']+)", src_nocom, flags=re.M)
    printed = re.findall(r"Print Assumptions\s+([A-Za-z0-9_'.]+)\s*\.", src_nocom)
    # Output blocks: either "Closed under the global context" or "Axioms:\n name : type ..."
    blocks = []
    cur = None
    for line in out.split("\n"):
        if line.startswith("Closed under the global context"):
            blocks.append([])
            cur = None
        elif line.startswith("Axioms:"):
            cur = []
            blocks.append(cur)
        elif cur is not None:
            m = re.match(r"^([A-Za-z0-9_'.]+)\s*:", line)
            if m:
                cur.append(m.group(1))
            elif line and not line.startswith(" "):
                cur = None
    assumptions = {}
    for name, b in zip(printed, blocks):
        assumptions[name] = b
    ok = rc == 0 and len(blocks) == len(printed)
    return dict(ok=ok, rc=rc, theorems=theorems, printed=printed, assumptions=assumptions, log=out)


class CoqEval:
    """Evaluate model expressions inside Coq (vm_compute), in parallel shards."""

    def __init__(self, imports: str, workdir: str, ctx=None):
        self.imports = imports
        self.workdir = workdir
        self.n = 0
        self.ctx = ctx

    def bools(self, exprs, **kw):
        """failing indices; when the obligations of this run are already broken (reported), a model
        that no longer compiles cannot be evaluated: the oracle part of the check still runs"""
        try:
            return self._bools(exprs, **kw)
        except CoqError as ex:
            if self.ctx is not None and self.ctx.obligations_broken:
                self.ctx.note("model not evaluated (obligations broken): %s" % str(ex)[:200])
                return []
            raise

    def _run_files(self, files, timeout):
        procs = []
        results = {}
        idx = 0
        running = []
        files = list(files)
        while files or running:
            while files and len(running) < NPROC:
                f = files.pop(0)
                p = subprocess.Popen(
                    ["timeout", str(timeout), "coqc", "-Q", os.path.join(COQ, "theories"), "FV", f],
                    stdout=subprocess.PIPE, stderr=subprocess.STDOUT, text=True, cwd=self.workdir,
                )
                running.append((f, p))
            f, p = running.pop(0)
            out, _ = p.communicate()
            results[f] = (p.returncode, out)
        return results

    def _bools(self, exprs, shard=300, timeout=600, extra=""):
        """exprs: list of Coq boolean expressions.  Returns sorted list of failing indices."""
        files = []
        for k in range(0, len(exprs), shard):
            self.n += 1
            fn = os.path.join(self.workdir, "cases_%d.v" % self.n)
            body = [self.imports, "Open Scope N_scope.", extra,
                    "Definition cases : list (nat * bool) := ["]
            body.append(";\n".join("(%d%%nat, %s)" % (k + j, e) for j, e in enumerate(exprs[k:k + shard])))
            body.append("].")
            body.append("Definition bad := map fst (filter (fun p => negb (snd p)) cases).")
            body.append("Eval vm_compute in (length cases, bad).")
            with open(fn, "w") as f:
                f.write("\n".join(body) + "\n")
            files.append((fn, k, min(shard, len(exprs) - k)))
        res = self._run_files([f for f, _, _ in files], timeout)
        failing = []
        for fn, k, cnt in files:
            rc, out = res[fn]
            if rc != 0:
                raise CoqError("coqc failed on %s (rc=%s):\n%s" % (fn, rc, out[-3000:]))
            flat = " ".join(out.split())
            m = re.search(r"= \((\d+)(?:%nat)?, \[(.*?)\]\) : nat \* list nat", flat)
            if not m:
                raise CoqError("cannot parse coqc output of %s:\n%s" % (fn, out[-2000:]))
            if int(m.group(1)) != cnt:
                raise CoqError("case count mismatch in %s" % fn)
            inner = m.group(2).strip()
            if inner:
                failing.extend(int(x.replace("%nat", "")) for x in inner.split(";"))
        return sorted(failing)

    def raw(self, expr, timeout=300, extra=""):
        """Evaluate one expression and return Coq's printed value (flattened)."""
        self.n += 1
        fn = os.path.join(self.workdir, "one_%d.v" % self.n)
        with open(fn, "w") as f:
            f.write("\n".join([self.imports, "Open Scope N_scope.", extra,
                               "Eval vm_compute in (%s)." % expr]) + "\n")
        rc, out = self._run_files([fn], timeout)[fn]
        if rc != 0:
            raise CoqError("coqc failed on %s:\n%s" % (fn, out[-3000:]))
        flat = " ".join(out.split())
        m = re.search(r"= (.*) : [^:]*$", flat)
        return m.group(1) if m else flat


def parse_coq_str_list(txt: str):
    """Parse Coq printed `[[97; 98]; []]` (list (list N)) into python list of str."""
    txt = txt.replace("%N", "")
    depth = 0
    out = []
    cur = None
    num = ""
    for ch in txt:
        if ch == "[":
            depth += 1
            if depth == 2:
                cur = []
        elif ch == "]":
            if depth == 2:
                if num:
                    cur.append(int(num)); num = ""
                out.append("".join(chr(c) for c in cur))
                cur = None
            depth -= 1
        elif ch.isdigit():
            num += ch
        elif ch == ";" or ch == " ":
            if num and cur is not None:
                cur.append(int(num))
            num = ""
    return out


# --------------------------------------------------------------------------- context

class Ctx:
    def __init__(self, prop: str, tier: str, seed: int):
        self.prop = prop
        self.tier = tier
        self.seed = seed
        self.rng = random.Random("%s/%s" % (prop, seed))
        self.t0 = time.time()
        self.cov: dict = {
            "obligations": 0, "discharged": 0, "checker_cmd": "", "trusted_base": [],
            "evaluations": 0, "distinct_nontrivial": 0, "rule": "", "samples": [],
            "traces_validated_against_impl": 0,
        }
        self.assumptions: list[str] = []
        self.violations = 0
        self.known_seen: dict[str, int] = {}
        self.workdir = tempfile.mkdtemp(prefix="verif_%s_" % prop)
        self._distinct: set = set()
        self._replay_n = 0
        self.findings = load_findings()
        self.obligation_names: list[str] = []
        self.obligations_broken = False
        self.extra: dict = {}

    # -- bookkeeping
    def quick(self):
        return self.tier == "quick"

    def count(self, key, nontrivial=True, sample=None):
        """Register one evaluated case; `key` is any hashable canonical form."""
        self.cov["evaluations"] += 1
        if nontrivial:
            h = hashlib.md5(repr(key).encode("utf-8", "replace")).digest()
            self._distinct.add(h)
        if sample is not None and len(self.cov["samples"]) < 3:
            self.cov["samples"].append(sample)

    def coq(self, imports):
        return CoqEval(imports, self.workdir, self)

    # -- findings
    def report(self, sig: str, what: str, replay: dict, found_input=True):
        """A candidate violation with canonical signature `sig`."""
        kf = self.findings.get(sig)
        if kf is not None and kf.get("property") == self.prop and kf.get("status") == "open":
            if sig not in self.known_seen:
                print("KNOWN-FINDING: property=%s %s: %s" % (self.prop, sig, kf.get("what", what)))
            self.known_seen[sig] = self.known_seen.get(sig, 0) + 1
            return False
        self.violations += 1
        if self.violations > 20:
            return True
        os.makedirs(REPLAYS, exist_ok=True)
        self._replay_n += 1
        path = os.path.join(REPLAYS, "%s_%s_%d.json" % (self.prop, self.tier, self._replay_n))
        doc = {"property": self.prop, "signature": sig, "what": what, "seed": self.seed,
               "tier": self.tier}
        doc.update(replay)
        doc["how"] = "./check %s --replay %s" % (self.prop, path)
        with open(path, "w") as f:
            json.dump(doc, f, indent=1, default=repr)
        tail = "" if found_input else " no-failing-input-found"
        print("VIOLATION property=%s replay=%s%s" % (self.prop, path, tail))
        sys.stdout.flush()
        return True

    def note(self, msg):
        self.last_note = msg
        print("[%s %6.1fs] %s" % (self.prop, time.time() - self.t0, msg))
        sys.stdout.flush()

    # -- proof obligations
    def proof_obligations(self, extra_props=(), search=None):
        """grep, make, compile Props.v and read Print Assumptions.

        Returns True when all obligations are discharged.  On failure tries `search`
        (a callable returning (sig, what, replay) or None) to find a concrete failing
        input; otherwise reports no-failing-input-found.
        """
        hits = grep_forbidden()
        if hits:
            self.report("%s:forbidden-construct" % self.prop, "forbidden construct in Coq sources",
                        {"kind": "broken-obligation", "hits": hits}, found_input=False)
            return False
        # every Gen/*.v is regenerated from /repo's working tree before anything is compiled
        from . import gen_all
        try:
            self.extra["regenerated"] = gen_all.regenerate_all()
        except Exception as ex:
            self.report("%s:translator-crash" % self.prop, "a translator could not read the source: %r" % ex,
                        {"kind": "broken-obligation", "exception": repr(ex)}, found_input=False)
            return False
        files = [os.path.join("theories", self.prop, "Props.v")] + list(extra_props)
        # build only this property's dependency closure: a broken obligation of another
        # property must not raise an alarm here
        ok, log = coq_make(targets=[f[:-2] + ".vo" for f in files] + ["theories/Base/RegexCheck.vo"])
        total = 0
        done = 0
        failed = []
        names = []
        axioms = set()
        if ok:
            for rel in files:
                r = check_props_file(self.prop, rel)
                total += len(r["printed"])
                if r["ok"]:
                    for n in r["printed"]:
                        ax = r["assumptions"].get(n, ["?"])
                        bad = [a for a in ax if a not in ALLOWED_AXIOMS]
                        axioms.update(ax)
                        if bad:
                            failed.append("%s depends on %s" % (n, bad))
                        else:
                            done += 1
                            names.append(n)
                else:
                    failed.append("%s does not compile: %s" % (rel, r["log"][-1500:]))
        else:
            failed.append("make failed: " + log[-3000:])
            total = max(total, 1)
        self.cov["obligations"] += total
        self.cov["discharged"] += done
        self.obligation_names += names
        self.cov["checker_cmd"] = "cd /verif/coq && make && coqc -Q theories FV " + " ".join(files)
        self.extra["axioms"] = sorted(axioms)
        if failed:
            self.obligations_broken = True
            found = None
            if search is not None:
                try:
                    found = search()
                except Exception as ex:  # the search is best effort
                    self.note("search for failing input raised %r" % ex)
            if found:
                sig, what, replay = found
                replay = dict(replay)
                replay["broken_obligations"] = failed
                self.report(sig, what, replay, found_input=True)
            else:
                self.report("%s:broken-obligation" % self.prop,
                            "proof obligations no longer check",
                            {"kind": "broken-obligation", "broken_obligations": failed},
                            found_input=False)
            return False
        return True

    # -- evidence
    def finish(self):
        self.cov["distinct_nontrivial"] = len(self._distinct)
        cov = dict(self.cov)
        cov["known_findings_seen"] = self.known_seen
        cov["obligation_names"] = self.obligation_names
        cov.update(self.extra)
        ev = {
            "property_id": self.prop, "tier": self.tier, "seed": self.seed, "level": "proof",
            "coverage": cov, "assumptions": self.assumptions,
            "wall_s": round(time.time() - self.t0, 2), "violations": self.violations,
        }
        os.makedirs(EVID, exist_ok=True)
        with open(os.path.join(EVID, "%s.json" % self.prop), "w") as f:
            json.dump(ev, f, indent=1, default=repr)
        shutil.rmtree(self.workdir, ignore_errors=True)
        self.note("done: evaluations=%d distinct=%d obligations=%d/%d violations=%d known=%s" % (
            cov["evaluations"], cov["distinct_nontrivial"], cov["discharged"], cov["obligations"],
            self.violations, dict(self.known_seen)))
        return 1 if self.violations else 0


def load_findings():
    p = os.path.join(VERIF, "known_findings.json")
    try:
        with open(p) as f:
            doc = json.load(f)
    except OSError:
        return {}
    return {e["id"]: e for e in doc.get("findings", [])}


BASE_TRUST = [
    "Coq 8.16.1 kernel + coqc; vm_compute (no native_compute)",
    "axioms: none (Print Assumptions = Closed under the global context for every property theorem)",
    "Python harness: generators, canonicalisers, correspondence comparison, CPython itself",
]


def impl_env(seed=0):
    e = dict(os.environ)
    e["PYTHONPATH"] = REPO
    e["PYTHONHASHSEED"] = str(seed % 4294967295)
    return e


def add_repo_to_path():
    if REPO not in sys.path:
        sys.path.insert(0, REPO)
