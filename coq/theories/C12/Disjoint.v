(* C12/Disjoint.v -- USE statements whose ONLY lists share nothing with the list in force import nothing (the `continue` of get_use_tree
   on an empty intersection).  Proofs over Shared/Resolve.v. *)
From Coq Require Import ZArith.
From FV Require Import Base.Str Shared.Resolve.

Lemma intersect_disjoint u : forall only, (forall v, In v only -> smem v (u_only u) = false) -> intersect_only only [] u = ([], []).
Proof.
  induction only as [|v r IH]; intro H; [reflexivity|]. cbn [intersect_only sassoc].
  rewrite (H v (or_introl eq_refl)). cbn [sremove]. apply IH. intros w Hw. apply H. now right.
Qed.

Theorem disjoint_only_imports_nothing p f sc d only path :
  only <> [] ->
  (forall u, In u (sp_uses sc) -> u_only u <> [] /\ forall v, In v only -> smem v (u_only u) = false) ->
  get_use_tree p (S f) sc d only [] path = Some d.
Proof.
  intros Ho Hu. cbn [get_use_tree]. destruct (smem (sp_fqsn sc) path); [reflexivity|].
  revert Hu. generalize (sp_uses sc) as us. induction us as [|u r IH]; intro Hu; [reflexivity|].
  destruct (Hu u (or_introl eq_refl)) as [Hne Hdis].
  assert (Ei : intersect_only only [] u = ([], [])) by (apply intersect_disjoint; exact Hdis).
  assert (IH' := IH (fun w Hw => Hu w (or_intror Hw))). clear IH Hu.
  cbn -[intersect_only merge_existing get_use_tree] in *.
  destruct (sassoc (u_mod u) (p_tree p)) as [mi|]; [|exact IH'].
  destruct only as [|o os]; [contradiction|]. destruct (u_only u) as [|x xs]; [contradiction|].
  rewrite Ei. exact IH'.
Qed.
