(* C12/Model.v -- completion candidates in an executable statement (fortls/langserver.py serve_autocomplete.get_candidates):
   the children of the enclosing scopes, and the public children of every module of the USE dictionary accumulated over
   those scopes, filtered by ONLY lists, shown under their local names, filtered by the typed prefix.
   Globals (module names, intrinsics) are left out.  Definitions only. *)
From Coq Require Import ZArith.
From FV Require Import Base.Str Shared.Resolve.

Definition FUEL (p : prog) : nat := S (length (p_tree p)) + 1.

(* use_dict = get_use_tree(scope, use_dict, obj_tree) for each scope of the list, threading the dictionary *)
Fixpoint use_dict_chain (p : prog) (chain : list scp) (d : udict) : option udict :=
  match chain with
  | [] => Some d
  | sc :: r => match get_use_tree p (FUEL p) sc d [] [] [] with Some d' => use_dict_chain p r d' | None => None end
  end.

(* Use.rename(): the remote names of the ONLY list *)
Definition remote_names (info : uinfo) : list str :=
  map (fun o => match sassoc o (i_ren info) with Some r => r | None => o end) (i_only info).

(* child_candidates(module, only_list) with filter_public = True *)
Definition module_candidates (msc : scp) (info : uinfo) : list ent :=
  let pub := filter (fun e => negb (is_private msc e)) (sp_children msc) in
  match i_only info with [] => pub | _ => filter (fun e => smem (e_name e) (remote_names info)) pub end.

(* the local names under which entity e of the module is known here: its own name if the ONLY list has it, and every rename *)
Definition labels_of (info : uinfo) (e : ent) : list str :=
  match i_ren info with
  | [] => [e_name e]
  | _ =>
    match i_only info with
    | [] => match map fst (filter (fun lr => str_eqb (snd lr) (e_name e)) (i_ren info)) with [] => [e_name e] | l => l end
    | only => filter (fun o => str_eqb (match sassoc o (i_ren info) with Some r => r | None => o end) (e_name e)) only
    end
  end.

(* (module, entity, label) for every candidate that comes from the USE dictionary *)
Definition use_candidates (p : prog) (d : udict) : list (str * ent * str) :=
  flat_map (fun mi => match sassoc (fst mi) (p_tree p) with
                      | Some i => match scope_at p i with
                                  | Some msc => flat_map (fun e => map (fun l => (fst mi, e, l)) (labels_of (snd mi) e)) (module_candidates msc (snd mi))
                                  | None => []
                                  end
                      | None => []
                      end) d.

Definition local_labels (chain : list scp) : list str := flat_map (fun sc => map e_name (sp_children sc)) chain.

Definition labels (p : prog) (chain : list scp) (d : udict) : list str :=
  local_labels chain ++ map (fun x => snd x) (use_candidates p d).

Fixpoint prefix_ci (pre s : str) : bool :=
  match pre, s with
  | [], _ => true
  | x :: p', y :: s' => N.eqb (to_lower x) (to_lower y) && prefix_ci p' s'
  | _ :: _, [] => false
  end.

(* var_name.lower().startswith(var_prefix) -- the prefix arrives lower-cased *)
Definition complete (p : prog) (chain : list scp) (pre : str) : option (list str) :=
  match use_dict_chain p chain [] with
  | Some d => Some (filter (prefix_ci pre) (labels p chain d))
  | None => None
  end.

Definition strs_subset (a b : list str) : bool := forallb (fun x => smem x b) a.
Definition strs_same (a b : list str) : bool := strs_subset a b && strs_subset b a.
