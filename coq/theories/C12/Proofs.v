(* C12/Proofs.v *)
From Coq Require Import ZArith Lia.
From FV Require Import Base.Str Shared.Resolve C12.Model.

Lemma in_use_candidates p d m e l : In (m, e, l) (use_candidates p d) ->
  exists info i msc, In (m, info) d /\ sassoc m (p_tree p) = Some i /\ scope_at p i = Some msc /\
                     In e (module_candidates msc info) /\ In l (labels_of info e).
Proof.
  unfold use_candidates. intro H. apply in_flat_map in H as [[m' info] [Hin H]]. cbn [fst snd] in H.
  destruct (sassoc m' (p_tree p)) as [i|] eqn:Ei; [|contradiction].
  destruct (scope_at p i) as [msc|] eqn:Es; [|contradiction].
  apply in_flat_map in H as [e' [He Hl]]. apply in_map_iff in Hl as [l' [E Hl']]. inversion E; subst. exists info, i, msc. auto.
Qed.

(* every candidate that comes through USE is a public child of its module ... *)
Lemma module_candidates_public msc info e : In e (module_candidates msc info) -> In e (sp_children msc) /\ is_private msc e = false.
Proof.
  unfold module_candidates. intro H.
  assert (Hp : In e (filter (fun e => negb (is_private msc e)) (sp_children msc))).
  { destruct (i_only info); [exact H|]. apply filter_In in H. tauto. }
  apply filter_In in Hp as [H1 H2]. apply negb_true_iff in H2. auto.
Qed.

(* ... and, under an ONLY list, one of the names the list imports *)
Lemma module_candidates_only msc info e : i_only info <> [] -> In e (module_candidates msc info) -> smem (e_name e) (remote_names info) = true.
Proof.
  unfold module_candidates. intros Hne H. destruct (i_only info) eqn:E; [congruence|]. rewrite <- E in *. apply filter_In in H. tauto.
Qed.

Theorem use_candidate_public p d m e l : In (m, e, l) (use_candidates p d) ->
  exists i msc, sassoc m (p_tree p) = Some i /\ scope_at p i = Some msc /\ In e (sp_children msc) /\ is_private msc e = false.
Proof.
  intro H. apply in_use_candidates in H as [info [i [msc [_ [Hi [Hs [Hc _]]]]]]].
  destruct (module_candidates_public _ _ _ Hc). eauto 8.
Qed.

Theorem use_candidate_in_only p d m e l : In (m, e, l) (use_candidates p d) ->
  exists info, In (m, info) d /\ (i_only info = [] \/ smem (e_name e) (remote_names info) = true).
Proof.
  intro H. apply in_use_candidates in H as [info [i [msc [Hin [_ [_ [Hc _]]]]]]]. exists info. split; [exact Hin|].
  destruct (i_only info) eqn:E; [now left|right]. apply (module_candidates_only msc); [congruence|exact Hc].
Qed.

(* the prefix filter is exact *)
Theorem complete_prefix_exact p chain pre ls l : complete p chain pre = Some ls ->
  (In l ls <-> exists d, use_dict_chain p chain [] = Some d /\ In l (labels p chain d) /\ prefix_ci pre l = true).
Proof.
  unfold complete. destruct (use_dict_chain p chain []) as [d|]; [|discriminate]. intro H. inversion H; subst. rewrite filter_In. split.
  - intros [H1 H2]. eauto.
  - intros [d' [E [H1 H2]]]. inversion E; subst. auto.
Qed.

(* every name offered through a rename-free USE dictionary resolves: completion never offers a USE-associated name that
   go-to-definition could not follow *)
Lemma smem_In x l : smem x l = true <-> In x l.
Proof.
  induction l as [|y r IH]; cbn; [split; [discriminate|contradiction]|].
  rewrite orb_true_iff, IH. split; intros [H|H]; auto; [left; symmetry; now apply str_eqb_eq|left; apply str_eqb_eq; now symmetry].
Qed.

Lemma check_scope_finds msc e : In e (sp_children msc) -> is_private msc e = false -> check_scope msc (e_name e) true <> None.
Proof.
  intros Hin Hp. unfold check_scope.
  destruct (find _ (sp_children msc)) eqn:E; [discriminate|]. exfalso.
  apply (find_none _ _ E e) in Hin. cbn in Hin. rewrite Hp in Hin. cbn in Hin.
  assert (str_eqb (e_name e) (e_name e) = true) by now apply str_eqb_eq. congruence.
Qed.

Theorem offered_name_resolves p d m e l :
  Forall (fun mi => i_ren (snd mi) = []) d -> In (m, e, l) (use_candidates p d) -> search_uses p d l <> None.
Proof.
  intros Hnoren H. apply in_use_candidates in H as [info [i [msc [Hin [Hi [Hs [Hc Hl]]]]]]].
  rewrite Forall_forall in Hnoren.
  assert (Hr : i_ren info = []) by (apply (Hnoren (m, info) Hin)).
  unfold labels_of in Hl. rewrite Hr in Hl. destruct Hl as [Hl|[]]. subst l.
  destruct (module_candidates_public _ _ _ Hc) as [Hch Hpub].
  assert (Honly : i_only info = [] \/ smem (e_name e) (i_only info) = true).
  { destruct (i_only info) eqn:E; [now left|right]. rewrite <- E.
    assert (Hne : i_only info <> []) by congruence.
    pose proof (module_candidates_only msc info e Hne Hc) as Hm. unfold remote_names in Hm. rewrite Hr in Hm. cbn in Hm.
    rewrite map_id in Hm. exact Hm. }
  clear Hc Hnoren. induction d as [|[m' info'] r IH]; [contradiction|].
  cbn [search_uses]. destruct Hin as [E|Hin].
  - inversion E; subst m' info'. rewrite Hi. destruct (str_eqb m (e_name e)); [discriminate|].
    rewrite Hr. cbn [sassoc]. rewrite Hs.
    destruct (i_only info) as [|o os] eqn:Eo.
    + destruct (check_scope msc (e_name e) true) eqn:Ec; [discriminate|]. exfalso. exact (check_scope_finds msc e Hch Hpub Ec).
    + destruct Honly as [Ho|Ho]; [discriminate|]. rewrite Ho.
      destruct (check_scope msc (e_name e) true) eqn:Ec; [discriminate|]. exfalso. exact (check_scope_finds msc e Hch Hpub Ec).
  - specialize (IH Hin).
    destruct (sassoc m' (p_tree p)) as [i'|]; [|exact IH].
    destruct (str_eqb m' (e_name e)); [discriminate|].
    destruct (i_only info') as [|o os].
    + destruct (scope_at p i') as [msc'|]; [|exact IH]. destruct (check_scope msc' _ true); [discriminate|exact IH].
    + destruct (smem (e_name e) (o :: os)); [|exact IH].
      destruct (scope_at p i') as [msc'|]; [|exact IH]. destruct (check_scope msc' _ true); [discriminate|exact IH].
Qed.

(* the converse, for rename-free dictionaries: what the USE search of find_in_scope resolves to an entity is offered *)
Lemma check_scope_some msc name e : check_scope msc name true = Some e ->
  In e (sp_children msc) /\ is_private msc e = false /\ e_name e = name.
Proof.
  unfold check_scope. intro H. apply find_some in H as [Hin H]. cbn in H.
  apply andb_true_iff in H as [H1 H2]. apply negb_true_iff in H1. apply str_eqb_eq in H2. auto.
Qed.

Theorem resolved_name_is_offered p d name mi e m :
  Forall (fun x => i_ren (snd x) = []) d ->
  search_uses p d name = Some (mi, Some e, ViaUse m) -> In (m, e, name) (use_candidates p d).
Proof.
  intros Hnoren. induction d as [|[m' info] r IH]; cbn [search_uses]; [discriminate|].
  inversion Hnoren as [|? ? Hr Hrest]; subst. cbn in Hr.
  assert (Htail : forall x, In x (use_candidates p r) -> In x (use_candidates p ((m', info) :: r))).
  { intros x Hx. unfold use_candidates. cbn [flat_map]. apply in_or_app. now right. }
  destruct (sassoc m' (p_tree p)) as [i|] eqn:Ei; [|intro H; apply Htail; now apply IH].
  destruct (str_eqb m' name); [discriminate|].
  assert (Hhere : forall msc, scope_at p i = Some msc -> forall e0, check_scope msc name true = Some e0 ->
                  (i_only info = [] \/ smem name (i_only info) = true) -> In (m', e0, name) (use_candidates p ((m', info) :: r))).
  { intros msc Hs e0 Hc Ho. apply check_scope_some in Hc as [Hin [Hp Hn]].
    unfold use_candidates. cbn [flat_map fst snd]. rewrite Ei, Hs. apply in_or_app. left.
    apply in_flat_map. exists e0. split; [|unfold labels_of; rewrite Hr; left; now rewrite Hn].
    unfold module_candidates.
    assert (Hpub : In e0 (filter (fun e1 => negb (is_private msc e1)) (sp_children msc))) by (apply filter_In; split; [exact Hin|now rewrite Hp]).
    destruct (i_only info) as [|o os] eqn:Eo; [exact Hpub|]. apply filter_In. split; [exact Hpub|].
    unfold remote_names. rewrite Hr, Eo. cbn [sassoc]. rewrite map_id. rewrite Hn. destruct Ho as [Ho|Ho]; [discriminate|exact Ho]. }
  rewrite Hr. cbn [sassoc].
  destruct (i_only info) as [|o os] eqn:Eo.
  - destruct (scope_at p i) as [msc|] eqn:Es; [|intro H; apply Htail; now apply IH].
    destruct (check_scope msc name true) as [e0|] eqn:Ec.
    + intro H. inversion H; subst. apply (Hhere msc eq_refl e Ec). now left.
    + intro H. apply Htail. now apply IH.
  - destruct (smem name (o :: os)) eqn:Em; [|intro H; apply Htail; now apply IH].
    destruct (scope_at p i) as [msc|] eqn:Es; [|intro H; apply Htail; now apply IH].
    destruct (check_scope msc name true) as [e0|] eqn:Ec.
    + intro H. inversion H; subst. apply (Hhere msc eq_refl e Ec). now right.
    + intro H. apply Htail. now apply IH.
Qed.
