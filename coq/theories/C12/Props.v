(* C12/Props.v -- property C12, the part carried by theorems, over the transcription of get_candidates and the resolution
   model of C05 (Shared/Resolve.v).  Statements only; proofs in C12/Proofs.v. *)
From Coq Require Import ZArith String.
From FV Require Import Base.Str Shared.Resolve C12.Model C12.Proofs.

(* exactly the candidates that begin with the typed prefix, case-insensitively: none dropped, none added *)
Theorem prefix_filter_exact p chain pre ls l : complete p chain pre = Some ls ->
  (In l ls <-> exists d, use_dict_chain p chain [] = Some d /\ In l (labels p chain d) /\ prefix_ci pre l = true).
Proof. exact (complete_prefix_exact p chain pre ls l). Qed.
Print Assumptions prefix_filter_exact.

(* PRIVATE is respected for every program: a candidate that comes through USE is a public child of its module *)
Theorem private_never_offered_via_use p d m e l : In (m, e, l) (use_candidates p d) ->
  exists i msc, sassoc m (p_tree p) = Some i /\ scope_at p i = Some msc /\ In e (sp_children msc) /\ is_private msc e = false.
Proof. exact (use_candidate_public p d m e l). Qed.
Print Assumptions private_never_offered_via_use.

(* ONLY lists are respected: under an ONLY list only the listed (remote) names are candidates *)
Theorem only_list_respected p d m e l : In (m, e, l) (use_candidates p d) ->
  exists info, In (m, info) d /\ (i_only info = [] \/ smem (e_name e) (remote_names info) = true).
Proof. exact (use_candidate_in_only p d m e l). Qed.
Print Assumptions only_list_respected.

(* what completion offers through a rename-free USE dictionary, go-to-definition can follow (ties C12 to C05's resolution) *)
Theorem offered_use_name_resolves p d m e l :
  Forall (fun mi => i_ren (snd mi) = []) d -> In (m, e, l) (use_candidates p d) -> search_uses p d l <> None.
Proof. exact (offered_name_resolves p d m e l). Qed.
Print Assumptions offered_use_name_resolves.

(* and conversely: what the USE search resolves to an entity of module m is offered, under that name, from m.
   Together: for rename-free USE dictionaries completion through USE and go-to-definition agree exactly. *)
Theorem resolved_use_name_is_offered p d name mi e m :
  Forall (fun x => i_ren (snd x) = []) d ->
  search_uses p d name = Some (mi, Some e, ViaUse m) -> In (m, e, name) (use_candidates p d).
Proof. exact (resolved_name_is_offered p d name mi e m). Qed.
Print Assumptions resolved_use_name_is_offered.

Example C12_nonvacuous :
  let m1 := SCP (s2l "m1") [EN (s2l "alpha") 0 1; EN (s2l "beta") (-1) 2; EN (s2l "gam") 0 3] 0 [] None in
  let pr := SCP (s2l "p") [EN (s2l "ax") 0 4] 0 [US (s2l "m1") [s2l "r_al"; s2l "gam"] [(s2l "r_al", s2l "alpha")]] None in
  let p := PR [m1; pr] [(s2l "m1", 0); (s2l "p", 1)] in
  complete p [pr] (s2l "") = Some [s2l "ax"; s2l "r_al"; s2l "gam"] /\
  complete p [pr] (s2l "r") = Some [s2l "r_al"] /\ complete p [pr] (s2l "A") = Some [s2l "ax"] /\ complete p [pr] (s2l "b") = Some [].
Proof. vm_compute. repeat split. Qed.
Print Assumptions C12_nonvacuous.

(* ONLY lists on two USE levels with nothing in common: the inner modules stay out of the dictionary (hence nothing of theirs is
   offered or resolved) -- the exit `if len(merged_use_list) == 0: continue` of get_use_tree, for any number of USE statements *)
From FV Require Import C12.Disjoint.
Theorem only_lists_with_nothing_in_common_import_nothing : forall p f sc d only path,
  only <> [] ->
  (forall u, In u (sp_uses sc) -> u_only u <> [] /\ forall v, In v only -> smem v (u_only u) = false) ->
  get_use_tree p (S f) sc d only [] path = Some d.
Proof. exact disjoint_only_imports_nothing. Qed.
Print Assumptions only_lists_with_nothing_in_common_import_nothing.
