(* C16/Chunks.v -- the whole of _receive over a chunked transport.
   A reader program is any logic written against the three operations the code uses
   (readline(), read(n), read(None)); `run_flat` executes it on one byte string, `run_chunks`
   on a list of chunks through the buffered-reader model of C16/Model.v.  Every such
   program is independent of the chunking; `_receive` (header loop included) is one. *)
From Coq Require Import List NArith Arith Lia.
From FV Require Import Base.Str C16.Model C16.Proofs.
Import ListNotations.
Local Open Scope N_scope.

Inductive prog (A : Type) :=
| Ret (a : A)
| Line (k : bytes -> prog A)
| Read (n : nat) (k : bytes -> prog A)
| ReadAll (k : bytes -> prog A).
Arguments Ret {A}. Arguments Line {A}. Arguments Read {A}. Arguments ReadAll {A}.

Fixpoint run_flat {A} (p : prog A) (s : bytes) : A * bytes :=
  match p with
  | Ret a => (a, s)
  | Line k => let (l, r) := readline s in run_flat (k l) r
  | Read n k => run_flat (k (firstn n s)) (skipn n s)
  | ReadAll k => run_flat (k s) []
  end.

Fixpoint run_chunks {A} (p : prog A) (cs : list bytes) : A * list bytes :=
  match p with
  | Ret a => (a, cs)
  | Line k => let (l, r) := chunks_readline cs in run_chunks (k l) r
  | Read n k => let (b, r) := chunks_read n cs in run_chunks (k b) r
  | ReadAll k => run_chunks (k (concat cs)) []
  end.

Lemma run_chunks_flat A (p : prog A) : forall cs,
  fst (run_chunks p cs) = fst (run_flat p (concat cs)) /\
  concat (snd (run_chunks p cs)) = snd (run_flat p (concat cs)).
Proof.
  induction p as [a|k IH|n k IH|k IH]; intro cs; cbn [run_chunks run_flat].
  - split; reflexivity.
  - destruct (chunks_readline_spec cs) as [H1 H2].
    destruct (chunks_readline cs) as [l r]. destruct (readline (concat cs)) as [l' r'].
    cbn [fst snd] in H1, H2. subst l' r'. apply IH.
  - destruct (chunks_read_spec cs n) as [H1 H2].
    destruct (chunks_read n cs) as [b r]. cbn [fst snd] in H1, H2. subst b. rewrite <- H2. apply IH.
  - exact (IH (concat cs) []).
Qed.

(* _receive as a reader program; the result drops the unread rest, which the run returns *)
Inductive pres := PMsg (body : bytes) | PEof | PErr | PHang.
Definition strip_rest (r : rres) : pres :=
  match r with RMsg b _ => PMsg b | REof => PEof | RErr => PErr | RHang => PHang end.

Definition body_prog (len : option N) : prog pres :=
  match len with
  | Some n => Read (N.to_nat n) (fun b => Ret (PMsg b))
  | None => ReadAll (fun b => Ret (PMsg b))
  end.

Fixpoint header_prog (fuel : nat) (len : option N) : prog pres :=
  match fuel with
  | O => Ret PHang
  | S f =>
    Line (fun line =>
      match line with
      | [] => match len with None => Ret PErr | Some _ => Ret PHang end
      | _ =>
        let len' := match len with Some n => inl (Some n)
                    | None => match read_header line with HErr => inr RErr | HNone => inl None | HLen n => inl (Some n) end
                    end in
        match len' with
        | inr e => Ret (strip_rest e)
        | inl l' => if str_eqb line CRLF then body_prog l' else header_prog f l'
        end
      end)
  end.

Definition receive_prog (fuel : nat) : prog pres :=
  Line (fun line =>
    match line with
    | [] => Ret PEof
    | _ =>
      match read_header line with
      | HErr => Ret PErr
      | h =>
        let len := match h with HLen n => Some n | _ => None end in
        if str_eqb line CRLF then body_prog len else header_prog fuel len
      end
    end).

(* what the model's `receive` does with the result of the header loop *)
Definition finish (r : option (option N * bytes) + rres) : rres :=
  match r with
  | inr e => e
  | inl None => RHang
  | inl (Some (Some n, rest')) => RMsg (firstn (N.to_nat n) rest') (skipn (N.to_nat n) rest')
  | inl (Some (None, rest')) => RMsg rest' []
  end.

Definition agrees (out : pres * bytes) (r : rres) : Prop :=
  fst out = strip_rest r /\ forall b rest, r = RMsg b rest -> snd out = rest.

Lemma body_prog_agrees l s : agrees (run_flat (body_prog l) s) (finish (inl (Some (l, s)))).
Proof.
  destruct l as [n|]; cbn [body_prog run_flat finish]; split; cbn [fst snd strip_rest]; try reflexivity;
    intros b rest E; injection E as _ E; exact E.
Qed.

Lemma header_prog_agrees : forall fuel len s,
  agrees (run_flat (header_prog fuel len) s) (finish (header_loop fuel len s)).
Proof.
  induction fuel as [|f IH]; intros len s; cbn [header_prog header_loop run_flat].
  - split; [reflexivity|discriminate].
  - destruct (readline s) as [line rest]. destruct line as [|c line].
    + destruct len; cbn [run_flat finish]; (split; [reflexivity|discriminate]).
    + destruct len as [n|].
      * destruct (str_eqb (c :: line) CRLF); [apply body_prog_agrees|apply IH].
      * destruct (read_header (c :: line)) as [| |n].
        -- cbn [run_flat finish strip_rest]. split; [reflexivity|discriminate].
        -- destruct (str_eqb (c :: line) CRLF); [apply body_prog_agrees|apply IH].
        -- destruct (str_eqb (c :: line) CRLF); [apply body_prog_agrees|apply IH].
Qed.

Lemma receive_prog_agrees s :
  agrees (run_flat (receive_prog (S (List.length (snd (readline s))))) s) (receive s).
Proof.
  unfold receive_prog, receive. cbn [run_flat].
  destruct (readline s) as [line rest]. cbn [snd]. destruct line as [|c line].
  - split; [reflexivity|discriminate].
  - destruct (read_header (c :: line)) as [| |n].
    + split; [reflexivity|discriminate].
    + destruct (str_eqb (c :: line) CRLF);
        [apply (body_prog_agrees None)|apply (header_prog_agrees (S (List.length rest)) None)].
    + destruct (str_eqb (c :: line) CRLF);
        [apply (body_prog_agrees (Some n))|apply (header_prog_agrees (S (List.length rest)) (Some n))].
Qed.

(* one message read through any chunking: same message (or same error), same unread bytes *)
Lemma receive_chunked cs :
  let f := S (List.length (snd (readline (concat cs)))) in
  fst (run_chunks (receive_prog f) cs) = strip_rest (receive (concat cs)) /\
  forall b rest, receive (concat cs) = RMsg b rest -> concat (snd (run_chunks (receive_prog f) cs)) = rest.
Proof.
  intro f. destruct (run_chunks_flat _ (receive_prog f) cs) as [H1 H2].
  destruct (receive_prog_agrees (concat cs)) as [A1 A2]. fold f in A1, A2.
  split; [now rewrite H1|]. intros b rest E. rewrite H2. now apply A2 with b.
Qed.

(* the read loop of the server over a chunked transport: messages until EOF or error *)
Fixpoint receive_all_chunks (fuel : nat) (cs : list bytes) : list bytes * pres :=
  match fuel with
  | O => ([], PHang)
  | S f =>
    match run_chunks (receive_prog (S (List.length (snd (readline (concat cs)))))) cs with
    | (PMsg b, cs') => let (l, e) := receive_all_chunks f cs' in (b :: l, e)
    | (e, _) => ([], e)
    end
  end.

Lemma receive_all_chunked : forall fuel cs,
  receive_all_chunks fuel cs =
  (fst (receive_all fuel (concat cs)), strip_rest (snd (receive_all fuel (concat cs)))).
Proof.
  induction fuel as [|f IH]; intro cs; cbn [receive_all_chunks receive_all]; [reflexivity|].
  destruct (receive_chunked cs) as [H1 H2].
  destruct (run_chunks (receive_prog (S (List.length (snd (readline (concat cs)))))) cs) as [r cs'].
  cbn [fst snd] in H1, H2. subst r.
  destruct (receive (concat cs)) as [b rest| | |]; cbn [strip_rest fst snd]; try reflexivity.
  rewrite (IH cs'), (H2 b rest eq_refl).
  destruct (receive_all f rest) as [l e]. reflexivity.
Qed.
