(* C16/Proofs.v *)
From Coq Require Import ZArith String.
From FV Require Import Base.Str C16.Model.
From Coq Require Import Lia ZifyBool.
Ltac Zify.zify_post_hook ::= Z.to_euclidean_division_equations.
Local Open Scope N_scope.

Definition ascii_str (s : str) : Prop := Forall (fun c => c < 128) s.

Lemma ascii_app a b : ascii_str a -> ascii_str b -> ascii_str (a ++ b).
Proof. intros; apply Forall_app; split; assumption. Qed.

Lemma ascii_cons c s : c < 128 -> ascii_str s -> ascii_str (c :: s).
Proof. intros; constructor; assumption. Qed.

(* ------------------------------------------------------------------ digits *)
Lemma digit_lt n : n < 10 -> 48 <= digit n <= 57.
Proof. unfold digit. lia. Qed.

Lemma dec_fuel_digits f : forall n, Forall (fun c => is_dig c = true) (dec_fuel f n).
Proof.
  induction f as [|f IH]; intro n; cbn [dec_fuel].
  - constructor; [|constructor]. unfold is_dig, digit. pose proof (N.mod_lt n 10). lia.
  - destruct (n <? 10) eqn:E.
    + constructor; [|constructor]. apply N.ltb_lt in E. unfold is_dig, digit. lia.
    + apply Forall_app; split; [apply IH|].
      constructor; [|constructor]. unfold is_dig, digit. pose proof (N.mod_lt n 10). lia.
Qed.

Lemma dec_fuel_nonempty f n : dec_fuel f n <> [].
Proof. destruct f; cbn [dec_fuel]; [discriminate|]. destruct (n <? 10); [discriminate|]. destruct (dec_fuel f (n / 10)); discriminate. Qed.

Lemma dec_digits n : Forall (fun c => is_dig c = true) (dec n).
Proof. apply dec_fuel_digits. Qed.

Lemma is_dig_ascii c : is_dig c = true -> c < 128.
Proof. unfold is_dig. lia. Qed.

Lemma dec_ascii n : ascii_str (dec n).
Proof. eapply Forall_impl; [|apply dec_digits]. intros c H. now apply is_dig_ascii. Qed.

Lemma parse_digits_snoc s : forall acc d, d < 10 ->
  parse_digits acc (s ++ [digit d]) = option_map (fun x => x * 10 + d) (parse_digits acc s).
Proof.
  induction s as [|c s IH]; intros acc d Hd; cbn [app parse_digits].
  - assert (E : is_dig (digit d) = true) by (unfold is_dig, digit; lia). rewrite E.
    cbn [option_map]. f_equal. unfold digit. lia.
  - destruct (is_dig c); [apply IH; assumption|reflexivity].
Qed.

Lemma parse_dec_fuel f : forall n, n < 10 ^ N.of_nat (S f) -> parse_digits 0 (dec_fuel f n) = Some n.
Proof.
  induction f as [|f IH]; intros n Hn; cbn [dec_fuel].
  - change (10 ^ N.of_nat 1) with 10 in Hn. rewrite N.mod_small by assumption.
    cbn [parse_digits]. assert (E : is_dig (digit n) = true) by (unfold is_dig, digit; lia). rewrite E.
    f_equal. unfold digit. lia.
  - destruct (n <? 10) eqn:E.
    + apply N.ltb_lt in E. cbn [parse_digits].
      assert (E2 : is_dig (digit n) = true) by (unfold is_dig, digit; lia). rewrite E2.
      f_equal. unfold digit. lia.
    + apply N.ltb_ge in E. rewrite parse_digits_snoc by (apply N.mod_lt; lia).
      rewrite IH.
      * cbn [option_map]. f_equal. pose proof (N.div_mod n 10). lia.
      * apply N.div_lt_upper_bound; [lia|].
        replace (N.of_nat (S (S f))) with (N.succ (N.of_nat (S f))) in Hn by lia.
        rewrite N.pow_succ_r' in Hn. exact Hn.
Qed.

Lemma parse_int_dec n : parse_int (dec n) = Some n.
Proof.
  unfold parse_int, dec.
  destruct (dec_fuel (N.to_nat (N.log2 n)) n) eqn:E; [now apply dec_fuel_nonempty in E|].
  rewrite <- E. apply parse_dec_fuel.
  destruct (N.eq_dec n 0) as [->|Hn]; [reflexivity|].
  assert (H1 : n < 2 ^ N.succ (N.log2 n)) by (apply N.log2_spec; lia).
  replace (N.of_nat (S (N.to_nat (N.log2 n)))) with (N.succ (N.log2 n)) by lia.
  eapply N.lt_le_trans; [exact H1|].
  apply N.pow_le_mono_l. lia.
Qed.

(* ------------------------------------------------------------------ dumps is ASCII *)
Lemma hexdig_ascii n : n < 16 -> hexdig n < 128.
Proof. unfold hexdig. destruct (n <? 10); lia. Qed.

Lemma u_escape_ascii c : c < 65536 -> ascii_str (u_escape c).
Proof.
  intro H. unfold u_escape.
  repeat (apply ascii_cons; [first [lia | apply hexdig_ascii;
    first [apply N.mod_lt; lia | apply N.div_lt_upper_bound; lia]]|]).
  constructor.
Qed.

Lemma esc_char_ascii c : ascii_str (esc_char c).
Proof.
  unfold esc_char.
  repeat match goal with |- context [if ?b then _ else _] => destruct b eqn:? end;
    try solve [repeat (apply ascii_cons; [lia|]); constructor].
  - apply u_escape_ascii. lia.
  - apply ascii_app; apply u_escape_ascii.
    + pose proof (N.mod_lt ((c - 65536) / 1024) 1024). lia.
    + pose proof (N.mod_lt (c - 65536) 1024). lia.
Qed.

Lemma quote_str_ascii s : ascii_str (quote_str s).
Proof.
  unfold quote_str. apply ascii_cons; [lia|]. apply ascii_app; [|apply ascii_cons; [lia|constructor]].
  induction s as [|c s IH]; cbn [flat_map]; [constructor|]. apply ascii_app; [apply esc_char_ascii|exact IH].
Qed.

Lemma dec_z_ascii z : ascii_str (dec_z z).
Proof.
  destruct z; cbn [dec_z]; [apply ascii_cons; [lia|constructor] | apply dec_ascii |
    apply ascii_cons; [lia|apply dec_ascii]].
Qed.

Lemma closed_ascii s : forallb (fun c => c <? 128) s = true -> ascii_str s.
Proof. intro H. apply Forall_forall. intros c Hc. rewrite forallb_forall in H. apply N.ltb_lt. now apply H. Qed.

Fixpoint dumps_ascii (v : json) : ascii_str (dumps v).
Proof.
  destruct v as [| b | z | s | l | l]; cbn [dumps].
  - apply closed_ascii. reflexivity.
  - destruct b; apply closed_ascii; reflexivity.
  - apply dec_z_ascii.
  - apply quote_str_ascii.
  - apply ascii_cons; [lia|]. apply ascii_app; [|apply ascii_cons; [lia|constructor]].
    induction l as [|x r IH]; [constructor|].
    apply ascii_app; [apply dumps_ascii|].
    destruct r; [constructor|]. apply ascii_cons; [lia|exact IH].
  - apply ascii_cons; [lia|]. apply ascii_app; [|apply ascii_cons; [lia|constructor]].
    induction l as [|[k x] r IH]; [constructor|].
    apply ascii_app; [apply quote_str_ascii|]. apply ascii_cons; [lia|].
    apply ascii_app; [apply dumps_ascii|].
    destruct r; [constructor|]. apply ascii_cons; [lia|exact IH].
Qed.

(* ------------------------------------------------------------------ UTF-8 of ASCII *)
Lemma utf8_ascii s : ascii_str s -> utf8 s = s.
Proof.
  induction 1 as [|c s Hc Hs IH]; [reflexivity|].
  unfold utf8 in *. cbn [flat_map]. rewrite IH. unfold utf8_char.
  apply N.ltb_lt in Hc. now rewrite Hc.
Qed.

Lemma utf8_app a b : utf8 (a ++ b) = utf8 a ++ utf8 b.
Proof. unfold utf8. apply flat_map_app. Qed.

Lemma send_text_ascii v : ascii_str (send_text v).
Proof.
  unfold send_text.
  repeat apply ascii_app; try apply dumps_ascii; try apply dec_ascii; apply closed_ascii; reflexivity.
Qed.

Lemma send_bytes v :
  send v = h_len ++ dec (N.of_nat (List.length (utf8 (dumps v)))) ++ CRLF ++ h_type ++ CRLF ++ CRLF ++ utf8 (dumps v).
Proof.
  unfold send. rewrite utf8_ascii by apply send_text_ascii.
  rewrite (utf8_ascii (dumps v)) by apply dumps_ascii. reflexivity.
Qed.

(* ------------------------------------------------------------------ the reader *)
Definition no_lf (s : bytes) : bool := forallb (fun c => negb (c =? 10)) s.

Lemma readline_app h r : no_lf h = true -> readline (h ++ 10 :: r) = (h ++ [10], r).
Proof.
  induction h as [|c h IH]; intro H; cbn [app readline].
  - reflexivity.
  - cbn [no_lf forallb] in H. apply andb_true_iff in H as [H1 H2]. apply negb_true_iff in H1.
    rewrite H1. fold (no_lf h) in H2. now rewrite IH.
Qed.

Lemma dec_no_lf n : no_lf (dec n) = true.
Proof.
  unfold no_lf. apply forallb_forall. intros c Hc.
  pose proof (dec_digits n) as H. rewrite Forall_forall in H. specialize (H c Hc).
  unfold is_dig in H. apply negb_true_iff. apply N.eqb_neq. lia.
Qed.

Lemma no_lf_app a b : no_lf a = true -> no_lf b = true -> no_lf (a ++ b) = true.
Proof. unfold no_lf. intros. rewrite forallb_app. now rewrite H, H0. Qed.

Lemma ends_crlf_app x : ends_crlf (x ++ [13; 10]) = true.
Proof. unfold ends_crlf. rewrite rev_app_distr. reflexivity. Qed.

Lemma strip_dec n : strip (dec n ++ [13; 10]) = dec n.
Proof.
  unfold strip.
  pose proof (dec_digits n) as Hd. unfold dec in *.
  destruct (dec_fuel (N.to_nat (N.log2 n)) n) as [|c s] eqn:E; [now apply dec_fuel_nonempty in E|].
  assert (Hc : is_space c = false).
  { inversion Hd as [|? ? H1 H2]; subst. unfold is_dig in H1. unfold is_space. lia. }
  cbn [app]. rewrite Hc.
  change (c :: s ++ [13; 10]) with ((c :: s) ++ [13; 10]). rewrite rev_app_distr.
  cbn [rev app]. change (is_space 10) with true. change (is_space 13) with true. cbv iota.
  assert (Hl : exists d t, rev s ++ [c] = d :: t /\ is_space d = false).
  { pose proof (Forall_rev Hd) as Hr. cbn [rev] in Hr.
    destruct (rev s ++ [c]) as [|d t] eqn:E2; [destruct (rev s); discriminate|].
    exists d, t. split; [reflexivity|]. inversion Hr as [|? ? H1 H2]; subst.
    unfold is_dig in H1. unfold is_space. lia. }
  destruct Hl as [d [t [E2 Hd2]]]. rewrite E2, Hd2. rewrite <- E2.
  rewrite rev_app_distr, rev_involutive. reflexivity.
Qed.

Lemma read_header_len n : read_header (h_len ++ dec n ++ CRLF) = HLen n.
Proof.
  unfold read_header. rewrite app_assoc. unfold CRLF at 1. rewrite ends_crlf_app. cbn [negb].
  rewrite <- app_assoc. rewrite prefixb_app.
  rewrite skipn_app, Nat.sub_diag, skipn_all. cbn [app skipn]. unfold CRLF.
  now rewrite strip_dec, parse_int_dec.
Qed.

Lemma h_len_line_not_crlf x : str_eqb (h_len ++ x) CRLF = false.
Proof. reflexivity. Qed.

Lemma h_type_line_not_crlf x : str_eqb (h_type ++ x) CRLF = false.
Proof. reflexivity. Qed.

Lemma readline_len n r :
  readline (h_len ++ dec n ++ CRLF ++ r) = (h_len ++ dec n ++ CRLF, r).
Proof.
  replace (h_len ++ dec n ++ CRLF ++ r) with ((h_len ++ dec n ++ [13]) ++ 10 :: r).
  2:{ unfold CRLF. rewrite <- !app_assoc. reflexivity. }
  rewrite readline_app.
  - unfold CRLF. rewrite <- !app_assoc. reflexivity.
  - apply no_lf_app; [reflexivity|]. apply no_lf_app; [apply dec_no_lf|reflexivity].
Qed.

Lemma readline_type r : readline (h_type ++ CRLF ++ r) = (h_type ++ CRLF, r).
Proof.
  replace (h_type ++ CRLF ++ r) with ((h_type ++ [13]) ++ 10 :: r).
  2:{ unfold CRLF. rewrite <- !app_assoc. reflexivity. }
  rewrite readline_app by reflexivity. unfold CRLF. rewrite <- !app_assoc. reflexivity.
Qed.

Lemma readline_crlf r : readline (CRLF ++ r) = (CRLF, r).
Proof. reflexivity. Qed.

Lemma read_header_type : read_header (h_type ++ CRLF) = HNone.
Proof. vm_compute. reflexivity. Qed.

Lemma take_body (body rest : bytes) :
  firstn (N.to_nat (N.of_nat (List.length body))) (body ++ rest) = body /\
  skipn (N.to_nat (N.of_nat (List.length body))) (body ++ rest) = rest.
Proof.
  rewrite Nat2N.id. split.
  - rewrite firstn_app, Nat.sub_diag, firstn_all. cbn [firstn]. apply app_nil_r.
  - rewrite skipn_app, Nat.sub_diag, skipn_all. reflexivity.
Qed.

Lemma fuel_two (a : bytes) x : (2 <= List.length a)%nat -> exists f, S (List.length (a ++ x)) = S (S (S f)).
Proof. intro H. rewrite app_length. exists (List.length a - 2 + List.length x)%nat. lia. Qed.

Ltac set_fuel Hf t := match goal with |- context [header_loop ?F _ _] => replace F with t by (symmetry; exact Hf) end.

Lemma receive_frame l body rest : receive (frame l body ++ rest) = RMsg body rest.
Proof.
  destruct (take_body body rest) as [T1 T2].
  destruct l; unfold frame, receive.
  - (* Content-Length first *)
    rewrite <- !app_assoc. rewrite readline_len.
    destruct (h_len ++ dec (N.of_nat (List.length body)) ++ CRLF) eqn:E; [discriminate|]. rewrite <- E. clear E.
    rewrite read_header_len, h_len_line_not_crlf.
    destruct (fuel_two h_type (CRLF ++ CRLF ++ body ++ rest)) as [f Hf]; [vm_compute; lia|].
    set_fuel Hf (S (S (S f))). cbn [header_loop]. rewrite readline_type.
    destruct (h_type ++ CRLF) eqn:E; [discriminate|]. rewrite <- E. clear E.
    rewrite h_type_line_not_crlf. rewrite readline_crlf. cbn [CRLF str_eqb N.eqb Pos.eqb andb].
    f_equal; [exact T1 | exact T2].
  - (* Content-Type first *)
    rewrite <- !app_assoc. rewrite readline_type.
    destruct (h_type ++ CRLF) eqn:E; [discriminate|]. rewrite <- E. clear E.
    rewrite read_header_type, h_type_line_not_crlf.
    destruct (fuel_two h_len (dec (N.of_nat (List.length body)) ++ CRLF ++ CRLF ++ body ++ rest)) as [f Hf];
      [vm_compute; lia|].
    set_fuel Hf (S (S (S f))). cbn [header_loop]. rewrite readline_len.
    destruct (h_len ++ dec (N.of_nat (List.length body)) ++ CRLF) eqn:E; [discriminate|]. rewrite <- E. clear E.
    rewrite read_header_len, h_len_line_not_crlf. rewrite readline_crlf.
    cbn [CRLF str_eqb N.eqb Pos.eqb andb].
    f_equal; [exact T1 | exact T2].
  - (* Content-Length only *)
    rewrite <- !app_assoc. rewrite readline_len.
    destruct (h_len ++ dec (N.of_nat (List.length body)) ++ CRLF) eqn:E; [discriminate|]. rewrite <- E. clear E.
    rewrite read_header_len, h_len_line_not_crlf.
    assert (Hf : exists f, S (List.length (CRLF ++ body ++ rest)) = S (S f)) by (eexists; reflexivity).
    destruct Hf as [f Hf]. set_fuel Hf (S (S f)). cbn [header_loop]. rewrite readline_crlf.
    cbn [CRLF str_eqb N.eqb Pos.eqb andb].
    f_equal; [exact T1 | exact T2].
Qed.

Lemma receive_nil : receive [] = REof.
Proof. reflexivity. Qed.

Lemma receive_all_frames frames : forall fuel,
  (List.length frames < fuel)%nat ->
  receive_all fuel (concat (map (fun lb => frame (fst lb) (snd lb)) frames)) = (map snd frames, REof).
Proof.
  induction frames as [|[l b] fr IH]; intros fuel H.
  - destruct fuel; [inversion H|]. reflexivity.
  - destruct fuel; [inversion H|]. cbn [map concat receive_all fst snd].
    rewrite receive_frame. rewrite IH by (cbn [List.length] in H; lia). reflexivity.
Qed.

(* ------------------------------------------------------------------ chunk independence *)
Lemma chunks_read_spec cs : forall n,
  fst (chunks_read n cs) = firstn n (concat cs) /\
  concat (snd (chunks_read n cs)) = skipn n (concat cs).
Proof.
  induction cs as [|c r IH]; intro n; cbn [chunks_read concat].
  - now rewrite firstn_nil, skipn_nil.
  - destruct (Nat.leb n (List.length c)) eqn:E.
    + apply Nat.leb_le in E. cbn [fst snd concat]. split.
      * rewrite firstn_app. replace (n - List.length c)%nat with 0%nat by lia. cbn [firstn]. now rewrite app_nil_r.
      * rewrite skipn_app. replace (n - List.length c)%nat with 0%nat by lia. reflexivity.
    + apply Nat.leb_gt in E. specialize (IH (n - List.length c)%nat).
      destruct (chunks_read (n - List.length c) r) as [b r'] eqn:Er. cbn [fst snd] in *.
      destruct IH as [I1 I2]. split.
      * rewrite firstn_app, firstn_all2 by lia. now rewrite I1.
      * rewrite skipn_app, skipn_all2 by lia. now rewrite I2.
Qed.

Lemma readline_no_lf_app a b : ends_lf (fst (readline a)) = false ->
  readline (a ++ b) = (a ++ fst (readline b), snd (readline b)) /\ fst (readline a) = a.
Proof.
  induction a as [|c a IH]; intro H; cbn [app readline] in *.
  - destruct (readline b); split; reflexivity.
  - destruct (c =? 10) eqn:E.
    + cbn [fst] in H. apply N.eqb_eq in E. subst. discriminate.
    + destruct (readline a) as [l r'] eqn:Ea. cbn [fst] in *.
      assert (Hl : ends_lf l = false).
      { unfold ends_lf in *. cbn [rev] in H. destruct (rev l) as [|x t]; [reflexivity|]. exact H. }
      destruct (IH Hl) as [I1 I2]. rewrite I1. cbn [fst snd]. split; [reflexivity|now rewrite I2].
Qed.

Lemma readline_lf_app a b : ends_lf (fst (readline a)) = true ->
  readline (a ++ b) = (fst (readline a), snd (readline a) ++ b).
Proof.
  induction a as [|c a IH]; intro H; cbn [app readline] in *.
  - discriminate.
  - destruct (c =? 10) eqn:E; [reflexivity|].
    destruct (readline a) as [l r'] eqn:Ea. cbn [fst snd] in *.
    assert (Hl : ends_lf l = true).
    { unfold ends_lf in *. cbn [rev] in H. destruct (rev l) as [|x t] eqn:El.
      - cbn [app] in H. apply N.eqb_neq in E. destruct c as [|p]; [discriminate|].
        destruct p as [p|p|]; try discriminate; destruct p as [p|p|]; try discriminate;
        destruct p as [p|p|]; try discriminate; destruct p; try discriminate. now elim E.
      - exact H. }
    rewrite (IH Hl). reflexivity.
Qed.

Lemma chunks_readline_spec cs :
  fst (chunks_readline cs) = fst (readline (concat cs)) /\
  concat (snd (chunks_readline cs)) = snd (readline (concat cs)).
Proof.
  induction cs as [|c r IH]; cbn [chunks_readline concat].
  - split; reflexivity.
  - destruct (readline c) as [l rest] eqn:Ec.
    destruct (ends_lf l) eqn:El.
    + rewrite readline_lf_app by (rewrite Ec; exact El). rewrite Ec. cbn [fst snd concat]. split; reflexivity.
    + destruct (readline_no_lf_app c (concat r)) as [R1 R2]; [rewrite Ec; exact El|].
      rewrite R1. rewrite Ec in R2. cbn [fst] in R2. subst l.
      destruct (chunks_readline r) as [l2 r'] eqn:Er. cbn [fst snd] in *.
      destruct IH as [I1 I2]. split; [now rewrite I1|exact I2].
Qed.

(* ------------------------------------------------------------------ percent encoding *)
Lemma hexval_HEXdig n : n < 16 -> hexval (HEXdig n) = Some n.
Proof.
  intro H.
  assert (F : forallb (fun n => match hexval (HEXdig n) with Some m => m =? n | None => false end)
                      (map N.of_nat (seq 0 16)) = true) by (vm_compute; reflexivity).
  rewrite forallb_forall in F. specialize (F n).
  assert (Hin : In n (map N.of_nat (seq 0 16))).
  { apply in_map_iff. exists (N.to_nat n). split; [lia|]. apply in_seq. lia. }
  specialize (F Hin). destruct (hexval (HEXdig n)) as [m|]; [|discriminate].
  apply N.eqb_eq in F. now subst.
Qed.

Lemma unquote_quote_byte b r : b < 256 ->
  unquote_bytes (quote_byte b ++ r) = b :: unquote_bytes r.
Proof.
  intro H. unfold quote_byte. destruct (uri_safe b) eqn:E.
  - cbn [app unquote_bytes]. destruct (b =? 37) eqn:E2; [|reflexivity].
    apply N.eqb_eq in E2. subst. discriminate.
  - cbn [app unquote_bytes]. change (37 =? 37) with true. cbv iota.
    rewrite !hexval_HEXdig by (first [apply N.mod_lt; lia | apply N.div_lt_upper_bound; lia]).
    f_equal. pose proof (N.div_mod b 16). lia.
Qed.

Lemma unquote_quote bs : Forall (fun b => b < 256) bs -> unquote_bytes (quote_bytes bs) = bs.
Proof.
  induction 1 as [|b bs Hb Hbs IH]; [reflexivity|].
  unfold quote_bytes in *. cbn [flat_map]. rewrite unquote_quote_byte by assumption. now rewrite IH.
Qed.

Lemma utf8_char_bytes c : c < 1114112 -> Forall (fun b => b < 256) (utf8_char c).
Proof.
  intro H. unfold utf8_char.
  repeat match goal with |- context [if ?b then _ else _] => destruct b eqn:? end;
    repeat (constructor; [first [lia |
      match goal with |- context [?x / ?d] => pose proof (N.div_lt_upper_bound x d) end;
      repeat match goal with |- context [?x mod ?d] => pose proof (N.mod_lt x d); generalize dependent (x mod d); intros end; lia]|]);
    try constructor.
Qed.
