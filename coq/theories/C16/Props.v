(* C16/Props.v -- property theorems only.  Statement of C16: every message written is
   preceded by a Content-Length equal to the byte length of its body; every correctly
   framed stream (header fields in either order, any chunking, back-to-back messages) is
   decoded into exactly the messages sent; file URIs round-trip.
   Model: C16/Model.v; tie: harness/props/c16.py. *)
From Coq Require Import ZArith String List Arith.
From FV Require Import Base.Str C16.Model C16.Proofs C16.Chunks.
Local Open Scope N_scope.

(* json.dumps(ensure_ascii) only produces ASCII, for every payload over the full code point range *)
Theorem dumps_is_ascii : forall v, Forall (fun c => c < 128) (dumps v).
Proof. exact dumps_ascii. Qed.
Print Assumptions dumps_is_ascii.

Theorem utf8_of_ascii_is_identity : forall s, Forall (fun c => c < 128) s -> utf8 s = s.
Proof. exact utf8_ascii. Qed.
Print Assumptions utf8_of_ascii_is_identity.

(* the bytes written by _send: the announced length is the number of body bytes *)
Theorem content_length_is_byte_length : forall v,
  send v = h_len ++ dec (N.of_nat (List.length (utf8 (dumps v)))) ++ CRLF ++ h_type ++ CRLF ++ CRLF ++ utf8 (dumps v).
Proof. exact send_bytes. Qed.
Print Assumptions content_length_is_byte_length.

(* reader: any sequence of frames, each with any of the three header layouts and an
   arbitrary body (any bytes), is split into exactly the bodies sent, then EOF *)
Theorem frame_roundtrip : forall (frames : list (layout * bytes)) fuel,
  (List.length frames < fuel)%nat ->
  receive_all fuel (concat (map (fun lb => frame (fst lb) (snd lb)) frames)) = (map snd frames, REof).
Proof. exact receive_all_frames. Qed.
Print Assumptions frame_roundtrip.

(* what the server writes is itself a frame the reader model accepts (LenFirst layout) *)
Theorem send_is_frame : forall v, send v = frame LenFirst (utf8 (dumps v)).
Proof. intro v. rewrite send_bytes. reflexivity. Qed.
Print Assumptions send_is_frame.

(* the buffered reader's read(n) and readline() do not depend on how the stream is chunked *)
Theorem chunk_independent_read : forall cs n,
  fst (chunks_read n cs) = firstn n (concat cs) /\
  concat (snd (chunks_read n cs)) = skipn n (concat cs).
Proof. exact chunks_read_spec. Qed.
Print Assumptions chunk_independent_read.

Theorem chunk_independent_readline : forall cs,
  fst (chunks_readline cs) = fst (readline (concat cs)) /\
  concat (snd (chunks_readline cs)) = snd (readline (concat cs)).
Proof. exact chunks_readline_spec. Qed.
Print Assumptions chunk_independent_readline.

(* the whole of _receive over a chunked transport (C16/Chunks.v): every reader program
   written against readline()/read(n)/read(None) is independent of the chunking ... *)
Theorem reader_program_chunk_independent : forall A (p : prog A) cs,
  fst (run_chunks p cs) = fst (run_flat p (concat cs)) /\
  concat (snd (run_chunks p cs)) = snd (run_flat p (concat cs)).
Proof. exact run_chunks_flat. Qed.
Print Assumptions reader_program_chunk_independent.

(* ... and _receive (first line, header loop, body read) is such a program: through any
   chunking it yields the message (or error) of the unchunked stream and leaves the same bytes *)
Theorem receive_chunk_independent : forall cs,
  let f := S (List.length (snd (readline (concat cs)))) in
  fst (run_chunks (receive_prog f) cs) = strip_rest (receive (concat cs)) /\
  forall b rest, receive (concat cs) = RMsg b rest -> concat (snd (run_chunks (receive_prog f) cs)) = rest.
Proof. exact receive_chunked. Qed.
Print Assumptions receive_chunk_independent.

(* the server's read loop over a chunked transport equals the read loop over the whole stream *)
Theorem receive_all_chunk_independent : forall fuel cs,
  receive_all_chunks fuel cs =
  (fst (receive_all fuel (concat cs)), strip_rest (snd (receive_all fuel (concat cs)))).
Proof. exact receive_all_chunked. Qed.
Print Assumptions receive_all_chunk_independent.

(* the reader half of C16 in one statement: any sequence of frames (any of the three header
   layouts, arbitrary body bytes, back to back), delivered in ANY chunks, is decoded into
   exactly the bodies sent, then EOF *)
Theorem chunked_frames_roundtrip : forall (frames : list (layout * bytes)) fuel cs,
  (List.length frames < fuel)%nat ->
  concat cs = concat (map (fun lb => frame (fst lb) (snd lb)) frames) ->
  receive_all_chunks fuel cs = (map snd frames, PEof).
Proof.
  intros frames fuel cs Hf E. rewrite receive_all_chunked, E, receive_all_frames by exact Hf. reflexivity.
Qed.
Print Assumptions chunked_frames_roundtrip.

(* non-vacuity: a Content-Type-first frame cut inside a header line, inside the two-byte
   character of the body and followed by the start of the next frame *)
Example C16_chunks_nonvacuous :
  let s := frame TypeFirst [34; 195; 169; 34] ++ frame LenOnly [91; 93] in
  let cs := [firstn 9 s; firstn 70 (skipn 9 s); skipn 79 s] in
  concat cs = s /\ nth 2 cs [] = [169; 34] ++ frame LenOnly [91; 93] /\
  fst (run_chunks (receive_prog (S (List.length s))) cs) = PMsg [34; 195; 169; 34] /\
  concat (snd (run_chunks (receive_prog (S (List.length s))) cs)) = frame LenOnly [91; 93].
Proof. vm_compute. repeat split; reflexivity. Qed.
Print Assumptions C16_chunks_nonvacuous.

(* percent-encoding: unquote (quote bytes) = bytes, hence for every path of code points *)
Theorem uri_roundtrip_bytes : forall bs, Forall (fun b => b < 256) bs -> unquote_bytes (quote_bytes bs) = bs.
Proof. exact unquote_quote. Qed.
Print Assumptions uri_roundtrip_bytes.

Theorem uri_roundtrip : forall p, Forall (fun c => c < 1114112) p -> unquote_bytes (uri_quote p) = utf8 p.
Proof.
  intros p H. apply unquote_quote. unfold utf8.
  induction H as [|c p Hc Hp IH]; [constructor|]. cbn [flat_map].
  apply Forall_app; split; [now apply utf8_char_bytes|exact IH].
Qed.
Print Assumptions uri_roundtrip.

(* path_from_uri inverts path_to_uri (up to Path.resolve, see DESIGN): for every path of
   Unicode code points the decoded bytes are the UTF-8 encoding of the path *)
Theorem path_uri_roundtrip : forall p, Forall (fun c => c < 1114112) p ->
  path_from_uri (path_to_uri p) = Some (utf8 p).
Proof.
  intros p H. unfold path_from_uri, path_to_uri. fold uri_scheme.
  rewrite prefixb_app, skipn_app, skipn_all, Nat.sub_diag. cbn [skipn app].
  f_equal. now apply uri_roundtrip.
Qed.
Print Assumptions path_uri_roundtrip.

(* decimal round trip used by the header parser *)
Theorem content_length_value_roundtrip : forall n, parse_int (dec n) = Some n.
Proof. exact parse_int_dec. Qed.
Print Assumptions content_length_value_roundtrip.

(* end to end: any sequence of messages written back to back by _send is decoded by the
   reader model into exactly the serialised payloads, which are pure ASCII (so the byte
   stream and the character stream coincide), then EOF *)
Theorem send_receive_roundtrip : forall (vs : list json) fuel,
  (List.length vs < fuel)%nat ->
  receive_all fuel (concat (map send vs)) = (map dumps vs, REof).
Proof.
  intros vs fuel Hf.
  assert (E : map send vs = map (fun lb => frame (fst lb) (snd lb)) (map (fun v => (LenFirst, dumps v)) vs)).
  { rewrite map_map. apply map_ext. intro v. cbn [fst snd].
    rewrite send_is_frame, (utf8_ascii _ (dumps_ascii v)). reflexivity. }
  rewrite E, receive_all_frames by (rewrite map_length; exact Hf).
  rewrite map_map. reflexivity.
Qed.
Print Assumptions send_receive_roundtrip.

(* both halves together: whatever payloads are written back to back by _send, and however the
   transport cuts the byte stream, the read loop yields exactly the serialised payloads, then EOF *)
Theorem send_chunked_receive_roundtrip : forall (vs : list json) fuel cs,
  (List.length vs < fuel)%nat ->
  concat cs = concat (map send vs) ->
  receive_all_chunks fuel cs = (map dumps vs, PEof).
Proof.
  intros vs fuel cs Hf E. rewrite receive_all_chunked, E, send_receive_roundtrip by exact Hf. reflexivity.
Qed.
Print Assumptions send_chunked_receive_roundtrip.

(* non-vacuity / sanity: a Content-Type-first frame with a non-ASCII body followed by a
   Content-Length-only frame; and the escape of U+1F600 *)
Example C16_nonvacuous :
  receive_all 3 (frame TypeFirst [123; 34; 195; 169; 34; 58; 49; 125] ++ frame LenOnly [91; 93])
  = ([[123; 34; 195; 169; 34; 58; 49; 125]; [91; 93]], REof)
  /\ dumps (JStr [128512]) = s2l """\ud83d\ude00"""
  /\ uri_quote [47; 97; 32; 233] = s2l "/a%20%C3%A9".
Proof. vm_compute. repeat split; reflexivity. Qed.
Print Assumptions C16_nonvacuous.
