(* C16/Model.v -- wire framing (fortls/jsonrpc.py): json.dumps(separators=(",",":")) with
   ensure_ascii, _send, _receive over an abstract buffered reader, percent-encoding of
   file URIs.  Definitions only. *)
From Coq Require Import ZArith String.
From FV Require Import Base.Str.
Local Open Scope N_scope.

Definition bytes := list N.

(* ------------------------------------------------------------------ decimal numbers *)
Definition digit (n : N) : char := 48 + n.

Fixpoint dec_fuel (f : nat) (n : N) : str :=
  match f with
  | O => [digit (n mod 10)]
  | S f' => if n <? 10 then [digit n] else dec_fuel f' (n / 10) ++ [digit (n mod 10)]
  end.
Definition dec (n : N) : str := dec_fuel (N.to_nat (N.log2 n)) n.

Definition dec_z (z : Z) : str :=
  match z with
  | Z0 => [48]
  | Zpos p => dec (Npos p)
  | Zneg p => 45 :: dec (Npos p)
  end.

(* int(value.strip()) restricted to plain decimal digits; None = ValueError *)
Definition is_dig (c : char) : bool := (48 <=? c) && (c <=? 57).
Fixpoint parse_digits (acc : N) (s : str) : option N :=
  match s with
  | [] => Some acc
  | c :: r => if is_dig c then parse_digits (acc * 10 + (c - 48)) r else None
  end.
Definition parse_int (s : str) : option N :=
  match s with [] => None | _ => parse_digits 0 s end.

(* ------------------------------------------------------------------ json.dumps *)
Inductive json :=
| JNull | JBool (b : bool) | JInt (z : Z) | JStr (s : str)
| JArr (l : list json) | JObj (l : list (str * json)).

Definition hexdig (n : N) : char := if n <? 10 then 48 + n else 87 + n.   (* lower case *)
Definition u_escape (c : N) : str :=   (* \uXXXX for c < 65536 *)
  [92; 117; hexdig (c / 4096); hexdig ((c / 256) mod 16); hexdig ((c / 16) mod 16); hexdig (c mod 16)].

Definition esc_char (c : char) : str :=
  if c =? 34 then [92; 34]
  else if c =? 92 then [92; 92]
  else if c =? 10 then [92; 110]
  else if c =? 13 then [92; 114]
  else if c =? 9 then [92; 116]
  else if c =? 8 then [92; 98]
  else if c =? 12 then [92; 102]
  else if (32 <=? c) && (c <=? 126) then [c]
  else if c <? 65536 then u_escape c
  else let v := c - 65536 in
       u_escape (55296 + (v / 1024) mod 1024) ++ u_escape (56320 + v mod 1024).

Definition quote_str (s : str) : str := 34 :: flat_map esc_char s ++ [34].

Fixpoint dumps (v : json) : str :=
  match v with
  | JNull => s2l "null"
  | JBool true => s2l "true"
  | JBool false => s2l "false"
  | JInt z => dec_z z
  | JStr s => quote_str s
  | JArr l =>
    91 :: (fix go (l : list json) : str :=
             match l with
             | [] => []
             | x :: r => dumps x ++ match r with [] => [] | _ => 44 :: go r end
             end) l ++ [93]
  | JObj l =>
    123 :: (fix go (l : list (str * json)) : str :=
              match l with
              | [] => []
              | (k, x) :: r => quote_str k ++ 58 :: dumps x ++ match r with [] => [] | _ => 44 :: go r end
              end) l ++ [125]
  end.

(* ------------------------------------------------------------------ UTF-8 *)
Definition utf8_char (c : N) : bytes :=
  if c <? 128 then [c]
  else if c <? 2048 then [192 + c / 64; 128 + c mod 64]
  else if c <? 65536 then [224 + c / 4096; 128 + (c / 64) mod 64; 128 + c mod 64]
  else [240 + c / 262144; 128 + (c / 4096) mod 64; 128 + (c / 64) mod 64; 128 + c mod 64].
Definition utf8 (s : str) : bytes := flat_map utf8_char s.

(* ------------------------------------------------------------------ _send *)
Definition CRLF : str := [13; 10].
Definition h_len : str := s2l "Content-Length: ".
Definition h_type : str := s2l "Content-Type: application/vscode-jsonrpc; charset=utf8".

(* the characters written by _send; content_length = len(bd) in characters *)
Definition send_text (v : json) : str :=
  let bd := dumps v in
  h_len ++ dec (N.of_nat (length bd)) ++ CRLF ++ h_type ++ CRLF ++ CRLF ++ bd.
(* conn.write(response) -> out.encode() *)
Definition send (v : json) : bytes := utf8 (send_text v).

(* ------------------------------------------------------------------ _receive *)
(* reader.readline(): up to and including the first LF, or what is left *)
Fixpoint readline (s : bytes) : bytes * bytes :=
  match s with
  | [] => ([], [])
  | c :: r => if c =? 10 then ([c], r) else let (l, r') := readline r in (c :: l, r')
  end.

Definition ends_crlf (l : bytes) : bool :=
  match rev l with 10 :: 13 :: _ => true | _ => false end.

Definition strip (s : str) : str :=
  let drop := fix drop (s : str) := match s with c :: r => if is_space c then drop r else s | [] => [] end in
  rev (drop (rev (drop s))).

Inductive hdr := HErr | HNone | HLen (n : N).
(* _read_header_content_length *)
Definition read_header (line : bytes) : hdr :=
  if negb (ends_crlf line) then HErr
  else if prefixb h_len line then
    match parse_int (strip (skipn (List.length h_len) line)) with Some n => HLen n | None => HErr end
  else HNone.

Inductive rres := RMsg (body rest : bytes) | REof | RErr | RHang.

(* while line != "\r\n": line = readline(); if length is None: length = header(line)
   (the loop after commit "fix: Content-Length ...": every header line is inspected) *)
Fixpoint header_loop (fuel : nat) (len : option N) (s : bytes) : option (option N * bytes) + rres :=
  match fuel with
  | O => inr RHang
  | S f =>
    let (line, rest) := readline s in
    match line with
    | [] => match len with None => inr RErr | Some _ => inr RHang end  (* EOF inside the headers *)
    | _ =>
      let len' := match len with Some n => inl (Some n)
                  | None => match read_header line with HErr => inr RErr | HNone => inl None | HLen n => inl (Some n) end
                  end in
      match len' with
      | inr e => inr e
      | inl l' => if str_eqb line CRLF then inl (Some (l', rest)) else header_loop f l' rest
      end
    end
  end.

Definition receive (s : bytes) : rres :=
  let (line, rest) := readline s in
  match line with
  | [] => REof
  | _ =>
    match read_header line with
    | HErr => RErr
    | h =>
      let len := match h with HLen n => Some n | _ => None end in
      let r := if str_eqb line CRLF then inl (Some (len, rest)) else header_loop (S (List.length rest)) len rest in
      match r with
      | inr e => e
      | inl None => RHang
      | inl (Some (Some n, rest')) => RMsg (firstn (N.to_nat n) rest') (skipn (N.to_nat n) rest')
      | inl (Some (None, rest')) => RMsg rest' []          (* read(None): everything *)
      end
    end
  end.

Fixpoint receive_all (fuel : nat) (s : bytes) : list bytes * rres :=
  match fuel with
  | O => ([], RHang)
  | S f =>
    match receive s with
    | RMsg b rest => let (l, e) := receive_all f rest in (b :: l, e)
    | e => ([], e)
    end
  end.

(* header layouts a client may use *)
Inductive layout := LenFirst | TypeFirst | LenOnly.
Definition frame (l : layout) (body : bytes) : bytes :=
  let n := dec (N.of_nat (List.length body)) in
  match l with
  | LenFirst => h_len ++ n ++ CRLF ++ h_type ++ CRLF ++ CRLF ++ body
  | TypeFirst => h_type ++ CRLF ++ h_len ++ n ++ CRLF ++ CRLF ++ body
  | LenOnly => h_len ++ n ++ CRLF ++ CRLF ++ body
  end.

(* ------------------------------------------------------------------ buffered reader over chunks *)
(* BufferedReader.read(n): loops over the underlying chunks until n bytes or EOF *)
Fixpoint chunks_read (n : nat) (cs : list bytes) : bytes * list bytes :=
  match cs with
  | [] => ([], [])
  | c :: r =>
    if Nat.leb n (List.length c) then (firstn n c, skipn n c :: r)
    else let (b, r') := chunks_read (n - List.length c) r in (c ++ b, r')
  end.

Definition ends_lf (l : bytes) : bool := match rev l with 10 :: _ => true | _ => false end.

Fixpoint chunks_readline (cs : list bytes) : bytes * list bytes :=
  match cs with
  | [] => ([], [])
  | c :: r =>
    let (l, rest) := readline c in
    if ends_lf l then (l, rest :: r)
    else let (l2, r') := chunks_readline r in (l ++ l2, r')
  end.

(* ------------------------------------------------------------------ file URIs *)
(* urllib.parse.quote(path): safe = "/" + unreserved, everything else %XX (upper case) *)
Definition uri_safe (b : N) : bool :=
  is_alpha b || is_digit b || (b =? 95) || (b =? 46) || (b =? 45) || (b =? 126) || (b =? 47).
Definition HEXdig (n : N) : char := if n <? 10 then 48 + n else 55 + n.
Definition quote_byte (b : N) : bytes := if uri_safe b then [b] else [37; HEXdig (b / 16); HEXdig (b mod 16)].
Definition quote_bytes (bs : bytes) : bytes := flat_map quote_byte bs.
Definition uri_quote (path : str) : bytes := quote_bytes (utf8 path).

Definition hexval (c : char) : option N :=
  if is_digit c then Some (c - 48)
  else if (65 <=? c) && (c <=? 70) then Some (c - 55)
  else if (97 <=? c) && (c <=? 102) then Some (c - 87)
  else None.

(* urllib.parse.unquote_to_bytes: %XX with two hex digits -> byte, any other % stays *)
Fixpoint unquote_bytes (s : bytes) : bytes :=
  match s with
  | [] => []
  | c :: r =>
    if c =? 37 then
      match r with
      | h :: l :: r' =>
        match hexval h, hexval l with
        | Some a, Some b => (a * 16 + b) :: unquote_bytes r'
        | _, _ => c :: unquote_bytes r
        end
      | _ => c :: unquote_bytes r
      end
    else c :: unquote_bytes r
  end.

Definition path_to_uri (path : str) : bytes := s2l "file://" ++ uri_quote path.

(* path_from_uri on a file:// URI, before Path.resolve (the identity on canonical absolute
   POSIX paths): strip the scheme, percent-decode; None stands for the os.path.abspath branch *)
Definition uri_scheme : bytes := s2l "file://".
Definition path_from_uri (uri : bytes) : option bytes :=
  if prefixb uri_scheme uri then Some (unquote_bytes (skipn (List.length uri_scheme) uri)) else None.
