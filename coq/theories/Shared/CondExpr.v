(* Shared/CondExpr.v -- preprocessor conditions as trees and their C semantics. *)
From Coq Require Import ZArith.
From FV Require Import Base.Str.

Inductive cmp := CEq | CNe | CLt | CLe | CGt | CGe.
Inductive cexp :=
| CDef (n : str)                 (* defined(n) / defined n *)
| CName (n : str)                (* a macro name used as a value *)
| CInt (z : Z)
| CNot (e : cexp)
| CAnd (a b : cexp)
| COr (a b : cexp)
| CCmp (o : cmp) (a b : cexp).

(* macro table: name -> integer value of its body (None: defined, body not an integer) *)
Definition table := list (str * option Z).
Fixpoint tget (t : table) (n : str) : option (option Z) :=
  match t with [] => None | (k, v) :: r => if str_eqb k n then Some v else tget r n end.
Definition tdefined (t : table) (n : str) : bool := match tget t n with Some _ => true | None => false end.
Fixpoint tremove (t : table) (n : str) : table :=
  match t with [] => [] | (k, v) :: r => if str_eqb k n then tremove r n else (k, v) :: tremove r n end.
(* the code ignores a #define of an already defined name *)
Definition tdefine (t : table) (n : str) (v : option Z) : table := if tdefined t n then t else t ++ [(n, v)].

Definition cmpz (o : cmp) (a b : Z) : bool :=
  match o with
  | CEq => Z.eqb a b | CNe => negb (Z.eqb a b) | CLt => Z.ltb a b | CLe => Z.leb a b | CGt => Z.ltb b a | CGe => Z.leb b a
  end.
Definition b2z (b : bool) : Z := if b then 1%Z else 0%Z.

(* C: an identifier that is not a macro is 0; truth is non-zero *)
Fixpoint eval_c (t : table) (e : cexp) : Z :=
  match e with
  | CDef n => b2z (tdefined t n)
  | CName n => match tget t n with Some (Some z) => z | _ => 0%Z end
  | CInt z => z
  | CNot a => b2z (Z.eqb (eval_c t a) 0)
  | CAnd a b => b2z (negb (Z.eqb (eval_c t a) 0) && negb (Z.eqb (eval_c t b) 0))
  | COr a b => b2z (negb (Z.eqb (eval_c t a) 0) || negb (Z.eqb (eval_c t b) 0))
  | CCmp o a b => b2z (cmpz o (eval_c t a) (eval_c t b))
  end.
Definition truth (t : table) (e : cexp) : bool := negb (Z.eqb (eval_c t e) 0).
