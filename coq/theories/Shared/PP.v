(* Shared/PP.v -- the conditional machine of preprocess_file (two stacks: pp_stack with the
   line where the current inactive region began or -1, pp_stack_group with "an earlier branch
   of this #if group was taken"), the macro table, and the reference C preprocessor
   (a stack of frames).  Definitions only. *)
From Coq Require Import ZArith.
From FV Require Import Base.Str Shared.CondExpr.

Inductive tok :=
| TIf (c : cexp) | TIfdef (n : str) | TIfndef (n : str)
| TElif (c : cexp) | TElse | TEndif
| TDefine (n : str) (v : option Z) | TUndef (n : str)
| TText                       (* anything else, incl. continuation lines of a multi-line #define *)
.

(* ---------------- the implementation *)
Record ist := IS {
  i_stack : list (option nat);      (* top first; None = -1 (branch active), Some s = inactive since line s *)
  i_groups : list (nat * bool);     (* top first; (len(pp_stack) when created, earlier branch taken) *)
  i_skips : list (nat * nat);       (* closed regions, most recent first *)
  i_defines : list nat;             (* lines holding an effective #define/#undef *)
  i_tab : table }.

Definition iinit (t : table) : ist := IS [] [] [] [] t.

Definition all_active (s : list (option nat)) : bool := forallb (fun x => match x with None => true | Some _ => false end) s.

Definition open_if (n : nat) (b : bool) (s : ist) : ist :=
  IS ((if b then None else Some n) :: i_stack s) (i_groups s) (i_skips s) (i_defines s) (i_tab s).

Definition group_here (s : ist) : option bool :=
  match i_groups s with (d, seen) :: _ => if d =? length (i_stack s) then Some seen else None | [] => None end.

Definition istep (n : nat) (s : ist) (t : tok) : ist :=
  match t with
  | TIf c => open_if n (truth (i_tab s) c) s
  | TIfdef x => open_if n (tdefined (i_tab s) x) s
  | TIfndef x => open_if n (negb (tdefined (i_tab s) x)) s
  | TElif c =>
    match i_stack s with
    | [] => s
    | top :: rest =>
      (* first elif of this group: remember whether the #if branch was taken *)
      let groups := match group_here s with
                    | Some _ => i_groups s
                    | None => (length (i_stack s), match top with None => true | Some _ => false end) :: i_groups s
                    end in
      match groups with
      | (d, true) :: _ =>
        IS (match top with None => Some n | Some x => Some x end :: rest) groups (i_skips s) (i_defines s) (i_tab s)
      | (d, false) :: grest =>
        if truth (i_tab s) c then
          IS (None :: rest) ((d, true) :: grest)
             (match top with Some st => (st, n) :: i_skips s | None => (0, n) :: i_skips s end)
             (i_defines s) (i_tab s)
        else IS (top :: rest) groups (i_skips s) (i_defines s) (i_tab s)
      | [] => s
      end
    end
  | TElse =>
    match i_stack s with
    | [] => s
    | None :: rest => IS (Some n :: rest) (i_groups s) (i_skips s) (i_defines s) (i_tab s)
    | Some st :: rest =>
      match group_here s with
      | Some true => s
      | _ => IS (None :: rest) (i_groups s) ((st, n) :: i_skips s) (i_defines s) (i_tab s)
      end
    end
  | TEndif =>
    match i_stack s with
    | [] => s
    | top :: rest =>
      let groups := match group_here s with Some _ => tl (i_groups s) | None => i_groups s end in
      match top with
      | None => IS rest groups (i_skips s) (i_defines s) (i_tab s)
      | Some st => IS rest groups ((st, n) :: i_skips s) (i_defines s) (i_tab s)
      end
    end
  | TDefine x v =>
    if all_active (i_stack s) then IS (i_stack s) (i_groups s) (i_skips s) (n :: i_defines s) (tdefine (i_tab s) x v) else s
  | TUndef x =>
    if all_active (i_stack s) then IS (i_stack s) (i_groups s) (i_skips s) (n :: i_defines s) (tremove (i_tab s) x) else s
  | TText => s
  end.

(* lines are numbered from 1 *)
Fixpoint irun (n : nat) (s : ist) (l : list tok) : ist :=
  match l with [] => s | t :: r => irun (S n) (istep n s t) r end.

Definition in_skips (k : list (nat * nat)) (n : nat) : bool :=
  existsb (fun r => (fst r <=? n) && (n <=? snd r)) k.

(* ---------------- the reference: a stack of frames *)
Record frame := FR { f_taken : bool; f_act : bool; f_else : bool }.
Record rst := RS { r_frames : list frame; r_tab : table;
  r_inactive : list nat;   (* text lines found inactive *)
  r_deflines : list nat    (* lines whose #define/#undef took effect *) }.
Definition rinit (t : table) : rst := RS [] t [] [].
Definition ractive (f : list frame) : bool := forallb f_act f.

Definition rstep (n : nat) (s : rst) (t : tok) : rst :=
  let push b := RS (FR b b false :: r_frames s) (r_tab s) (r_inactive s) (r_deflines s) in
  match t with
  | TIf c => push (truth (r_tab s) c)
  | TIfdef x => push (tdefined (r_tab s) x)
  | TIfndef x => push (negb (tdefined (r_tab s) x))
  | TElif c =>
    match r_frames s with
    | [] => s
    | f :: rest =>
      let b := truth (r_tab s) c in
      RS ((if f_taken f then FR true false false else FR b b false) :: rest) (r_tab s) (r_inactive s) (r_deflines s)
    end
  | TElse =>
    match r_frames s with
    | [] => s
    | f :: rest => RS (FR true (negb (f_taken f)) true :: rest) (r_tab s) (r_inactive s) (r_deflines s)
    end
  | TEndif => match r_frames s with [] => s | _ :: rest => RS rest (r_tab s) (r_inactive s) (r_deflines s) end
  | TDefine x v => if ractive (r_frames s) then RS (r_frames s) (tdefine (r_tab s) x v) (r_inactive s) (n :: r_deflines s) else s
  | TUndef x => if ractive (r_frames s) then RS (r_frames s) (tremove (r_tab s) x) (r_inactive s) (n :: r_deflines s) else s
  | TText => if ractive (r_frames s) then s else RS (r_frames s) (r_tab s) (n :: r_inactive s) (r_deflines s)
  end.

Fixpoint rrun (n : nat) (s : rst) (l : list tok) : rst :=
  match l with [] => s | t :: r => rrun (S n) (rstep n s t) r end.

(* well-formed conditional structure: every #elif/#else/#endif belongs to an open #if,
   nothing but #endif follows an #else, and every #if is closed.  State = stack of "else seen". *)
Fixpoint wf_run (st : list bool) (l : list tok) : bool :=
  match l with
  | [] => match st with [] => true | _ => false end
  | t :: r =>
    match t with
    | TIf _ | TIfdef _ | TIfndef _ => wf_run (false :: st) r
    | TElif _ => match st with false :: _ => wf_run st r | _ => false end
    | TElse => match st with false :: st' => wf_run (true :: st') r | _ => false end
    | TEndif => match st with _ :: st' => wf_run st' r | [] => false end
    | _ => wf_run st r
    end
  end.
Definition wf_toks (l : list tok) : bool := wf_run [] l.

Definition is_text (t : tok) : bool := match t with TText => true | _ => false end.
