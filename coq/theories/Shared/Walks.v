(* Shared/Walks.v -- the pointer walks of fortls over object graphs that may be cyclic:
   Submodule.get_ancestors, Type.get_overridden, FortranObj.is_linked_from (guard of every
   link_obj delegation), and the recursion skeleton of get_use_tree (curr_path guard).
   Each walk carries explicit fuel; None = the fuel ran out = Python's RecursionError /
   an endless loop.  Definitions only. *)
From FV Require Import Base.Str.

Fixpoint nmem (x : nat) (l : list nat) : bool :=
  match l with [] => false | y :: r => (x =? y) || nmem x r end.

(* follow `next` from x, never entering `stop` nor a node twice; returns the nodes visited.
     get_ancestors      : next = ancestor_obj, start = next self, stop = self
     is_linked_from     : next = link_obj,    start = candidate, stop = self (True iff the walk ends on a stop/visited node)
     get_overridden     : next = inherit_var, start = self, stop = none (visited list passed along) *)
Fixpoint walk (next : nat -> option nat) (stop : option nat) (fuel : nat) (visited : list nat) (x : option nat)
  : option (list nat * bool) :=
  match fuel with
  | O => None
  | S f =>
    match x with
    | None => Some (visited, false)
    | Some y =>
      if (match stop with Some s => y =? s | None => false end) || nmem y visited then Some (visited, true)
      else walk next stop f (visited ++ [y]) (next y)
    end
  end.

(* the pinned (unguarded) versions simply follow the pointer *)
Fixpoint walk_unguarded (next : nat -> option nat) (fuel : nat) (x : option nat) : option nat :=
  match fuel with
  | O => None
  | S f => match x with None => Some 0 | Some y => option_map S (walk_unguarded next f (next y)) end
  end.

(* recursion skeleton of get_use_tree: descend into every used module unless the scope is
   already on the current path; returns the number of scopes entered *)
Fixpoint use_tree (uses : nat -> list nat) (fuel : nat) (path : list nat) (x : nat) : option nat :=
  match fuel with
  | O => None
  | S f =>
    if nmem x path then Some 0
    else
      (fix go (l : list nat) (acc : nat) : option nat :=
         match l with
         | [] => Some (S acc)
         | y :: r => match use_tree uses f (path ++ [x]) y with
                     | Some k => go r (acc + k)
                     | None => None
                     end
         end) (uses x) 0
  end.
