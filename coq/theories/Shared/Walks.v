(* Shared/Walks.v -- the pointer walks of fortls over object graphs that may be cyclic:
   Submodule.get_ancestors, Type.get_overridden, FortranObj.is_linked_from (guard of every
   link_obj delegation), and the recursion skeleton of get_use_tree (curr_path guard).
   Each walk carries explicit fuel; None = the fuel ran out = Python's RecursionError /
   an endless loop.  Definitions only. *)
From FV Require Import Base.Str.

Fixpoint nmem (x : nat) (l : list nat) : bool :=
  match l with [] => false | y :: r => (x =? y) || nmem x r end.

(* follow `next` from x, never entering `stop` nor a node twice; returns the nodes visited.
     get_ancestors      : next = ancestor_obj, start = next self, stop = self
     is_linked_from     : next = link_obj,    start = candidate, stop = self (True iff the walk ends on a stop/visited node)
     get_overridden     : next = inherit_var, start = self, stop = none (visited list passed along) *)
Fixpoint walk (next : nat -> option nat) (stop : option nat) (fuel : nat) (visited : list nat) (x : option nat)
  : option (list nat * bool) :=
  match fuel with
  | O => None
  | S f =>
    match x with
    | None => Some (visited, false)
    | Some y =>
      if (match stop with Some s => y =? s | None => false end) || nmem y visited then Some (visited, true)
      else walk next stop f (visited ++ [y]) (next y)
    end
  end.

(* the pinned (unguarded) versions simply follow the pointer *)
Fixpoint walk_unguarded (next : nat -> option nat) (fuel : nat) (x : option nat) : option nat :=
  match fuel with
  | O => None
  | S f => match x with None => Some 0 | Some y => option_map S (walk_unguarded next f (next y)) end
  end.

(* recursion skeleton of get_use_tree: descend into every used module unless the scope is
   already on the current path; returns the number of scopes entered *)
Fixpoint use_tree (uses : nat -> list nat) (fuel : nat) (path : list nat) (x : nat) : option nat :=
  match fuel with
  | O => None
  | S f =>
    if nmem x path then Some 0
    else
      (fix go (l : list nat) (acc : nat) : option nat :=
         match l with
         | [] => Some (S acc)
         | y :: r => match use_tree uses f (path ++ [x]) y with
                     | Some k => go r (acc + k)
                     | None => None
                     end
         end) (uses x) 0
  end.

(* ---- INCLUDE resolution (FortranAST.resolve_includes, ast.encloses): the entities of an included
   file become children of the including scope, across files, possibly of several scopes.  The
   object graph has two link kinds: the parent pointer (one per object, overwritten by the last
   includer) and the children lists (appended to, never pruned by a later includer). *)
Record forest := { f_parent : nat -> option nat; f_children : nat -> list nat }.

(* `while above is not None and id(above) not in seen: if above is obj: return True; ...; above = above.parent` *)
Fixpoint climb (par : nat -> option nat) (fuel : nat) (seen : list nat) (obj : nat) (s : option nat) : option bool :=
  match fuel with
  | O => None
  | S f =>
    match s with
    | None => Some false
    | Some x => if nmem x seen then Some false else if x =? obj then Some true else climb par f (x :: seen) obj (par x)
    end
  end.

(* `below = [obj]; while below: inner = below.pop(); if inner is scope: return True; if id(inner) not in seen: ...extend(children)`;
   the head of `stack` is the top of the Python list *)
Fixpoint descend (ch : nat -> list nat) (fuel : nat) (seen : list nat) (stack : list nat) (target : nat) : option bool :=
  match fuel with
  | O => None
  | S f =>
    match stack with
    | [] => Some false
    | x :: rest =>
      if x =? target then Some true
      else if nmem x seen then descend ch f seen rest target
      else descend ch f (x :: seen) (rev (ch x) ++ rest) target
    end
  end.

Definition encloses (fo : forest) (fuel : nat) (obj scope : nat) : option bool :=
  match climb (f_parent fo) fuel [] obj (Some scope) with
  | Some true => Some true
  | Some false => descend (f_children fo) fuel [] [obj] scope
  | None => None
  end.

Definition set_parent (fo : forest) (child parent : nat) : forest :=
  {| f_parent := fun z => if z =? child then Some parent else f_parent fo z;
     f_children := fun z => if z =? parent then f_children fo z ++ [child] else f_children fo z |}.

Fixpoint remove_first (x : nat) (l : list nat) : list nat :=
  match l with [] => [] | y :: r => if x =? y then r else y :: remove_first x r end.

Inductive inc_op :=
| Attach (child parent : nat)      (* parent_scope.add_child(child) unless encloses(child, parent_scope) *)
| Detach (parent child : nat).     (* parent_scope.children.remove(obj): an INCLUDE statement resolved again *)

Definition inc_step (fuel : nat) (fo : forest) (o : inc_op) : forest :=
  match o with
  | Attach c p => match encloses fo fuel c p with Some false => set_parent fo c p | _ => fo end
  | Detach p c => {| f_parent := f_parent fo;
                     f_children := fun z => if z =? p then remove_first c (f_children fo z) else f_children fo z |}
  end.

(* the pinned tree attached without asking *)
Definition inc_step_unguarded (fo : forest) (o : inc_op) : forest :=
  match o with Attach c p => set_parent fo c p | Detach _ _ => fo end.

(* what update_fqsn does on a scope: recurse into every child (no guard) *)
Fixpoint fqsn_walk (ch : nat -> list nat) (fuel : nat) (x : nat) : option nat :=
  match fuel with
  | O => None
  | S f => (fix go (l : list nat) (acc : nat) : option nat :=
              match l with
              | [] => Some (S acc)
              | y :: r => match fqsn_walk ch f y with Some k => go r (acc + k) | None => None end
              end) (ch x) 0
  end.
