(* Shared/Resolve.v -- name resolution: get_use_tree and find_in_scope
   (fortls/parsers/internal/utilities.py) over an abstract program.
   Fragment: no anonymous interface blocks (#GEN_INT), INCLUDE, IMPORT, submodule ancestors.
   All names are lower case (the parser lower-cases what it stores).  Definitions only. *)
From Coq Require Import ZArith.
From FV Require Import Base.Str.

Record ent := EN { e_name : str; e_vis : Z; e_id : nat }.     (* vis: -1 private, 0 default, 1 public *)
Record use_st := US { u_mod : str; u_only : list str; u_ren : list (str * str) }.   (* rename: local -> remote *)
Record scp := SCP { sp_fqsn : str; sp_children : list ent; sp_defvis : Z; sp_uses : list use_st; sp_parent : option nat }.
Record prog := PR { p_scopes : list scp; p_tree : list (str * nat) }.    (* obj_tree: module name -> scope index *)

Fixpoint smem (x : str) (l : list str) : bool := match l with [] => false | y :: r => str_eqb x y || smem x r end.
Fixpoint sassoc {A} (x : str) (l : list (str * A)) : option A :=
  match l with [] => None | (k, v) :: r => if str_eqb k x then Some v else sassoc x r end.
Fixpoint sremove {A} (x : str) (l : list (str * A)) : list (str * A) :=
  match l with [] => [] | (k, v) :: r => if str_eqb k x then sremove x r else (k, v) :: sremove x r end.
(* dict[k] = v : keeps the position of an existing key *)
Fixpoint sset {A} (x : str) (v : A) (l : list (str * A)) : list (str * A) :=
  match l with
  | [] => [(x, v)]
  | (k, w) :: r => if str_eqb k x then (k, v) :: r else (k, w) :: sset x v r
  end.
Definition sadd (x : str) (l : list str) : list str := if smem x l then l else l ++ [x].

Definition is_private (sc : scp) (e : ent) : bool :=
  (e_vis e <? 0)%Z || ((sp_defvis sc <? 0)%Z && (e_vis e <=? 0)%Z).

(* check_scope *)
Definition check_scope (sc : scp) (name : str) (filter_public : bool) : option ent :=
  find (fun e => negb (filter_public && is_private sc e) && str_eqb (e_name e) name) (sp_children sc).

(* an entry of use_dict *)
Record uinfo := UI { i_only : list str; i_ren : list (str * str) }.
Definition udict := list (str * uinfo).

(* intersect_only *)
Fixpoint intersect_only (only : list str) (tmp_map : list (str * str)) (u : use_st) : list str * list (str * str) :=
  match only with
  | [] => ([], tmp_map)
  | v :: r =>
    let mapped := match sassoc v tmp_map with Some m => m | None => v end in
    if smem mapped (u_only u) then
      let tmp_map' := match sassoc mapped (u_ren u) with Some nr => sset v nr tmp_map | None => tmp_map end in
      let '(l, m) := intersect_only r tmp_map' u in (v :: l, m)
    else intersect_only r (sremove v tmp_map) u
  end.

(* the in-place update of an existing entry:  for only_name in merged: ... *)
Fixpoint merge_existing (merged : list str) (mren : list (str * str)) (only : list str) (ren : list (str * str))
  : list str * list (str * str) :=
  match merged with
  | [] => (only, ren)
  | n :: r =>
    if smem n only then merge_existing r mren only ren
    else
      let only' := only ++ [n] in
      match sassoc n mren with
      | None => merge_existing r mren only' ren
      | Some _ => merge_existing r mren only' (fold_left (fun acc kv => sset (fst kv) (snd kv) acc) mren ren)
                                                     (* use_dict_mod.rename_map = {**rename_map, **merged_rename} *)
      end
  end.

Definition scope_at (p : prog) (i : nat) : option scp := nth_error (p_scopes p) i.

(* get_use_tree; None = out of fuel *)
Fixpoint get_use_tree (p : prog) (fuel : nat) (sc : scp) (d : udict) (only : list str) (ren : list (str * str))
         (path : list str) : option udict :=
  match fuel with
  | O => None
  | S f =>
    if smem (sp_fqsn sc) path then Some d
    else
      let new_path := path ++ [sp_fqsn sc] in
      (fix go (us : list use_st) (d : udict) : option udict :=
         match us with
         | [] => Some d
         | u :: r =>
           match sassoc (u_mod u) (p_tree p) with
           | None => go r d                               (* module not in the workspace *)
           | Some mi =>
             let merged :=
               match only with
               | [] => Some (u_only u, u_ren u)
               | _ => match u_only u with
                      | [] => Some (only, ren)
                      | _ => let '(l, m) := intersect_only only ren u in
                             match l with [] => None | _ => Some (l, m) end
                      end
               end in
             match merged with
             | None => go r d
             | Some (ml, mr) =>
               let descend (d' : udict) :=
                 match scope_at p mi with
                 | Some msc => match get_use_tree p f msc d' ml mr new_path with
                               | Some d'' => go r d''
                               | None => None
                               end
                 | None => go r d'
                 end in
               match sassoc (u_mod u) d with
               | Some old =>
                 let old_len := length (i_only old) in
                 match old_len, ml with
                 | S _, _ :: _ =>
                   let '(o', r') := merge_existing ml mr (i_only old) (i_ren old) in
                   let d' := sset (u_mod u) (UI o' r') d in
                   if length o' =? old_len then go r d' else descend d'
                 | S _, [] =>
                   (* an ONLY list widened to the whole module: revisit what the module uses (fix ee7556d, `widened`) *)
                   descend (sset (u_mod u) (UI [] []) d)
                 | _, _ =>
                   (* use_dict[mod] = Use(mod): everything; already everything before, so no descent *)
                   go r (sset (u_mod u) (UI [] []) d)
                 end
               | None => descend (d ++ [(u_mod u, UI ml mr)])
               end
             end
           end
         end) (sp_uses sc) d
  end.

Inductive how := Local | ViaUse (m : str) | TheModule.
Record found := FD { f_ent : option ent; f_scope : nat; f_how : how }.

(* the USE phase of find_in_scope: walk the dictionary in insertion order *)
Fixpoint search_uses (p : prog) (d : udict) (name : str) : option (nat * option ent * how) :=
  match d with
  | [] => None
  | (m, info) :: r =>
    match sassoc m (p_tree p) with
    | None => search_uses p r name
    | Some mi =>
      if str_eqb m name then Some (mi, None, TheModule)
      else
        match i_only info with
        | _ :: _ => if smem name (i_only info) then
                      (let remote := match sassoc name (i_ren info) with Some x => x | None => name end in
                       match scope_at p mi with
                       | Some msc => match check_scope msc remote true with
                                     | Some e => Some (mi, Some e, ViaUse m)
                                     | None => search_uses p r name
                                     end
                       | None => search_uses p r name
                       end)
                    else search_uses p r name
        | [] =>
          let remote := match sassoc name (i_ren info) with Some x => x | None => name end in
          match scope_at p mi with
          | Some msc => match check_scope msc remote true with
                        | Some e => Some (mi, Some e, ViaUse m)
                        | None => search_uses p r name
                        end
          | None => search_uses p r name
          end
        end
    end
  end.

Inductive fres := FOut | FNone | FSome (r : nat * option ent * how).

(* find_in_scope: local, USE tree, host *)
Fixpoint find_in_scope (p : prog) (fuel : nat) (si : nat) (name : str) : fres :=
  match fuel with
  | O => FOut
  | S f =>
    match scope_at p si with
    | None => FNone
    | Some sc =>
      match check_scope sc name false with
      | Some e => FSome (si, Some e, Local)
      | None =>
        match get_use_tree p (S (length (p_tree p)) + 1) sc [] [] [] [] with
        | None => FOut
        | Some d =>
          match search_uses p d name with
          | Some r => FSome r
          | None => match sp_parent sc with
                    | Some par => find_in_scope p f par name
                    | None => FNone
                    end
          end
        end
      end
    end
  end.

(* get_definition's last resort: a name that is a key of obj_tree *)
Definition resolve (p : prog) (si : nat) (name : str) : fres :=
  match find_in_scope p (S (length (p_scopes p))) si name with
  | FNone => match sassoc name (p_tree p) with Some mi => FSome (mi, None, TheModule) | None => FNone end
  | r => r
  end.
