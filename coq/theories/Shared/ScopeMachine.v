(* Shared/ScopeMachine.v -- the open-construct machine of FortranAST
   (add_scope / end_scope / create_none_scope / close_file) as driven by FortranFile.parse.
   A token is the implementation's own classification of one logical line (recorded by the
   harness); every place where the code dereferences current_scope is explicit.
   Definitions only. *)
From FV Require Import Base.Str.

(* the END_x pattern pushed for a construct *)
Inductive ereg :=
| ERMod | ERSmod | ERProg | ERSub | ERFun | ERBlock | ERDo | ERWhere | ERAssoc | ERIf | ERSelect
| ERType | EREnum | ERInt | ERPro | ERNoneProg.

Definition ereg_eqb (a b : ereg) : bool :=
  match a, b with
  | ERMod, ERMod | ERSmod, ERSmod | ERProg, ERProg | ERSub, ERSub | ERFun, ERFun | ERBlock, ERBlock
  | ERDo, ERDo | ERWhere, ERWhere | ERAssoc, ERAssoc | ERIf, ERIf | ERSelect, ERSelect | ERType, ERType
  | EREnum, EREnum | ERInt, ERInt | ERPro, ERPro | ERNoneProg, ERNoneProg => true
  | _, _ => false
  end.

(* classes of scope objects; the number is get_type() *)
Inductive kind :=
| KMod | KSmod | KProg | KSub | KFun | KBlock | KDo | KWhere | KAssoc | KIf
| KSelect (sel_type : nat)     (* 1 SELECT CASE, 2 SELECT TYPE, 3 TYPE IS / CLASS IS, 4 CLASS DEFAULT ... *)
| KType | KEnum | KInt | KImpl (* MODULE PROCEDURE body in a submodule: a plain Scope *)
| KNone.                       (* the container for statements outside any program unit: Program "main" *)

Definition type_id (k : kind) : nat :=
  match k with
  | KMod | KProg | KNone => 1 | KSub => 2 | KFun => 3 | KType => 4 | KInt => 5 | KSmod => 8 | KBlock => 9
  | KSelect _ => 10 | KDo => 11 | KWhere => 12 | KIf => 13 | KAssoc => 14 | KEnum => 15 | KImpl => 0
  end.

(* Block and its subclasses *)
Definition req_named_end (k : kind) : bool :=
  match k with KBlock | KDo | KWhere | KAssoc | KIf | KSelect _ | KEnum => true | _ => false end.
Definition is_type_region (k : kind) : bool :=
  match k with KSelect 3 | KSelect 4 => true | _ => false end.
Definition is_select (k : kind) : bool := match k with KSelect _ => true | _ => false end.

(* how parse calls add_scope for each construct *)
Definition end_of (k : kind) : ereg :=
  match k with
  | KMod => ERMod | KSmod => ERSmod | KProg => ERProg | KSub => ERSub | KFun => ERFun | KBlock => ERBlock
  | KDo => ERDo | KWhere => ERWhere | KAssoc => ERAssoc | KIf => ERIf | KSelect _ => ERSelect | KType => ERType
  | KEnum => EREnum | KInt => ERInt | KImpl => ERPro | KNone => ERNoneProg
  end.
Definition req_container (k : kind) : bool :=
  match k with KMod | KSmod | KProg | KSub | KFun | KImpl | KNone => false | _ => true end.

Record scope := SC { s_kind : kind; s_name : str; s_sline : nat; s_eline : nat; s_parent : option nat }.

Record st := ST {
  cur : option nat;             (* current_scope: index into scopes *)
  sstack : list nat;            (* scope_stack, top first *)
  estack : list ereg;           (* end_stack, top first *)
  eregex : option ereg;         (* end_scope_regex *)
  none_s : option nat;          (* none_scope *)
  scopes : list scope;          (* every scope ever created, in creation order *)
  errs : list (option nat * nat);   (* end_errors: (None = -1 | Some line, line) *)
  labels : list str;            (* block_id_stack, top first *)
  globals : list nat            (* global_dict (in insertion order; later same-named entries overwrite) *)
}.

Definition init : st := ST None [] [] None None [] [] [] [].

Definition kind_at (s : st) (i : nat) : option kind := option_map s_kind (nth_error (scopes s) i).
Definition cur_kind (s : st) : option kind := match cur s with Some i => kind_at s i | None => None end.

Fixpoint set_nth {A} (l : list A) (i : nat) (f : A -> A) : list A :=
  match l, i with
  | [], _ => []
  | x :: r, O => f x :: r
  | x :: r, S j => x :: set_nth r j f
  end.

Definition set_eline (n : nat) (x : scope) : scope := SC (s_kind x) (s_name x) (s_sline x) n (s_parent x).

(* FortranAST.add_scope for a scope that is not the none scope; n = line number *)
Definition raw_add (s : st) (k : kind) (name : str) (n : nat) (e : ereg) (exportable : bool) : st :=
  let id := length (scopes s) in
  match cur s with
  | None =>
    (* no container needed (or the none scope itself): global if exportable *)
    ST (Some id) (sstack s) (match eregex s with Some r => r :: estack s | None => estack s end) (Some e) (none_s s)
       (scopes s ++ [SC k name n n None]) (errs s) (labels s) (if exportable then globals s ++ [id] else globals s)
  | Some c =>
    ST (Some id) (c :: sstack s) (match eregex s with Some r => r :: estack s | None => estack s end) (Some e) (none_s s)
       (scopes s ++ [SC k name n n (Some c)]) (errs s) (labels s) (globals s)
  end.

(* create_none_scope: Program(self, 1, "main") ; None = raise ValueError (already exists) *)
Definition create_none (s : st) : option st :=
  match none_s s with
  | Some _ => None
  | None =>
    let id := length (scopes s) in
    let s1 := raw_add s KNone [109; 97; 105; 110]%N 1 ERNoneProg false in
    Some (ST (cur s1) (sstack s1) (estack s1) (eregex s1) (Some id) (scopes s1) (errs s1) (labels s1) (globals s1))
  end.

Definition add_scope (s : st) (k : kind) (name : str) (n : nat) : option st :=
  match cur s with
  | None =>
    if req_container k then
      match create_none s with
      | Some s1 => Some (raw_add s1 k name n (end_of k) true)
      | None => None
      end
    else Some (raw_add s k name n (end_of k) true)
  | Some _ => Some (raw_add s k name n (end_of k) true)
  end.

(* FortranAST.end_scope(n, check) *)
Definition end_scope (s : st) (n : nat) (check : bool) : option st :=
  let at_none := match cur s, none_s s with
                 | None, _ => true
                 | Some c, Some m => c =? m
                 | Some _, None => false
                 end in
  if at_none && check then
    Some (ST (cur s) (sstack s) (estack s) (eregex s) (none_s s) (scopes s) (errs s ++ [(None, n)]) (labels s) (globals s))
  else
    match cur s with
    | None => None                         (* self.current_scope.end(...) on None *)
    | Some c =>
      let sc := set_nth (scopes s) c (set_eline n) in
      let '(cur', ss) := match sstack s with x :: r => (Some x, r) | [] => (None, []) end in
      let '(er', es) := match estack s with x :: r => (Some x, r) | [] => (None, []) end in
      Some (ST cur' ss es er' (none_s s) sc (errs s) (labels s) (globals s))
    end.

(* one logical line, as classified by the implementation *)
Inductive tok :=
| TEnd (bare : bool) (ends : list ereg)
      (* END_WORD matched; bare END, or END <word> where <word> is matched by exactly the END_x in [ends] *)
| TLabelled (lbl : str)        (* the line carries statement label lbl (and is not an END that closed) *)
| TOpen (k : kind) (name : str)    (* a construct opened through add_scope *)
| TDo (lbl : str) (name : str)     (* DO, with its termination label ([] if none) *)
| TSelect (sel_type : nat) (name : str)
| TGeneric (name : str)        (* GENERIC :: binding => ... : interface opened and closed at once *)
| TIntPro (name : str)         (* MODULE PROCEDURE name *)
| TVar (pro : bool)            (* a declaration with at least one entity (pro: PROCEDURE(...) ::) *)
| TUse                         (* USE / IMPORT *)
| TPlain                       (* everything that does not touch the scope stack *)
| TEndDo (bare : bool) (ends : list ereg) (lbl : str).
      (* an END (as TEnd) on a line that carries statement label lbl while a DO construct is the current scope:
         the terminal statement of `DO lbl`; the label is no longer pending *)

Inductive res := Ok (s : st) | Crash (why : nat).

Definition lift (o : option st) (why : nat) : res := match o with Some s => Ok s | None => Crash why end.

(* ensure a container exists (add_variable / add_use) *)
Definition ensure_scope (s : st) : res :=
  match cur s with
  | Some _ => Ok s
  | None => lift (create_none s) 1
  end.

Fixpoint close_labels (fuel : nat) (s : st) (n : nat) (lbl : str) : res :=
  match fuel with
  | O => Ok s
  | S f =>
    match labels s with
    | top :: rest =>
      if str_eqb lbl top then
        match end_scope s n true with
        | Some s1 => close_labels f (ST (cur s1) (sstack s1) (estack s1) (eregex s1) (none_s s1) (scopes s1) (errs s1) rest (globals s1)) n lbl
        | None => Crash 2
        end
      else Ok s
    | [] => Ok s
    end
  end.

Definition step_end (s : st) (n : nat) (bare : bool) (ends : list ereg) : res :=
    (* only reached when end_scope_regex is not None *)
    match eregex s with
    | None => Ok s
    | Some r =>
      match cur_kind s with
      | None => Crash 3                       (* current_scope.req_named_end() on None *)
      | Some k =>
        let s1 := if bare && req_named_end k && negb (match cur s, none_s s with Some c, Some m => c =? m | _, _ => false end)
                  then ST (cur s) (sstack s) (estack s) (eregex s) (none_s s) (scopes s)
                          (errs s ++ [(Some n, match cur s with Some c => match nth_error (scopes s) c with Some x => s_sline x | None => 0 end | None => 0 end)])
                          (labels s) (globals s)
                  else s in
        if bare || existsb (ereg_eqb r) ends then
          let r1 := if is_select k && is_type_region k then end_scope s1 n true else Some s1 in
          match r1 with
          | None => Crash 4
          | Some s2 => lift (end_scope s2 n true) 5
          end
        else Ok s                              (* END <word> that does not belong to the open construct: falls through *)
      end
    end.

Definition step (s : st) (n : nat) (t : tok) : res :=
  match t with
  | TEnd bare ends => step_end s n bare ends
  | TLabelled lbl =>
    match eregex s with
    | None => Ok s
    | Some _ =>
      match cur_kind s with
      | None => Crash 6
      | Some KDo => close_labels (S (length (labels s))) s n lbl
      | Some _ => Ok s
      end
    end
  | TOpen k name => lift (add_scope s k name n) 7
  | TDo lbl name =>
    let s1 := match lbl with [] => s | _ => ST (cur s) (sstack s) (estack s) (eregex s) (none_s s) (scopes s) (errs s) (lbl :: labels s) (globals s) end in
    lift (add_scope s1 KDo name n) 8
  | TSelect ty name =>
    (* Select.__init__ closes an open TYPE IS region first *)
    let r0 := match cur_kind s with
              | Some k => if is_select k && is_type_region k then end_scope s n true else Some s
              | None => Some s
              end in
    match r0 with
    | None => Crash 9
    | Some s1 => lift (add_scope s1 (KSelect ty) name n) 10
    end
  | TGeneric name =>
    match add_scope s KInt name n with
    | None => Crash 11
    | Some s1 => lift (end_scope s1 n true) 12
    end
  | TIntPro name =>
    match cur_kind s with
    | Some KSmod => lift (add_scope s KImpl name n) 13
    | _ => Ok s
    end
  | TVar pro =>
    (* after commit "fix: a PROCEDURE declaration outside any scope ..." the interface test is guarded *)
    match (if pro then match cur_kind s with Some KInt => true | _ => false end else false) with
    | true => Ok s
    | false => ensure_scope s
    end
  | TUse => ensure_scope s
  | TPlain => Ok s
  | TEndDo bare ends lbl =>
    (* the END closes the DO as TEnd does; when it did, the label on top of the pending list, if it is lbl, is dropped *)
    match step_end s n bare ends with
    | Ok s1 =>
      let closed := match eregex s with Some r => bare || existsb (ereg_eqb r) ends | None => false end in
      match cur_kind s, labels s1 with
      | Some KDo, top :: rest =>
        if closed && str_eqb lbl top
        then Ok (ST (cur s1) (sstack s1) (estack s1) (eregex s1) (none_s s1) (scopes s1) (errs s1) rest (globals s1))
        else Ok s1
      | _, _ => Ok s1
      end
    | c => c
    end
  end.

Fixpoint run (s : st) (n : nat) (l : list (nat * tok)) : res :=
  (* tokens carry their own line numbers (continuations make them skip) *)
  match l with
  | [] => Ok s
  | (ln, t) :: r => match step s ln t with Ok s1 => run s1 ln r | c => c end
  end.

(* close_file: close everything that is still open, then retire the none scope *)
Fixpoint close_all (fuel : nat) (s : st) (n : nat) : res :=
  match fuel with
  | O => Ok s
  | S f => match cur s with
           | None => Ok s
           | Some _ => match end_scope s n false with Some s1 => close_all f s1 n | None => Crash 14 end
           end
  end.

Definition close_file (s : st) (n : nat) : res :=
  match close_all (S (length (sstack s))) s n with
  | Ok s1 =>
    match none_s s1 with
    | Some m => Ok (ST (cur s1) (sstack s1) (estack s1) (eregex s1) (none_s s1) (set_nth (scopes s1) m (set_eline n)) (errs s1) (labels s1) (globals s1))
    | None => Ok s1
    end
  | c => c
  end.

Definition parse (l : list (nat * tok)) (last : nat) : res :=
  match run init 0 l with Ok s => close_file s last | c => c end.
