(* C17/Model.v -- which call sites are sinks through which text could be evaluated, run as
   a process, or written to disk; and what is allowed.  Definitions only. *)
From Coq Require Import Bool.
From FV Require Import C17.Syntax.
Local Open Scope string_scope.
Local Open Scope bool_scope.

Fixpoint smem (x : string) (l : list string) : bool :=
  match l with [] => false | y :: r => String.eqb x y || smem x r end.
Definition starts (p s : string) : bool := String.prefix p s.

(* code evaluation: never allowed anywhere in the package *)
Definition is_eval_sink (c : call) : bool :=
  match c_callee c with
  | Builtin n => smem n ["eval"; "exec"; "compile"; "__import__"; "breakpoint"; "input"]
  | Qual n =>
    smem n ["os.system"; "os.popen"; "builtins.eval"; "builtins.exec"; "builtins.compile"; "importlib.import_module";
            "importlib.reload"; "ast.literal_eval"]
    || starts "os.exec" n || starts "os.spawn" n || starts "os.posix_spawn" n || starts "pickle." n || starts "marshal." n
    || starts "runpy." n || starts "code." n || starts "codeop." n || starts "ctypes." n || starts "shelve." n || starts "dill." n
  | _ => false
  end.

(* processes and network: only the self-update, with a constant argv, behind disable_autoupdate *)
Definition is_proc_sink (c : call) : bool :=
  match c_callee c with
  | Qual n => starts "subprocess." n || starts "socket." n || starts "urllib.request." n || starts "http." n
              || starts "asyncio.create_subprocess" n || starts "os.fork" n
  | _ => false
  end.
Definition proc_allowed (c : call) : bool :=
  String.eqb (c_mod c) "langserver" && String.eqb (c_fun c) "_update_version_pypi" &&
  match c_callee c with
  | Qual "subprocess.run" => String.eqb (c_extra c) "constargv"
  | Qual "urllib.request.urlopen" | Qual "urllib.request.Request" => true
  | _ => false
  end.

(* writing: open() with a writing mode, file-system mutation, log files *)
Definition write_mode (m : string) : bool :=
  negb (String.eqb m "r" || String.eqb m "rb" || String.eqb m "rt").
Definition is_write_sink (c : call) : bool :=
  match c_callee c with
  | Builtin "open" => write_mode (c_extra c)
  | Qual "io.open" | Qual "os.open" | Qual "codecs.open" => true
  | Qual "logging.basicConfig" => String.eqb (c_extra c) "filename"
  | Qual n =>
    smem n ["os.remove"; "os.unlink"; "os.rename"; "os.replace"; "os.mkdir"; "os.makedirs"; "os.rmdir"; "os.removedirs";
            "os.truncate"; "os.symlink"; "os.link"; "os.chmod"; "os.chown"; "os.utime"; "logging.FileHandler"]
    || starts "shutil." n || starts "tempfile." n || starts "logging.handlers." n
  | Method n => smem n ["write_text"; "write_bytes"; "unlink"; "touch"; "mkdir"; "rmdir"; "symlink_to"; "hardlink_to"; "chmod";
                        "writelines"; "truncate"]
  | _ => false
  end.
(* the debug log, and two maintenance scripts that nothing in the package calls *)
Definition write_allowed (c : call) : bool :=
  (String.eqb (c_mod c) "langserver" && String.eqb (c_fun c) "_config_logger")
  || (String.eqb (c_mod c) "parsers.internal.intrinsics" && String.eqb (c_fun c) "update_m_intrinsics")
  || (String.eqb (c_mod c) "schema" && String.eqb (c_fun c) "create_schema").
Definition maintenance_only : list string := ["update_m_intrinsics"; "create_schema"].

Definition calls_name (n : string) (c : call) : bool :=
  match c_callee c with
  | Local x | LocalVar x | Method x | Builtin x => String.eqb x n
  | Qual x => String.eqb x n || (let l := String.length x in let k := String.length n in
                                 Nat.leb (S k) l && String.eqb (String.substring (l - k - 1) (S k) x) ("." ++ n))
  | Dynamic _ => false
  end.

(* unresolvable callees: exactly the known ones *)
Definition is_dynamic (c : call) : bool :=
  match c_callee c with Dynamic _ | LocalVar _ => true | _ => false end.
Definition dynamic_allowed (c : call) : bool :=
  match c_mod c, c_fun c, c_callee c with
  | "helper_functions", "ev", Dynamic s => smem s ["_PP_BIN_OPS[type(node.op)]"; "_PP_CMP_OPS[type(op)]"; "_PP_UNARY_OPS[type(node.op)]"]
  | "langserver", "handle", LocalVar "handler" => true
  | "jsonrpc", "deque_find_and_pop", LocalVar "f" => true
  | "jsonrpc", "read_message", LocalVar "want" => true
  | "parsers.internal.parser", "check_change_reparse", LocalVar "test" => true
  | "parsers.internal.parser", "get_fortran_definition", LocalVar "fortran_def" => true
  | "debug", _, _ => true
  | _, _, _ => false
  end.

(* the #if evaluator interprets these node classes and nothing else *)
Definition evaluator_allowed_kinds : list string :=
  ["Expression"; "Constant"; "BoolOp"; "And"; "Or"; "UnaryOp"; "BinOp"; "Compare"; "py:bool"; "py:int"].

Definition no_eval_sinks (l : list call) : bool := negb (existsb is_eval_sink l).
Definition proc_sinks_ok (guarded : bool) (l : list call) : bool :=
  guarded && forallb (fun c => negb (is_proc_sink c) || proc_allowed c) l.
Definition write_sinks_ok (l : list call) : bool :=
  forallb (fun c => negb (is_write_sink c) || write_allowed c) l
  && forallb (fun n => negb (existsb (calls_name n) l)) maintenance_only.
Definition dynamic_ok (l : list call) : bool := forallb (fun c => negb (is_dynamic c) || dynamic_allowed c) l.
Definition evaluator_closed (found : bool) (kinds others : list string) : bool :=
  found && forallb (fun k => smem k evaluator_allowed_kinds) kinds && match others with [] => true | _ => false end.
