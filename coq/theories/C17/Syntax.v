(* C17/Syntax.v -- the call inventory emitted by harness/translators/calls.py (Gen/GenCalls.v). *)
From Coq Require Export String List.
Export ListNotations.

Inductive callee :=
| Builtin (n : string)      (* a Python builtin *)
| Qual (n : string)         (* resolved through the module's imports: "os.path.join" *)
| Local (n : string)        (* a function/class defined in the same module *)
| Method (n : string)       (* obj.n(...) on a receiver that is not an imported module *)
| LocalVar (n : string)     (* a call through a local variable / parameter *)
| Dynamic (src : string).   (* a call whose callee is itself an expression *)

Record call := MkCall { c_mod : string; c_fun : string; c_callee : callee; c_extra : string }.
