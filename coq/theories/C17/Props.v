(* C17/Props.v -- property obligations.  Statement of C17: indexing and answering queries
   never evaluates, as code or as a shell command, text taken from source files, headers, macro
   definitions or the configuration file, and never creates, modifies or deletes a file other
   than the optional debug log.
   What a proof can carry here: obligations over the complete call inventory of the package,
   regenerated from the source on every run (Gen/GenCalls.v): no call path to an evaluating,
   process-spawning or writing sink exists except the listed ones.  The effects themselves are
   runtime behaviour; they are monitored (audit hook) by harness/props/c17.py. *)
From Coq Require Import Bool.
From FV Require Import C17.Syntax C17.Model Gen.GenCalls.
Local Open Scope string_scope.

(* lifting: a checked inventory contains no sink at all *)
Theorem no_eval_sinks_sound : forall l, no_eval_sinks l = true -> forall c, In c l -> is_eval_sink c = false.
Proof.
  intros l H c Hin. unfold no_eval_sinks in H. apply negb_true_iff in H.
  destruct (is_eval_sink c) eqn:E; [|reflexivity].
  assert (existsb is_eval_sink l = true) by (apply existsb_exists; eauto). congruence.
Qed.
Print Assumptions no_eval_sinks_sound.

Theorem write_sinks_sound : forall l, write_sinks_ok l = true ->
  forall c, In c l -> is_write_sink c = true -> write_allowed c = true.
Proof.
  intros l H c Hin Hw. unfold write_sinks_ok in H. apply andb_true_iff in H as [H _].
  rewrite forallb_forall in H. specialize (H c Hin). rewrite Hw in H. exact H.
Qed.
Print Assumptions write_sinks_sound.

(* ---- per-run obligations on the generated inventory *)
Theorem generated_no_eval_sinks : no_eval_sinks calls = true.
Proof. vm_compute. reflexivity. Qed.
Print Assumptions generated_no_eval_sinks.

Theorem generated_process_sinks_constant : proc_sinks_ok autoupdate_guarded calls = true.
Proof. vm_compute. reflexivity. Qed.
Print Assumptions generated_process_sinks_constant.

Theorem generated_write_sinks_are_log_only : write_sinks_ok calls = true.
Proof. vm_compute. reflexivity. Qed.
Print Assumptions generated_write_sinks_are_log_only.

Theorem generated_no_unknown_dynamic_calls : dynamic_ok calls = true.
Proof. vm_compute. reflexivity. Qed.
Print Assumptions generated_no_unknown_dynamic_calls.

Theorem generated_cond_evaluator_closed : evaluator_closed evaluator_found evaluator_kinds evaluator_other_calls = true.
Proof. vm_compute. reflexivity. Qed.
Print Assumptions generated_cond_evaluator_closed.

(* what the pinned tree had: eval() in the #if evaluator is a sink *)
Theorem C17_refuted_eval : is_eval_sink (MkCall "parsers.internal.parser" "eval_pp_if" (Builtin "eval") "") = true.
Proof. reflexivity. Qed.
Print Assumptions C17_refuted_eval.
