(* C14/Proofs.v *)
From Coq Require Import String ZifyBool.
From FV Require Import Base.Str Base.Regex Gen.GenRegex C14.Model.

(* ---- characterisation: fixed iff no examined line votes "free" ---- *)
Lemma detect_from_spec : forall ls ppc, detect_from ppc ls = forallb (fun l => negb (line_free l)) (code_lines ppc ls).
Proof.
  induction ls as [|l r IH]; intro ppc; cbn [detect_from code_lines forallb]; [reflexivity|].
  destruct (starts_hash l || ppc); [apply IH|].
  cbn [forallb]. destruct (line_free l); cbn; [reflexivity|apply IH].
Qed.

Lemma detect_fixed_spec ls : detect_fixed ls = true <-> forall l, In l (code_lines false ls) -> line_free l = false.
Proof.
  unfold detect_fixed. rewrite detect_from_spec, forallb_forall. split; intros H l Hl.
  - apply H in Hl. now apply negb_true_iff.
  - apply negb_true_iff. now apply H.
Qed.

Lemma not_fixed_witness ls l : In l (code_lines false ls) -> line_free l = true -> detect_fixed ls = false.
Proof.
  intros Hin Hl. destruct (detect_fixed ls) eqn:E; [|reflexivity].
  rewrite detect_fixed_spec in E. rewrite (E l Hin) in Hl. discriminate.
Qed.

(* without preprocessor lines every line is examined *)
Lemma code_lines_no_hash ls : forallb (fun l => negb (starts_hash l)) ls = true -> code_lines false ls = ls.
Proof.
  induction ls as [|l r IH]; cbn [forallb code_lines]; [reflexivity|]. intro H. apply andb_true_iff in H as [H1 H2].
  apply negb_true_iff in H1. rewrite H1. cbn. now rewrite IH.
Qed.

(* ---- the fixed-form printer is recognised ---- *)
Lemma leading_blanks_repeat n r : leading_blanks (repeat 32%N n ++ r) = n + leading_blanks r.
Proof. induction n as [|n IH]; cbn; [reflexivity|now rewrite IH]. Qed.

Lemma leading_blanks_le l : leading_blanks l <= length l.
Proof. induction l as [|c r IH]; cbn; [lia|]. destruct (N.eqb c 32); cbn; lia. Qed.

(* the character after the leading blanks is not a blank *)
Lemma nth_leading l : match nth_error l (leading_blanks l) with Some c => c <> 32%N | None => True end.
Proof.
  induction l as [|c r IH]; cbn; [exact I|]. destruct (N.eqb c 32) eqn:E; cbn; [exact IH|].
  apply N.eqb_neq in E. exact E.
Qed.

Lemma skipn_leading_head l : match skipn (leading_blanks l) l with c :: _ => c <> 32%N | [] => True end.
Proof.
  induction l as [|c r IH]; cbn; [exact I|]. destruct (N.eqb c 32) eqn:E; cbn; [exact IH|].
  apply N.eqb_neq in E. exact E.
Qed.

(* a label field: blanks then, if anything, a digit *)
Lemma label_first lab : forallb label_char lab = true ->
  forall rest, leading_blanks (lab ++ 32%N :: rest) >= length lab + 1 \/
               exists d, nth_error (lab ++ 32%N :: rest) (leading_blanks (lab ++ 32%N :: rest)) = Some d /\ is_digit d = true.
Proof.
  induction lab as [|c lab IH]; intros H rest.
  - left. cbn. lia.
  - cbn [forallb] in H. apply andb_true_iff in H as [Hc Hl]. unfold label_char in Hc.
    cbn [app leading_blanks]. destruct (N.eqb c 32) eqn:E.
    + destruct (IH Hl rest) as [Hge|[d [Hd Hdig]]]; [left; cbn [length]; lia|right; exists d; cbn [nth_error]; auto].
    + right. exists c. cbn. split; [reflexivity|]. apply orb_true_iff in Hc as [Hc|Hc]; [congruence|exact Hc].
Qed.

Lemma digit_not_alpha d : is_digit d = true -> is_alpha d = false.
Proof. unfold is_digit, is_alpha, is_lower, is_upper. lia. Qed.

Lemma prefix_ci_head k s : prefix_ci k s = true -> k <> [] -> exists x y s', k = x :: tl k /\ s = y :: s' /\ to_lower x = to_lower y.
Proof.
  destruct k as [|x k]; [congruence|]. destruct s as [|y s']; cbn; [discriminate|]. intros H _.
  apply andb_true_iff in H as [H _]. apply N.eqb_eq in H. exists x, y, s'. auto.
Qed.

(* a keyword starts with a letter *)
Lemma prefix_ci_alpha x k s : is_lower x = true -> prefix_ci (x :: k) s = true -> match s with c :: _ => is_alpha c = true | [] => False end.
Proof.
  intros Hx H. destruct s as [|c s']; [discriminate|]. cbn in H. apply andb_true_iff in H as [H _]. apply N.eqb_eq in H.
  unfold to_lower, is_alpha, is_upper, is_lower in *. destruct ((65 <=? c)%N && (c <=? 90)%N) eqn:Eu; destruct ((65 <=? x)%N && (x <=? 90)%N) eqn:Ex; lia.
Qed.

Lemma starts_kw_alpha s : starts_kw s = true -> match s with c :: _ => is_alpha c = true | [] => False end.
Proof.
  unfold starts_kw. intro H. apply orb_true_iff in H as [H|H].
  - apply existsb_exists in H as [k [Hk Hp]]. cbn in Hk.
    repeat (destruct Hk as [<-|Hk]; [eapply prefix_ci_alpha; [|exact Hp]; reflexivity|]). contradiction.
  - unfold kw_double in H. apply andb_true_iff in H as [H _]. eapply prefix_ci_alpha; [|exact H]. reflexivity.
Qed.

Lemma skipn_nth_head {A} (l : list A) n : match skipn n l with c :: _ => nth_error l n = Some c | [] => nth_error l n = None end.
Proof.
  revert l; induction n as [|n IH]; intros [|x l]; cbn; try reflexivity. apply IH.
Qed.

Lemma stmt_not_free_test lab body : length lab = 5 -> forallb label_char lab = true -> free_test (lab ++ 32%N :: body) = false.
Proof.
  intros Hlen Hl. unfold free_test. destruct (label_first lab Hl body) as [Hge|[d [Hd Hdig]]].
  - rewrite Hlen in Hge. destruct (leading_blanks (lab ++ 32%N :: body) <=? 4) eqn:E; [lia|]. now rewrite andb_false_r.
  - rewrite Hd, (digit_not_alpha d Hdig). now rewrite andb_false_r.
Qed.

Lemma stmt_not_var_early lab body : length lab = 5 -> forallb label_char lab = true -> var_early (lab ++ 32%N :: body) = false.
Proof.
  intros Hlen Hl. unfold var_early. destruct (label_first lab Hl body) as [Hge|[d [Hd Hdig]]].
  - rewrite Hlen in Hge. destruct (leading_blanks (lab ++ 32%N :: body) <? 6) eqn:E; [lia|reflexivity].
  - destruct (starts_kw _) eqn:Ek; [|now rewrite andb_false_r]. exfalso.
    apply starts_kw_alpha in Ek. pose proof (skipn_nth_head (lab ++ 32%N :: body) (leading_blanks (lab ++ 32%N :: body))) as Hs.
    destruct (skipn _ _) as [|c r]; [exact Ek|]. rewrite Hs in Hd. inversion Hd; subst. rewrite (digit_not_alpha d Hdig) in Ek. discriminate.
Qed.

(* the text before `!` of prefix ++ body, when the prefix has no `!` *)
Lemma before_bang_app p body : forallb (fun c => negb (N.eqb c 33)) p = true -> before_bang (p ++ body) = p ++ before_bang body.
Proof.
  induction p as [|c p IH]; cbn [forallb app before_bang]; [reflexivity|]. intro H. apply andb_true_iff in H as [H1 H2].
  apply negb_true_iff in H1. rewrite H1. now rewrite IH.
Qed.

Lemma last_nonspace_app a b acc : last_nonspace (a ++ b) acc = last_nonspace b (last_nonspace a acc).
Proof. revert acc; induction a as [|c a IH]; intro acc; cbn; [reflexivity|apply IH]. Qed.

Lemma last_nonspace_some l : forall acc c, last_nonspace l None = Some c -> last_nonspace l acc = Some c.
Proof.
  induction l as [|x l IH]; intros acc c; cbn; [discriminate|].
  destruct (py_space x).
  - apply IH.
  - intro H. exact H.
Qed.

Lemma amp_end_prefix p body : forallb (fun c => negb (N.eqb c 33)) p = true -> has_code body = true -> amp_end (p ++ body) = amp_end body.
Proof.
  intros Hp Hc. unfold amp_end, has_code in *. rewrite before_bang_app by exact Hp. rewrite last_nonspace_app.
  destruct (last_nonspace (before_bang body) None) as [c|] eqn:E; [|discriminate].
  now rewrite (last_nonspace_some _ (last_nonspace p None) c E).
Qed.

Lemma label_no_bang lab : forallb label_char lab = true -> forallb (fun c => negb (N.eqb c 33)) (lab ++ [32%N]) = true.
Proof.
  intro H. rewrite forallb_app. apply andb_true_iff. split; [|reflexivity].
  apply forallb_forall. intros c Hc. rewrite forallb_forall in H. specialize (H c Hc). unfold label_char, is_digit in H.
  apply negb_true_iff. lia.
Qed.

Lemma amp_end_stmt lab body : forallb label_char lab = true -> has_code body = true -> amp_end (lab ++ 32%N :: body) = amp_end body.
Proof.
  intros Hl Hc. etransitivity; [|apply (amp_end_prefix (lab ++ [32%N]) body (label_no_bang lab Hl) Hc)].
  f_equal. now rewrite <- app_assoc.
Qed.

Lemma amp_end_cont m body : N.eqb m 33 = false -> has_code body = true -> amp_end (repeat 32%N 5 ++ [m] ++ body) = amp_end body.
Proof.
  intros Hm Hc. etransitivity; [|apply (amp_end_prefix (repeat 32%N 5 ++ [m]) body); [cbn; now rewrite Hm|exact Hc]].
  reflexivity.
Qed.

Lemma wf_line_not_free f : wf_fline f = true -> line_free (render_fline f) = false.
Proof.
  destruct f as [m t|lab body|m body]; cbn [wf_fline render_fline]; intro H.
  - (* comment *)
    apply andb_true_iff in H as [Hm Hv]. apply negb_true_iff in Hv.
    unfold line_free. rewrite Hv. unfold fixed_comment. rewrite Hm. cbn [negb andb orb].
    unfold free_test. apply existsb_exists in Hm as [x [Hx He]]. apply N.eqb_eq in He. subst x.
    assert (m <> 32%N) by (cbn in Hx; intuition lia).
    cbn [leading_blanks]. destruct (N.eqb m 32) eqn:E; [apply N.eqb_eq in E; congruence|]. reflexivity.
  - (* statement *)
    apply andb_true_iff in H as [H Hcode]. apply andb_true_iff in H as [H Hamp]. apply andb_true_iff in H as [Hlen Hl].
    apply Nat.eqb_eq in Hlen. apply negb_true_iff in Hamp.
    unfold line_free. change (lab ++ [32%N] ++ body) with (lab ++ 32%N :: body).
    rewrite (stmt_not_free_test lab body Hlen Hl), (stmt_not_var_early lab body Hlen Hl). cbn [orb].
    apply andb_false_iff; right. etransitivity; [apply amp_end_stmt; assumption|exact Hamp].
  - (* continuation *)
    apply andb_true_iff in H as [H Hrest]. apply andb_true_iff in H as [Halpha Hsp]. apply negb_true_iff in Halpha, Hsp.
    assert (Hm32 : N.eqb m 32 = false) by (unfold py_space in Hsp; lia).
    unfold line_free.
    assert (Hlb : leading_blanks (repeat 32%N 5 ++ [m] ++ body) = 5) by (rewrite leading_blanks_repeat; cbn [app leading_blanks]; rewrite Hm32; reflexivity).
    assert (Hft : free_test (repeat 32%N 5 ++ [m] ++ body) = false) by (unfold free_test; rewrite Hlb; reflexivity).
    assert (Hve : var_early (repeat 32%N 5 ++ [m] ++ body) = false).
    { unfold var_early. rewrite Hlb. cbn [repeat app skipn Nat.ltb Nat.leb andb].
      destruct (starts_kw (m :: body)) eqn:Ek; [|reflexivity]. apply starts_kw_alpha in Ek. congruence. }
    rewrite Hft, Hve. cbn [orb].
    apply andb_false_iff; right.
    apply orb_true_iff in Hrest as [Hbang|Hrest].
    + (* `!` in column 6: nothing but blanks before it *)
      apply N.eqb_eq in Hbang. subst m. reflexivity.
    + apply andb_true_iff in Hrest as [Hamp Hcode]. apply negb_true_iff in Hamp.
      destruct (N.eqb m 33) eqn:Hbang; [apply N.eqb_eq in Hbang; subst m; reflexivity|].
      etransitivity; [apply amp_end_cont; assumption|exact Hamp].
Qed.

Lemma forallb_code_lines (P : str -> bool) : forall ls ppc, forallb P ls = true -> forallb P (code_lines ppc ls) = true.
Proof.
  induction ls as [|l r IH]; intros ppc H; cbn [code_lines]; [reflexivity|]. cbn [forallb] in H. apply andb_true_iff in H as [H1 H2].
  destruct (starts_hash l || ppc); [now apply IH|]. cbn [forallb]. rewrite H1. now apply IH.
Qed.

Theorem fixed_render_detected fls : forallb wf_fline fls = true -> detect_fixed (map render_fline fls) = true.
Proof.
  intro H. unfold detect_fixed. rewrite detect_from_spec. apply forallb_code_lines.
  rewrite forallb_forall. intros l Hl. apply in_map_iff in Hl as [f [<- Hf]].
  rewrite forallb_forall in H. apply negb_true_iff. apply wf_line_not_free. now apply H.
Qed.

(* ---- an indented free-form rendering is never taken for fixed form ---- *)
Lemma indented_free_test indent s c r : 1 <= indent <= 4 -> s = c :: r -> is_alpha c = true -> free_test (repeat 32%N indent ++ s) = true.
Proof.
  intros Hi -> Hc. unfold free_test. rewrite leading_blanks_repeat.
  assert (Hc32 : N.eqb c 32 = false) by (unfold is_alpha, is_lower, is_upper in Hc; lia).
  cbn [leading_blanks]. rewrite Hc32, Nat.add_0_r.
  rewrite nth_error_app2 by (rewrite repeat_length; lia). rewrite repeat_length, Nat.sub_diag. cbn [nth_error]. rewrite Hc.
  destruct (1 <=? indent) eqn:E1; destruct (indent <=? 4) eqn:E2; try lia.
Qed.

Theorem free_render_not_fixed indent stmts s c r :
  1 <= indent <= 4 ->
  In s stmts -> s = c :: r -> is_alpha c = true ->
  detect_fixed (render_free indent stmts) = false.
Proof.
  intros Hi Hin Hs Hc.
  apply (not_fixed_witness _ (repeat 32%N indent ++ s)).
  - rewrite code_lines_no_hash; [unfold render_free; apply in_map_iff; eauto|].
    unfold render_free. rewrite forallb_forall. intros l Hl. apply in_map_iff in Hl as [x [<- _]].
    destruct indent as [|n]; [lia|]. reflexivity.
  - unfold line_free. now rewrite (indented_free_test indent s c r Hi Hs Hc).
Qed.

(* a trailing & anywhere outside a column-1 comment, or an early declaration, also decides for free form *)
Theorem amp_or_decl_not_fixed ls l :
  In l (code_lines false ls) -> (var_early l = true \/ (fixed_comment l = false /\ amp_end l = true)) -> detect_fixed ls = false.
Proof.
  intros Hin H. apply (not_fixed_witness ls l Hin). unfold line_free. destruct H as [H|[H1 H2]]; rewrite ?H, ?H1, ?H2; cbn; rewrite ?orb_true_r; reflexivity.
Qed.

(* ---- the labelled-DO stack: a shared terminal label closes the whole nest ---- *)
Fixpoint pop_label (lbl : str) (stk : list str) : nat * list str :=
  match stk with
  | x :: r => if str_eqb lbl x then let '(n, r') := pop_label lbl r in (S n, r') else (0, stk)
  | [] => (0, [])
  end.

Lemma str_eqb_refl s : str_eqb s s = true.
Proof. now apply str_eqb_eq. Qed.

Theorem labelled_do_closes lbl n rest :
  match rest with x :: _ => str_eqb lbl x = false | [] => True end ->
  pop_label lbl (repeat lbl n ++ rest) = (n, rest).
Proof.
  intro H. induction n as [|n IH]; cbn [repeat app pop_label].
  - destruct rest as [|x r]; [reflexivity|]. cbn. now rewrite H.
  - rewrite str_eqb_refl, IH. reflexivity.
Qed.

(* ---- agreement of the direct tests with the compiled patterns (bounded, exhaustive) ---- *)
Definition alpha_small : list char := [32; 97; 90; 49; 33]%N.      (* blank a Z 1 ! *)
Definition kw_probe : list str :=
  flat_map (fun k => [k; map to_upper k; k ++ s2l "x"; removelast k])
    (kw_simple ++ map s2l ["double precision"; "doubleprecision"; "double  complex"; "double"; "double x"; "doublecomplex"]%string).
Definition var_inputs : list str :=
  flat_map (fun k => map (fun n => repeat 32%N n ++ k) [0; 1; 4; 5; 6; 7]) kw_probe.

Definition agree_free_test : bool := forallb (fun w => Bool.eqb (re_free_test w) (free_test w)) (words alpha_small 6).
Definition agree_fixed_comment : bool :=
  forallb (fun w => Bool.eqb (re_fixed_comment w) (fixed_comment w)) (words [32; 33; 42; 67; 99; 68; 100; 97; 49]%N 2).
Definition agree_var_early : bool :=
  forallb (fun w => Bool.eqb (re_var_early w) (var_early w)) (var_inputs ++ words [32; 116; 121; 112; 101]%N 5).
