(* C14/Gather.v -- fixed-form continuation gathering (the forward fixed branch of FortranFile.get_code_line followed by the join
   of the parse loop and its cut at the trailing comment) and its agreement with the free-form gathering of C13/Cont.v, for lines
   without character literals.  Model and proofs. *)
From Coq Require Import Lia.
From FV Require Import Base.Str C13.Cont C14.Model.

(* FIXED_CONT = ( {5}[\S]) : five blanks and a non-blank in column 6 *)
Definition fixed_cont (l : str) : bool :=
  match l with
  | a :: b :: c :: d :: e :: m :: _ => N.eqb a 32 && N.eqb b 32 && N.eqb c 32 && N.eqb d 32 && N.eqb e 32 && negb (py_space m)
  | _ => false
  end.

Definition blanks (n : nat) : str := repeat 32%N n.
Definition blank_line (l : str) : bool := forallb py_space l.
Definition no_charb (c : char) (s : str) : bool := forallb (fun x => negb (N.eqb x c)) s.

(* lines that may stand between continuation lines: blank, flagged in column 1, or a `!` comment after blanks *)
Definition ffiller (l : str) : bool := blank_line l || fixed_comment l || is_comment_line l.

(* FortranFile.strip_comment on a fixed-form line (no character literals, no OpenMP sentinel): a comment line vanishes,
   otherwise the line is cut at the first `!` that is not in column 6 *)
Definition cut_comment (l : str) : str :=
  if fixed_comment l then []
  else match find_char BANG l with
       | None => l
       | Some i =>
         if i =? 5 then match find_char BANG (skipn 6 l) with Some j => firstn (6 + j) l | None => l end
         else firstn i l
       end.

(* the line that is continued loses its trailing comment: curr_line / post_lines[last] = self.strip_comment(...) *)
Definition cut_head (acc : list str) : list str := match acc with p :: a => cut_comment p :: a | [] => [] end.

(* [acc]: the current line and the continuation lines gathered so far, reversed *)
Fixpoint fgather (rest : list str) (acc skipped : list str) : list str :=
  match rest with
  | [] => rev acc
  | l :: r =>
    if fixed_cont l then fgather r ((blanks 6 ++ skipn 6 l) :: skipped ++ cut_head acc) []
    else if ffiller l then fgather r acc ([] :: skipped)
    else rev acc
  end.

Definition joined_fixed (cur : str) (rest : list str) : str := concat (fgather rest [cur] []).

(* the parse loop cuts the joined line at its first `!` (the trailing comment of the last line) *)
Definition cut_bang (s : str) : str := match find_char BANG s with Some i => firstn i s | None => s end.
Definition statement_fixed (cur : str) (rest : list str) : str := cut_bang (joined_fixed cur rest).

(* a continued statement printed in fixed form: pieces with continuation marks, each possibly followed by a trailing comment,
   comment/blank lines after each piece *)
Record fpiece := FP { fmark : char; fbody : str; ftail : str; ffill : list str }.
Definition tail_ok (t : str) : bool := match t with [] => true | c :: _ => N.eqb c BANG end.
Definition ffiller_ok (l : str) : bool := ffiller l && negb (fixed_cont l).
Definition wf_fpiece (p : fpiece) : bool :=
  negb (py_space (fmark p)) && no_charb BANG (fbody p) && tail_ok (ftail p) && forallb ffiller_ok (ffill p).

Definition render_cont (p : fpiece) : list str := (blanks 5 ++ [fmark p] ++ fbody p ++ ftail p) :: ffill p.
Definition render_conts (ps : list fpiece) : list str := flat_map render_cont ps.

(* the text of the gathered continuation lines: every body behind six blanks, the last one with its trailing comment *)
Fixpoint ptext (ps : list fpiece) : str :=
  match ps with
  | [] => []
  | [p] => blanks 6 ++ fbody p ++ ftail p
  | p :: r => blanks 6 ++ fbody p ++ ptext r
  end.

(* ------------------------------------------------------------------ lemmas *)
Lemma no_charb_find c s : no_charb c s = true -> find_char c s = None.
Proof. apply find_char_none. Qed.

Lemma fixed_cont_line m b : py_space m = false -> fixed_cont (blanks 5 ++ m :: b) = true.
Proof. intro H. cbn. now rewrite H. Qed.

Lemma find_bang_blanks n : find_char BANG (blanks n) = None.
Proof. unfold blanks. apply find_char_repeat. discriminate. Qed.

Lemma squeeze_blanks n : squeeze (blanks n) = [].
Proof. exact (squeeze_repeat n). Qed.

Lemma blanks_length n : length (blanks n) = n.
Proof. apply repeat_length. Qed.

Lemma find_bang_pref n b : find_char BANG b = None -> find_char BANG (blanks n ++ b) = None.
Proof. intro H. unfold blanks. induction n as [|n IH]; [exact H|]. cbn. now rewrite IH. Qed.

Lemma firstn_pref (a r : str) k : k = length a -> firstn k (a ++ r) = a.
Proof. intros ->. apply firstn_app_exact. Qed.

Lemma find_char_here c t : find_char c (c :: t) = Some 0.
Proof. cbn. now rewrite N.eqb_refl. Qed.

(* a line made of blanks, a text without `!`, and a trailing comment (or nothing) *)
Lemma find_bang_tail a t : find_char BANG a = None -> tail_ok t = true ->
  find_char BANG (a ++ t) = match t with [] => None | _ => Some (length a) end.
Proof.
  intros Ha Ht. rewrite (find_char_app_none BANG a t Ha). destruct t as [|c t]; [reflexivity|].
  cbn in Ht. apply N.eqb_eq in Ht. subst. rewrite find_char_here. cbn. f_equal. lia.
Qed.

Lemma cut_bang_tail a t : find_char BANG a = None -> tail_ok t = true -> cut_bang (a ++ t) = a.
Proof.
  intros Ha Ht. unfold cut_bang. rewrite (find_bang_tail a t Ha Ht). destruct t as [|c t]; [now rewrite app_nil_r|apply firstn_app_exact].
Qed.

Lemma cut_bang_app a s : find_char BANG a = None -> cut_bang (a ++ s) = a ++ cut_bang s.
Proof.
  intro Ha. unfold cut_bang. rewrite (find_char_app_none BANG a s Ha). destruct (find_char BANG s) as [i|]; cbn; [|reflexivity].
  rewrite firstn_app. replace (length a + i - length a) with i by lia. rewrite firstn_all2 by lia. reflexivity.
Qed.

(* the cut of a gathered line (six blanks, body, trailing comment) and of a first line that starts in column 7 or later *)
Lemma cut_comment_line n b t : 6 <= n -> find_char BANG b = None -> tail_ok t = true ->
  cut_comment (blanks n ++ b ++ t) = blanks n ++ b.
Proof.
  intros Hn Hb Ht. unfold cut_comment.
  assert (Hfc : fixed_comment (blanks n ++ b ++ t) = false).
  { destruct n as [|n]; [lia|]. reflexivity. }
  assert (Ha : find_char BANG (blanks n ++ b) = None) by now apply find_bang_pref.
  assert (E : find_char BANG (blanks n ++ b ++ t) = match t with [] => None | _ => Some (length (blanks n ++ b)) end).
  { rewrite app_assoc. now apply find_bang_tail. }
  rewrite Hfc, E. destruct t as [|c t]; [now rewrite app_nil_r|].
  assert (E5 : (length (blanks n ++ b) =? 5) = false).
  { apply Nat.eqb_neq. rewrite app_length, blanks_length. lia. }
  rewrite E5.
  transitivity (firstn (length (blanks n ++ b)) ((blanks n ++ b) ++ c :: t)); [f_equal; apply app_assoc|apply firstn_app_exact].
Qed.

Lemma concat_rev_nils (n : nat) (l : list str) : concat (rev (repeat [] n ++ l)) = concat (rev l).
Proof. induction n as [|n IH]; [reflexivity|]. cbn [repeat app rev]. rewrite concat_app, IH. cbn. apply app_nil_r. Qed.

(* filler lines are remembered and dropped or kept as empty entries: they never contribute text *)
Lemma fgather_fillers fs : forallb ffiller_ok fs = true -> forall r acc skipped,
  fgather (fs ++ r) acc skipped = fgather r acc (repeat [] (length fs) ++ skipped).
Proof.
  induction fs as [|f fs IH]; intros Hf r acc skipped; [reflexivity|].
  cbn [forallb] in Hf. apply andb_true_iff in Hf as [H1 H2]. unfold ffiller_ok in H1. apply andb_true_iff in H1 as [Hb Hc]. apply negb_true_iff in Hc.
  cbn [app fgather]. rewrite Hc, Hb. rewrite (IH H2). f_equal. cbn [length repeat].
  clear. induction (length fs) as [|n IHn]; cbn; [reflexivity|]. now rewrite IHn.
Qed.

Definition all_nil (l : list str) : Prop := Forall (fun x => x = []) l.

Lemma concat_all_nil l : all_nil l -> concat l = [].
Proof. induction 1 as [|x r Hx _ IH]; [reflexivity|]. subst. exact IH. Qed.
Lemma all_nil_repeat n : all_nil (repeat [] n).
Proof. induction n; constructor; auto. Qed.

Definition stop_ok (stop : list str) : Prop :=
  match stop with l :: _ => fixed_cont l = false /\ ffiller l = false | [] => True end.

(* the gathered text: the lines gathered before (the last of them cut at its comment), then every continuation body in order *)
Theorem fgather_conts : forall ps stop acc skipped,
  Forall (fun p => wf_fpiece p = true) ps -> all_nil skipped -> stop_ok stop ->
  concat (fgather (render_conts ps ++ stop) acc skipped) =
  match ps with [] => concat (rev acc) | _ => concat (rev (cut_head acc)) ++ ptext ps end.
Proof.
  induction ps as [|p ps IH]; intros stop acc skipped Hwf Hsk Hstop.
  - cbn [render_conts flat_map app]. destruct stop as [|l r]; [reflexivity|]. destruct Hstop as [H1 H2]. cbn [fgather]. rewrite H1, H2. reflexivity.
  - inversion Hwf as [|? ? Hp Hrest]; subst. unfold wf_fpiece in Hp.
    apply andb_true_iff in Hp as [Hp Hf]. apply andb_true_iff in Hp as [Hp Ht]. apply andb_true_iff in Hp as [Hm Hb]. apply negb_true_iff in Hm.
    cbn [render_conts flat_map]. unfold render_cont at 1. cbn [app]. rewrite <- app_assoc.
    cbn [fgather]. rewrite (fixed_cont_line (fmark p) (fbody p ++ ftail p) Hm).
    rewrite (fgather_fillers (ffill p) Hf). fold (render_conts ps). rewrite app_nil_r.
    assert (Hs : concat (rev skipped) = []).
    { apply concat_all_nil. unfold all_nil in *. apply Forall_rev. exact Hsk. }
    rewrite (IH stop _ _ Hrest (all_nil_repeat _) Hstop).
    destruct ps as [|q ps'].
    + cbn [rev ptext]. rewrite !concat_app. cbn [concat]. rewrite rev_app_distr, concat_app, Hs. rewrite !app_nil_r. reflexivity.
    + cbn [cut_head].
      assert (Ec : cut_comment (blanks 6 ++ skipn 6 (blanks 5 ++ fmark p :: fbody p ++ ftail p)) = blanks 6 ++ fbody p).
      { exact (cut_comment_line 6 (fbody p) (ftail p) (le_n 6) (no_charb_find _ _ Hb) Ht). }
      match goal with |- context [cut_comment ?x] => replace (cut_comment x) with (blanks 6 ++ fbody p) by (symmetry; exact Ec) end.
      cbn [rev]. rewrite !concat_app. cbn [concat]. rewrite rev_app_distr, concat_app, Hs. rewrite !app_nil_r.
      change (ptext (p :: q :: ps')) with (blanks 6 ++ fbody p ++ ptext (q :: ps')).
      rewrite <- !app_assoc. reflexivity.
Qed.

(* the statement seen by the statement readers: the text before the comment of the first line, then the bodies *)
Lemma cut_bang_ptext ps : Forall (fun p => wf_fpiece p = true) ps ->
  squeeze (cut_bang (ptext ps)) = squeeze (concat (map fbody ps)).
Proof.
  induction ps as [|p ps IH]; intro Hwf; [reflexivity|].
  inversion Hwf as [|? ? Hp Hrest]; subst. unfold wf_fpiece in Hp.
  apply andb_true_iff in Hp as [Hp _]. apply andb_true_iff in Hp as [Hp Ht]. apply andb_true_iff in Hp as [_ Hb].
  assert (Ha : find_char BANG (blanks 6 ++ fbody p) = None).
  { apply find_bang_pref. now apply no_charb_find. }
  destruct ps as [|q ps'].
  - cbn [ptext map concat]. rewrite app_nil_r, app_assoc, (cut_bang_tail _ _ Ha Ht), squeeze_app, squeeze_blanks. reflexivity.
  - change (ptext (p :: q :: ps')) with (blanks 6 ++ fbody p ++ ptext (q :: ps')).
    rewrite app_assoc, (cut_bang_app _ _ Ha), !squeeze_app, squeeze_blanks, (IH Hrest). cbn [map concat]. rewrite !squeeze_app. reflexivity.
Qed.

Theorem fixed_continuation_layout_irrelevant lead0 b0 t0 ps stop :
  6 <= lead0 -> find_char BANG b0 = None -> tail_ok t0 = true ->
  Forall (fun p => wf_fpiece p = true) ps -> stop_ok stop ->
  squeeze (statement_fixed (blanks lead0 ++ b0 ++ t0) (render_conts ps ++ stop)) = squeeze (b0 ++ concat (map fbody ps)).
Proof.
  intros Hl Hb Ht Hwf Hstop. unfold statement_fixed, joined_fixed.
  rewrite (fgather_conts ps stop _ [] Hwf ltac:(constructor) Hstop).
  assert (Ha : find_char BANG (blanks lead0 ++ b0) = None).
  { now apply find_bang_pref. }
  destruct ps as [|p ps'].
  - cbn [rev app concat map]. rewrite !app_nil_r, app_assoc, (cut_bang_tail _ _ Ha Ht), squeeze_app, squeeze_blanks. reflexivity.
  - cbn [cut_head rev app concat]. rewrite app_nil_r, (cut_comment_line lead0 b0 t0 Hl Hb Ht).
    rewrite (cut_bang_app _ _ Ha), !squeeze_app, squeeze_blanks, (cut_bang_ptext _ Hwf). reflexivity.
Qed.

(* the same statement, cut at the same places, printed in free form (C13/Cont.v) and in fixed form: the statement readers get the
   same text up to blanks *)
Theorem fixed_free_same_statement p rest lead0 t0 fps stop :
  Forall (fun q => wf_piece q = true) (p :: rest) -> amp_lead p = false ->
  6 <= lead0 -> tail_ok t0 = true ->
  Forall (fun q => wf_fpiece q = true) fps -> map fbody fps = map body rest -> stop_ok stop ->
  match render (p :: rest) with
  | cur :: more => squeeze (joined cur more) = squeeze (statement_fixed (blanks lead0 ++ body p ++ t0) (render_conts fps ++ stop))
  | [] => False
  end.
Proof.
  intros Hwf Hamp Hl Ht Hf Hb Hstop. pose proof (continuation_layout_irrelevant p rest Hwf Hamp) as H.
  destruct (render (p :: rest)) as [|cur more]; [exact H|]. rewrite H.
  assert (Hbp : find_char BANG (body p) = None).
  { inversion Hwf as [|? ? Hp _]; subst. unfold wf_piece in Hp. apply andb_true_iff in Hp as [Hp _].
    destruct (clean_no_amp _ Hp) as (_ & H2 & _). exact H2. }
  rewrite (fixed_continuation_layout_irrelevant lead0 (body p) t0 fps stop Hl Hbp Ht Hf Hstop). rewrite Hb. reflexivity.
Qed.
