(* C14/Gather.v -- fixed-form continuation gathering (the forward fixed branch of FortranFile.get_code_line followed by the join
   of the parse loop) and its agreement with the free-form gathering of C13/Cont.v.  Model and proofs. *)
From Coq Require Import Lia.
From FV Require Import Base.Str C13.Cont C14.Model.

(* FIXED_CONT = ( {5}[\S]) : five blanks and a non-blank in column 6 *)
Definition fixed_cont (l : str) : bool :=
  match l with
  | a :: b :: c :: d :: e :: m :: _ => N.eqb a 32 && N.eqb b 32 && N.eqb c 32 && N.eqb d 32 && N.eqb e 32 && negb (py_space m)
  | _ => false
  end.

Definition blank_line (l : str) : bool := forallb py_space l.

Fixpoint fgather (rest : list str) (acc skipped : list str) : list str :=
  match rest with
  | [] => rev acc
  | l :: r =>
    if fixed_cont l then fgather r ((repeat 32%N 6 ++ skipn 6 l) :: skipped ++ acc) []
    else if blank_line l || fixed_comment l then fgather r acc ([] :: skipped)
    else rev acc
  end.

Definition joined_fixed (cur : str) (rest : list str) : str := concat (cur :: fgather rest [] []).

(* a continued statement printed in fixed form: pieces with continuation marks, comment/blank lines after each piece *)
Record fpiece := FP { fmark : char; fbody : str; ffill : list str }.
Definition ffiller_ok (l : str) : bool := (blank_line l || fixed_comment l) && negb (fixed_cont l).
Definition wf_fpiece (p : fpiece) : bool := negb (py_space (fmark p)) && forallb ffiller_ok (ffill p).

Definition render_cont (p : fpiece) : list str := (repeat 32%N 5 ++ [fmark p] ++ fbody p) :: ffill p.
Definition render_conts (ps : list fpiece) : list str := flat_map render_cont ps.

Lemma fixed_cont_line m b : py_space m = false -> fixed_cont (repeat 32%N 5 ++ m :: b) = true.
Proof. intro H. cbn. now rewrite H. Qed.

Lemma concat_rev_nils (n : nat) (l : list str) : concat (rev (repeat [] n ++ l)) = concat (rev l).
Proof. induction n as [|n IH]; [reflexivity|]. cbn [repeat app rev]. rewrite concat_app, IH. cbn. apply app_nil_r. Qed.

(* filler lines are remembered and dropped or kept as empty entries: they never contribute text *)
Lemma fgather_fillers fs : forallb ffiller_ok fs = true -> forall r acc skipped,
  fgather (fs ++ r) acc skipped = fgather r acc (repeat [] (length fs) ++ skipped).
Proof.
  induction fs as [|f fs IH]; intros Hf r acc skipped; [reflexivity|].
  cbn [forallb] in Hf. apply andb_true_iff in Hf as [H1 H2]. unfold ffiller_ok in H1. apply andb_true_iff in H1 as [Hb Hc]. apply negb_true_iff in Hc.
  cbn [app fgather]. rewrite Hc, Hb. rewrite (IH H2). f_equal. cbn [length repeat].
  clear. induction (length fs) as [|n IHn]; cbn; [reflexivity|]. now rewrite IHn.
Qed.

Definition all_nil (l : list str) : Prop := Forall (fun x => x = []) l.

Lemma concat_all_nil l : all_nil l -> concat l = [].
Proof. induction 1 as [|x r Hx _ IH]; [reflexivity|]. subst. exact IH. Qed.

Lemma all_nil_app a b : all_nil a -> all_nil b -> all_nil (a ++ b).
Proof. intros. now apply Forall_app. Qed.
Lemma all_nil_repeat n : all_nil (repeat [] n).
Proof. induction n; constructor; auto. Qed.

(* the gathered text: every continuation body, in order, each behind six blanks *)
Theorem fgather_conts : forall ps stop acc skipped,
  Forall (fun p => wf_fpiece p = true) ps -> all_nil skipped ->
  (match stop with l :: _ => fixed_cont l = false /\ blank_line l = false /\ fixed_comment l = false | [] => True end) ->
  squeeze (concat (fgather (render_conts ps ++ stop) acc skipped)) = squeeze (concat (rev acc)) ++ squeeze (concat (map fbody ps)).
Proof.
  induction ps as [|p ps IH]; intros stop acc skipped Hwf Hsk Hstop.
  - cbn [render_conts flat_map app map concat]. rewrite app_nil_r.
    destruct stop as [|l r]; [reflexivity|]. destruct Hstop as [H1 [H2 H3]]. cbn [fgather]. rewrite H1, H2, H3. reflexivity.
  - inversion Hwf as [|? ? Hp Hrest]; subst. unfold wf_fpiece in Hp. apply andb_true_iff in Hp as [Hm Hf]. apply negb_true_iff in Hm.
    cbn [render_conts flat_map]. unfold render_cont at 1. cbn [app]. rewrite <- app_assoc.
    cbn [fgather]. rewrite (fixed_cont_line (fmark p) (fbody p) Hm).
    rewrite (fgather_fillers (ffill p) Hf). fold (render_conts ps).
    rewrite IH; [|exact Hrest|rewrite app_nil_r; apply all_nil_repeat|exact Hstop].
    cbn [rev]. rewrite !concat_app. cbn [concat]. rewrite app_nil_r.
    assert (Hs : concat (rev skipped) = []).
    { apply concat_all_nil. unfold all_nil in *. apply Forall_rev. exact Hsk. }
    rewrite rev_app_distr, concat_app, Hs. cbn [app].
    replace (skipn 6 (repeat 32%N 5 ++ fmark p :: fbody p)) with (fbody p) by reflexivity.
    rewrite !squeeze_app. cbn [map concat]. rewrite squeeze_app.
    replace (squeeze (repeat 32%N 6)) with (@nil char) by reflexivity. cbn [app]. rewrite <- !app_assoc. reflexivity.
Qed.

Theorem fixed_continuation_layout_irrelevant lead0 b0 ps stop :
  Forall (fun p => wf_fpiece p = true) ps ->
  (match stop with l :: _ => fixed_cont l = false /\ blank_line l = false /\ fixed_comment l = false | [] => True end) ->
  squeeze (joined_fixed (repeat 32%N lead0 ++ b0) (render_conts ps ++ stop)) = squeeze (b0 ++ concat (map fbody ps)).
Proof.
  intros Hwf Hstop. unfold joined_fixed. cbn [concat]. rewrite squeeze_app.
  rewrite (fgather_conts ps stop [] [] Hwf ltac:(constructor) Hstop). cbn [rev concat squeeze filter app].
  rewrite !squeeze_app, squeeze_repeat. reflexivity.
Qed.

(* the same statement, cut at the same places, printed in free form (C13/Cont.v) and in fixed form: the statement readers get the
   same text up to blanks *)
Theorem fixed_free_same_statement p rest lead0 fps stop :
  Forall (fun q => wf_piece q = true) (p :: rest) -> amp_lead p = false ->
  Forall (fun q => wf_fpiece q = true) fps -> map fbody fps = map body rest ->
  (match stop with l :: _ => fixed_cont l = false /\ blank_line l = false /\ fixed_comment l = false | [] => True end) ->
  match render (p :: rest) with
  | cur :: more => squeeze (joined cur more) = squeeze (joined_fixed (repeat 32%N lead0 ++ body p) (render_conts fps ++ stop))
  | [] => False
  end.
Proof.
  intros Hwf Hamp Hf Hb Hstop. pose proof (continuation_layout_irrelevant p rest Hwf Hamp) as H.
  destruct (render (p :: rest)) as [|cur more]; [exact H|]. rewrite H.
  rewrite (fixed_continuation_layout_irrelevant lead0 (body p) fps stop Hf Hstop). rewrite Hb. reflexivity.
Qed.
