(* C14/Props.v -- property C14: source-form detection. Statements only; proofs in C14/Proofs.v. *)
From Coq Require Import String.
From FV Require Import Base.Str Base.Regex Gen.GenRegex Shared.ScopeMachine C13.Cont C14.Model C14.Proofs C14.Gather.

(* fixed form is decided iff no examined (non-preprocessor) line votes for free form *)
Theorem detect_fixed_characterisation ls :
  detect_fixed ls = true <-> forall l, In l (code_lines false ls) -> line_free l = false.
Proof. exact (detect_fixed_spec ls). Qed.
Print Assumptions detect_fixed_characterisation.

(* every program printed in fixed form -- comment lines flagged in column 1 by C c * ! d D, labels in
   columns 1-5, continuation mark in column 6, statements from column 7 -- is classified as fixed,
   whatever the statements are, as long as no comment line starts a type keyword and no statement
   ends in `&` *)
Theorem fixed_form_recognised fls : forallb wf_fline fls = true -> detect_fixed (map render_fline fls) = true.
Proof. exact (fixed_render_detected fls). Qed.
Print Assumptions fixed_form_recognised.

(* a free-form program with one statement that starts with a letter, indented by 1..4 blanks, is never fixed *)
Theorem indented_free_form_never_fixed indent stmts s c r :
  1 <= indent <= 4 -> In s stmts -> s = c :: r -> is_alpha c = true -> detect_fixed (render_free indent stmts) = false.
Proof. exact (free_render_not_fixed indent stmts s c r). Qed.
Print Assumptions indented_free_form_never_fixed.

(* so is any text with a trailing `&` outside a column-1 comment or a declaration starting before column 7 *)
Theorem continuation_or_declaration_never_fixed ls l :
  In l (code_lines false ls) -> (var_early l = true \/ (fixed_comment l = false /\ amp_end l = true)) -> detect_fixed ls = false.
Proof. exact (amp_or_decl_not_fixed ls l). Qed.
Print Assumptions continuation_or_declaration_never_fixed.

(* a DO nest of any depth sharing one terminal label is closed completely by the labelled statement *)
Theorem shared_label_closes_nest lbl n rest :
  match rest with x :: _ => str_eqb lbl x = false | [] => True end -> pop_label lbl (repeat lbl n ++ rest) = (n, rest).
Proof. exact (labelled_do_closes lbl n rest). Qed.
Print Assumptions shared_label_closes_nest.

(* fixed-form continuation: whatever the continuation marks, with comment lines (flagged in column 1 or `!` after blanks) and blank
   lines in between, and whatever trailing comments the continued lines carry, the statement readers get the statement (up to blanks) ... *)
Theorem fixed_continuation_preserves_statement lead0 b0 t0 ps stop :
  6 <= lead0 -> find_char BANG b0 = None -> tail_ok t0 = true ->
  Forall (fun p => wf_fpiece p = true) ps -> stop_ok stop ->
  squeeze (statement_fixed (blanks lead0 ++ b0 ++ t0) (render_conts ps ++ stop)) = squeeze (b0 ++ concat (map fbody ps)).
Proof. exact (fixed_continuation_layout_irrelevant lead0 b0 t0 ps stop). Qed.
Print Assumptions fixed_continuation_preserves_statement.

(* ... and it is the text its free-form twin yields: the same statement cut at the same places, any number of pieces *)
Theorem fixed_free_same_statements p rest lead0 t0 fps stop :
  Forall (fun q => wf_piece q = true) (p :: rest) -> amp_lead p = false ->
  6 <= lead0 -> tail_ok t0 = true ->
  Forall (fun q => wf_fpiece q = true) fps -> map fbody fps = map body rest -> stop_ok stop ->
  match render (p :: rest) with
  | cur :: more => squeeze (joined cur more) = squeeze (statement_fixed (blanks lead0 ++ body p ++ t0) (render_conts fps ++ stop))
  | [] => False
  end.
Proof. exact (fixed_free_same_statement p rest lead0 t0 fps stop). Qed.
Print Assumptions fixed_free_same_statements.

(* non-vacuity: `      integer a, ! first` / `C note` / `     &  b, ! second` / `   ! indented` / `     1  c ! last` / `      end` *)
Example fixed_continuation_nonvacuous :
  let bang := [33; 32; 120]%N in
  let ps := [FP 38%N [32; 32; 98; 44; 32]%N bang [[32; 32; 32; 33; 32; 105]%N]; FP 49%N [32; 32; 99; 32]%N bang []] in
  Forall (fun p => wf_fpiece p = true) ps /\ stop_ok [[32; 32; 32; 32; 32; 32; 101; 110; 100]%N] /\
  squeeze (statement_fixed (blanks 6 ++ [105; 110; 116; 32; 97; 44; 32]%N ++ bang) ([[67; 32; 110]%N] ++ render_conts ps ++ [[32; 32; 32; 32; 32; 32; 101; 110; 100]%N]))
  = [105; 110; 116; 97; 44; 98; 44; 99]%N.
Proof. vm_compute. repeat split; repeat constructor. Qed.
Print Assumptions fixed_continuation_nonvacuous.

(* the direct tests agree with the patterns compiled by the code (regenerated): exhaustive over all strings of
   length <= 6 on {blank a Z 1 !}, all strings of length <= 2 on the comment alphabet, and the keyword probes
   (each keyword, upper case, with a letter appended, with the last letter removed) after 0,1,4,5,6,7 blanks *)
Theorem direct_tests_agree_with_patterns_bounded :
  agree_free_test = true /\ agree_fixed_comment = true /\ agree_var_early = true.
Proof. vm_compute. repeat split. Qed.
Print Assumptions direct_tests_agree_with_patterns_bounded.

(* the heuristic cannot tell an unindented free-form program from a fixed-form one (known finding) *)
Theorem C14_refuted_unindented_free_form :
  detect_fixed [s2l "program p"; s2l "call foo()"; s2l "end program p"] = true.
Proof. vm_compute. reflexivity. Qed.
Print Assumptions C14_refuted_unindented_free_form.

(* and a fixed-form comment line that happens to start a type keyword makes the file free-form (known finding) *)
Theorem C14_refuted_comment_starts_keyword :
  detect_fixed [s2l "Complex numbers here"; s2l "      x = 1"; s2l "      end"] = false /\
  wf_fline (FComment 67%N (s2l "omplex numbers here")) = false.
Proof. vm_compute. split; reflexivity. Qed.
Print Assumptions C14_refuted_comment_starts_keyword.

Example C14_nonvacuous :
  let prog := [FComment 67%N (s2l " a fixed-form program"); FStmt (s2l "     ") (s2l "program p");
               FStmt (s2l "     ") (s2l "do 10 i = 1, 3"); FStmt (s2l "     ") (s2l "x = x +");
               FCont 49%N (s2l " i"); FStmt (s2l "10   ") (s2l "continue"); FComment 100%N (s2l " debug line");
               FStmt (s2l "     ") (s2l "end")] in
  forallb wf_fline prog = true /\ detect_fixed (map render_fline prog) = true /\
  detect_fixed (render_free 2 [s2l "program p"; s2l "end"]) = false /\
  pop_label (s2l "10") [s2l "10"; s2l "10"; s2l "20"] = (2, [s2l "20"]).
Proof. vm_compute. repeat split. Qed.
Print Assumptions C14_nonvacuous.
