(* C14/Model.v -- source-form detection (fortls/helper_functions.py detect_fixed_format) and a
   fixed-form printer.  Definitions only.  The three per-line tests are written directly on
   characters; their agreement with the regular expressions the code compiles
   (FREE_FORMAT_TEST, VAR, FIXED_COMMENT, regenerated in Gen/GenRegex.v) is a separate obligation. *)
From Coq Require Import String.
From FV Require Import Base.Str Base.Regex Gen.GenRegex.

Fixpoint leading_blanks (l : str) : nat :=
  match l with c :: r => if N.eqb c 32 then S (leading_blanks r) else 0 | [] => 0 end.

(* FREE_FORMAT_TEST = [ ]{1,4}[a-z] (ignore case), anchored at column 1 *)
Definition free_test (l : str) : bool :=
  let n := leading_blanks l in
  (1 <=? n) && (n <=? 4) && match nth_error l n with Some c => is_alpha c | None => false end.

Fixpoint prefix_ci (p s : str) : bool :=
  match p, s with
  | [], _ => true
  | x :: p', y :: s' => N.eqb (to_lower x) (to_lower y) && prefix_ci p' s'
  | _ :: _, [] => false
  end.

Definition kw_simple : list str :=
  map s2l ["integer"; "real"; "complex"; "character"; "logical"; "procedure"; "external"; "class"; "type"]%string.

(* DOUBLE[ ]*PRECISION | DOUBLE[ ]*COMPLEX *)
Definition kw_double (s : str) : bool :=
  prefix_ci (s2l "double") s &&
  let r := skipn 6 s in
  let r' := skipn (leading_blanks r) r in
  prefix_ci (s2l "precision") r' || prefix_ci (s2l "complex") r'.

Definition starts_kw (s : str) : bool := existsb (fun k => prefix_ci k s) kw_simple || kw_double s.

(* VAR.match(line) with start(1) < 6: a type keyword after fewer than six blanks *)
Definition var_early (l : str) : bool :=
  let n := leading_blanks l in (n <? 6) && starts_kw (skipn n l).

(* FIXED_COMMENT = ([!cd*]) (ignore case), anchored at column 1 *)
Definition fixed_comment (l : str) : bool :=
  match l with c :: _ => existsb (N.eqb c) [33; 42; 67; 99; 68; 100]%N | [] => false end.

(* str.isspace for code points below 256 *)
Definition py_space (c : char) : bool :=
  ((9 <=? c)%N && (c <=? 13)%N) || ((28 <=? c)%N && (c <=? 32)%N) || N.eqb c 133 || N.eqb c 160.

Fixpoint before_bang (l : str) : str :=
  match l with [] => [] | c :: r => if N.eqb c 33 then [] else c :: before_bang r end.

Fixpoint last_nonspace (l : str) (acc : option char) : option char :=
  match l with [] => acc | c :: r => last_nonspace r (if py_space c then acc else Some c) end.

(* line.split("!")[0].strip() is non-empty and ends with & *)
Definition amp_end (l : str) : bool :=
  match last_nonspace (before_bang l) None with Some c => N.eqb c 38 | None => false end.

(* line.rstrip().endswith("\\") *)
Definition ends_backslash (l : str) : bool :=
  match last_nonspace l None with Some c => N.eqb c 92 | None => false end.

Definition starts_hash (l : str) : bool := match l with c :: _ => N.eqb c 35 | [] => false end.

Definition line_free (l : str) : bool :=
  free_test l || var_early l || (negb (fixed_comment l) && amp_end l).

(* the loop of detect_fixed_format; ppc = pp_continue *)
Fixpoint detect_from (ppc : bool) (ls : list str) : bool :=
  match ls with
  | [] => true
  | l :: r =>
    if starts_hash l || ppc then detect_from (ends_backslash l) r
    else if line_free l then false else detect_from false r
  end.
Definition detect_fixed (ls : list str) : bool := detect_from false ls.

(* the lines the loop looks at *)
Fixpoint code_lines (ppc : bool) (ls : list str) : list str :=
  match ls with
  | [] => []
  | l :: r => if starts_hash l || ppc then code_lines (ends_backslash l) r else l :: code_lines false r
  end.

(* ---- a fixed-form printer ---- *)
Inductive fline :=
| FComment (mark : char) (text : str)     (* C c * ! d D in column 1 *)
| FStmt (label : str) (body : str)        (* label field of exactly five columns, column 6 blank, statement from column 7 *)
| FCont (mark : char) (body : str).       (* five blanks, continuation mark in column 6 (any non-blank non-letter, `!` included) *)

Definition render_fline (f : fline) : str :=
  match f with
  | FComment m t => m :: t
  | FStmt lab body => lab ++ [32%N] ++ body
  | FCont m body => repeat 32%N 5 ++ [m] ++ body
  end.

Definition label_char (c : char) : bool := N.eqb c 32 || is_digit c.
Definition has_code (body : str) : bool :=
  match last_nonspace (before_bang body) None with Some _ => true | None => false end.

Definition wf_fline (f : fline) : bool :=
  match f with
  | FComment m t => existsb (N.eqb m) [33; 42; 67; 99; 68; 100]%N && negb (var_early (m :: t))
  | FStmt lab body => (length lab =? 5) && forallb label_char lab && negb (amp_end body) && has_code body
  | FCont m body => negb (is_alpha m) && negb (py_space m) && (N.eqb m 33 || (negb (amp_end body) && has_code body))
  end.

(* a free-form printer: every statement indented by the same 1..4 blanks *)
Definition render_free (indent : nat) (stmts : list str) : list str := map (fun s => repeat 32%N indent ++ s) stmts.

(* ---- the regular expressions of the code, for the agreement obligation ---- *)
Definition re_free_test (l : str) : bool := pmatchb P_FREE_FORMAT_TEST l.
Definition re_fixed_comment (l : str) : bool := pmatchb P_FIXED_COMMENT l.
Definition re_var_early (l : str) : bool :=
  match pmatch P_VAR l with
  | Some (_, caps) => match group caps 1 with Some (a, _) => a <? 6 | None => false end
  | None => false
  end.

(* all strings over an alphabet up to a length *)
Fixpoint words (alpha : list char) (n : nat) : list str :=
  match n with
  | O => [[]]
  | S k => [] :: flat_map (fun w => map (fun c => c :: w) alpha) (words alpha k)
  end.
