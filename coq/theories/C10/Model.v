(* C10/Model.v -- the workspace bookkeeping of the server (fortls/langserver.py: serve_onOpen/onSave/onClose/onChange,
   update_workspace_file) over an abstract disk.  A text is known by the names of its top-level units (what parse puts into
   global_dict) and an opaque body.  Definitions only. *)
From Coq Require Import List Arith Bool.
Import ListNotations.

Definition path := nat.
Definition name := nat.
Record text := TX { t_units : list name; t_body : nat }.

Definition text_eqb (a b : text) : bool :=
  (t_body a =? t_body b) && (length (t_units a) =? length (t_units b)) && forallb (fun xy => fst xy =? snd xy) (combine (t_units a) (t_units b)).

(* finite maps over nat keys as association lists; the first binding wins *)
Fixpoint lookup {A} (k : nat) (m : list (nat * A)) : option A :=
  match m with [] => None | (k', v) :: r => if k =? k' then Some v else lookup k r end.
Fixpoint remove {A} (k : nat) (m : list (nat * A)) : list (nat * A) :=
  match m with [] => [] | (k', v) :: r => if k =? k' then remove k r else (k', v) :: remove k r end.
Definition set {A} (k : nat) (v : A) (m : list (nat * A)) : list (nat * A) := (k, v) :: remove k m.

Record frec := FR { buf : text; hash : option text }.    (* hash: the disk content last loaded, if nothing changed since *)
Record st := ST { files : list (path * frec); objtree : list (name * path) }.
Definition disk := list (path * text).

Definition pop_all (ks : list name) (m : list (name * path)) : list (name * path) := fold_left (fun m k => remove k m) ks m.
Definition add_all (ks : list name) (p : path) (m : list (name * path)) : list (name * path) := fold_left (fun m k => set k p m) ks m.

(* update_workspace_file after the buffer of p became t: prune the keys of the old syntax tree, add the new ones *)
Definition reindex (s : st) (p : path) (old : option text) (t : text) (h : option text) : st :=
  let ot := match old with Some o => pop_all (t_units o) (objtree s) | None => objtree s end in
  ST (set p (FR t h) (files s)) (add_all (t_units t) p ot).

Inductive event :=
| Save (p : path)             (* didOpen / didSave / didClose of a file that exists: reload from disk unless unchanged *)
| Change (p : path) (t : text)  (* didChange: the buffer becomes t *)
| WriteDisk (p : path) (t : text)
| DeleteClose (p : path).     (* the file is removed from disk and closed *)

Definition step (sd : st * disk) (e : event) : st * disk :=
  let '(s, d) := sd in
  match e with
  | Save p =>
    match lookup p d with
    | None => (s, d)                                   (* nothing to load (an unsaved new buffer is not modelled) *)
    | Some t =>
      match lookup p (files s) with
      | Some f => if match hash f with Some h => text_eqb h t | None => false end then (s, d)
                  else (reindex s p (Some (buf f)) t (Some t), d)
      | None => (reindex s p None t (Some t), d)
      end
    end
  | Change p t =>
    match lookup p (files s) with
    | Some f => (reindex s p (Some (buf f)) t None, d)
    | None => (s, d)                                   (* "Change request failed for unknown file" *)
    end
  | WriteDisk p t => (s, set p t d)
  | DeleteClose p =>
    match lookup p (files s) with
    | Some f => (ST (remove p (files s)) (pop_all (t_units (buf f)) (objtree s)), remove p d)
    | None => (s, remove p d)
    end
  end.

Definition run (sd : st * disk) (h : list event) : st * disk := fold_left step h sd.

(* a server started on the directory: every file of the disk loaded once *)
Definition fresh (d : disk) : st := fst (fold_left (fun sd p => step sd (Save p)) (map fst d) (ST [] [], d)).

(* what queries can see: the text each known path was parsed from, and the owner of each top-level name *)
Definition same_view (a b : st) : Prop :=
  (forall p, option_map buf (lookup p (files a)) = option_map buf (lookup p (files b))) /\
  (forall k, lookup k (objtree a) = lookup k (objtree b)).
