(* C10/Props.v -- property C10, the part carried by theorems: the workspace index (which text each known file was parsed
   from, which file owns each top-level name) depends only on the files once everything is saved.  Statements only. *)
From Coq Require Import List Arith Bool.
Import ListNotations.
From FV Require Import C10.Model C10.Proofs.

(* For every history of saves/opens/closes, buffer changes, disk writes and delete+close events, starting from a server
   initialised on a directory d0: if top-level unit names never collide across files (H1), every known document is saved,
   and every file of the final directory is known to the server, then the index equals that of a server freshly started
   on the final directory. *)
Theorem quiescent_equals_fresh d0 h s d :
  ok_history (ST [] [], d0) (fresh_events d0) ->
  ok_history (fresh d0, d0) h ->
  run (fresh d0, d0) h = (s, d) ->
  (forall p f, lookup p (files s) = Some f -> lookup p d = Some (buf f)) ->
  (forall p t, lookup p d = Some t -> lookup p (files s) <> None) ->
  ok_history (ST [] [], d) (fresh_events d) ->
  same_view s (fresh d).
Proof. exact (quiescent_view d0 h s d). Qed.
Print Assumptions quiescent_equals_fresh.

(* the invariant behind it holds after every event, saved or not: the object tree is exactly the union of the unit names
   of the current buffers, each owned by its file *)
Theorem index_invariant h s d : Inv s -> ok_history (s, d) h -> Inv (fst (run (s, d) h)).
Proof. exact (run_inv h s d). Qed.
Print Assumptions index_invariant.

(* after any change the next save re-reads the disk: the unchanged-hash short-cut cannot hide an edit *)
Theorem hash_forces_reload s d p t f t' :
  lookup p (files s) = Some f -> lookup p d = Some t' ->
  let s1 := fst (step (s, d) (Change p t)) in
  option_map buf (lookup p (files (fst (step (s1, d) (Save p))))) = Some t'.
Proof. exact (change_forces_reload s d p t f t'). Qed.
Print Assumptions hash_forces_reload.

(* without H1 the statement is false of the model (and of the code: known finding C10:name-collision): file 1 defines unit 10,
   file 2 unit 20; the buffer of file 1 briefly defines 20 as well and is changed back and saved: unit 20 has no owner,
   a fresh server gives it to file 2 *)
Definition d_w : disk := [(1, TX [10] 0); (2, TX [20] 0)].
Definition h_w : list event := [Change 1 (TX [20] 1); Change 1 (TX [10] 0); Save 1].
Theorem C10_refuted_name_collision :
  let '(s, d) := run (fresh d_w, d_w) h_w in
  (forall p, In p [0; 1; 2; 3] -> option_map buf (lookup p (files s)) = option_map buf (lookup p (files (fresh d)))) /\
  lookup 20 (objtree s) = None /\ lookup 20 (objtree (fresh d)) = Some 2.
Proof. vm_compute. split; [|split; reflexivity]. intros p [<-|[<-|[<-|[<-|[]]]]]; reflexivity. Qed.
Print Assumptions C10_refuted_name_collision.

Example C10_nonvacuous :
  let d0 : disk := [(1, TX [10] 0); (2, TX [20; 21] 0)] in
  let h := [Change 1 (TX [10; 11] 5); WriteDisk 1 (TX [10; 11] 5); Save 1; WriteDisk 3 (TX [30] 1); Save 3; DeleteClose 2] in
  let '(s, d) := run (fresh d0, d0) h in
  lookup 11 (objtree s) = Some 1 /\ lookup 20 (objtree s) = None /\ lookup 30 (objtree s) = Some 3 /\
  map (fun k => lookup k (objtree s)) [10; 11; 20; 21; 30] = map (fun k => lookup k (objtree (fresh d))) [10; 11; 20; 21; 30].
Proof. vm_compute. repeat split. Qed.
Print Assumptions C10_nonvacuous.
