(* C10/Proofs.v *)
From Coq Require Import List Arith Bool Lia.
Import ListNotations.
From FV Require Import C10.Model.

(* ---- finite maps ---- *)
Lemma lookup_remove_eq {A} k (m : list (nat * A)) : lookup k (remove k m) = None.
Proof. induction m as [|[k' v] r IH]; cbn; [reflexivity|]. destruct (k =? k') eqn:E; [exact IH|]. cbn. rewrite E. exact IH. Qed.
Lemma lookup_remove_neq {A} k k' (m : list (nat * A)) : k <> k' -> lookup k (remove k' m) = lookup k m.
Proof.
  intro H. induction m as [|[k2 v] r IH]; cbn; [reflexivity|]. destruct (k' =? k2) eqn:E.
  - apply Nat.eqb_eq in E. subst k2. destruct (k =? k') eqn:E2; [apply Nat.eqb_eq in E2; congruence|exact IH].
  - cbn. destruct (k =? k2); [reflexivity|exact IH].
Qed.
Lemma lookup_set_eq {A} k (v : A) m : lookup k (set k v m) = Some v.
Proof. unfold set. cbn. now rewrite Nat.eqb_refl. Qed.
Lemma lookup_set_neq {A} k k' (v : A) m : k <> k' -> lookup k (set k' v m) = lookup k m.
Proof. intro H. unfold set. cbn. destruct (k =? k') eqn:E; [apply Nat.eqb_eq in E; congruence|]. now apply lookup_remove_neq. Qed.

Lemma lookup_pop ks : forall m k, lookup k (pop_all ks m) = if in_dec Nat.eq_dec k ks then None else lookup k m.
Proof.
  induction ks as [|x r IH]; intros m k; cbn [pop_all fold_left]; [reflexivity|].
  change (fold_left (fun m k => remove k m) r (remove x m)) with (pop_all r (remove x m)).
  rewrite IH. destruct (in_dec Nat.eq_dec k r) as [Hi|Hn]; destruct (in_dec Nat.eq_dec k (x :: r)) as [Hi2|Hn2]; try reflexivity.
  - exfalso. apply Hn2. now right.
  - destruct Hi2 as [->|Hi2]; [apply lookup_remove_eq|contradiction].
  - apply lookup_remove_neq. intro; subst. apply Hn2. now left.
Qed.

Lemma lookup_add ks p : forall m k, lookup k (add_all ks p m) = if in_dec Nat.eq_dec k ks then Some p else lookup k m.
Proof.
  induction ks as [|x r IH]; intros m k; cbn [add_all fold_left]; [reflexivity|].
  change (fold_left (fun m k => set k p m) r (set x p m)) with (add_all r p (set x p m)).
  rewrite IH. destruct (in_dec Nat.eq_dec k r) as [Hi|Hn]; destruct (in_dec Nat.eq_dec k (x :: r)) as [Hi2|Hn2]; try reflexivity.
  - exfalso. apply Hn2. now right.
  - destruct Hi2 as [->|Hi2]; [apply lookup_set_eq|contradiction].
  - apply lookup_set_neq. intro; subst. apply Hn2. now left.
Qed.

Lemma text_eqb_eq a b : text_eqb a b = true -> a = b.
Proof.
  destruct a as [ua ba], b as [ub bb]. unfold text_eqb. cbn. intro H.
  apply andb_true_iff in H as [H H3]. apply andb_true_iff in H as [H1 H2].
  apply Nat.eqb_eq in H1, H2. subst bb. f_equal.
  revert ub H2 H3. induction ua as [|x r IH]; intros [|y s] Hl Hf; cbn in *; try lia; [reflexivity|].
  apply andb_true_iff in Hf as [Hx Hr]. apply Nat.eqb_eq in Hx. subst y. f_equal. apply IH; [lia|exact Hr].
Qed.

(* ---- the invariant ---- *)
Definition owner_ok (s : st) : Prop :=
  forall k p, lookup k (objtree s) = Some p <-> exists f, lookup p (files s) = Some f /\ In k (t_units (buf f)).
Definition hash_ok (s : st) : Prop :=
  forall p f h, lookup p (files s) = Some f -> hash f = Some h -> buf f = h.
Definition uniq (s : st) : Prop :=
  forall p1 p2 f1 f2 k, lookup p1 (files s) = Some f1 -> lookup p2 (files s) = Some f2 ->
                        In k (t_units (buf f1)) -> In k (t_units (buf f2)) -> p1 = p2.
Definition Inv (s : st) : Prop := owner_ok s /\ hash_ok s /\ uniq s.

(* H1 of the property: the text that becomes the buffer of p shares no top-level name with another file *)
Definition fits (s : st) (p : path) (t : text) : Prop :=
  forall p' f' k, p' <> p -> lookup p' (files s) = Some f' -> In k (t_units t) -> ~ In k (t_units (buf f')).

Definition ok_event (sd : st * disk) (e : event) : Prop :=
  match e with
  | Save p => match lookup p (snd sd) with Some t => fits (fst sd) p t | None => True end
  | Change p t => fits (fst sd) p t
  | _ => True
  end.

Lemma reindex_inv s p t h :
  Inv s -> fits s p t -> (h = Some t \/ h = None) ->
  Inv (reindex s p (option_map buf (lookup p (files s))) t h).
Proof.
  intros [Ho [Hh Hu]] Hf Hhh.
  set (oldu := match lookup p (files s) with Some f => t_units (buf f) | None => [] end).
  assert (Eobj : forall k, lookup k (objtree (reindex s p (option_map buf (lookup p (files s))) t h)) =
                           if in_dec Nat.eq_dec k (t_units t) then Some p
                           else if in_dec Nat.eq_dec k oldu then None else lookup k (objtree s)).
  { intro k. unfold reindex. cbn [objtree]. rewrite lookup_add. destruct (in_dec Nat.eq_dec k (t_units t)); [reflexivity|].
    unfold oldu. destruct (lookup p (files s)) as [f|]; cbn [option_map]; [apply lookup_pop|].
    destruct (in_dec Nat.eq_dec k []) as [[]|_]. reflexivity. }
  assert (Efile : forall q, lookup q (files (reindex s p (option_map buf (lookup p (files s))) t h)) =
                            if Nat.eq_dec q p then Some (FR t h) else lookup q (files s)).
  { intro q. unfold reindex. cbn [files]. destruct (Nat.eq_dec q p) as [->|Hn]; [apply lookup_set_eq|now apply lookup_set_neq]. }
  split; [|split].
  - (* owner_ok *)
    intros k q. rewrite Eobj. split.
    + destruct (in_dec Nat.eq_dec k (t_units t)) as [Hi|Hn].
      * intro E. inversion E; subst q. exists (FR t h). rewrite Efile. destruct (Nat.eq_dec p p); [|congruence]. split; [reflexivity|exact Hi].
      * destruct (in_dec Nat.eq_dec k oldu) as [Hi2|Hn2]; [discriminate|].
        intro E. apply Ho in E as [f [Ef Hk]].
        assert (q <> p). { intro; subst q. apply Hn2. unfold oldu. now rewrite Ef. }
        exists f. rewrite Efile. destruct (Nat.eq_dec q p); [congruence|]. auto.
    + intros [f [Ef Hk]]. rewrite Efile in Ef. destruct (Nat.eq_dec q p) as [->|Hn].
      * inversion Ef; subst f. cbn in Hk. destruct (in_dec Nat.eq_dec k (t_units t)); [reflexivity|contradiction].
      * destruct (in_dec Nat.eq_dec k (t_units t)) as [Hi|Hni]; [exfalso; exact (Hf q f k Hn Ef Hi Hk)|].
        destruct (in_dec Nat.eq_dec k oldu) as [Hi2|Hn2].
        -- exfalso. unfold oldu in Hi2. destruct (lookup p (files s)) as [fp|] eqn:Ep; [|contradiction].
           apply Hn. exact (Hu q p f fp k Ef Ep Hk Hi2).
        -- apply Ho. eauto.
  - (* hash_ok *)
    intros q f h' Ef Hh'. rewrite Efile in Ef. destruct (Nat.eq_dec q p) as [->|Hn].
    + inversion Ef; subst f. cbn in *. destruct Hhh as [->| ->]; [congruence|discriminate].
    + eapply Hh; eauto.
  - (* uniq *)
    intros p1 p2 f1 f2 k E1 E2 K1 K2. rewrite Efile in E1, E2.
    destruct (Nat.eq_dec p1 p) as [->|N1]; destruct (Nat.eq_dec p2 p) as [->|N2]; try reflexivity.
    + inversion E1; subst f1. cbn in K1. exfalso. exact (Hf p2 f2 k N2 E2 K1 K2).
    + inversion E2; subst f2. cbn in K2. exfalso. exact (Hf p1 f1 k N1 E1 K2 K1).
    + eapply Hu; eauto.
Qed.

Lemma step_inv s d e : Inv s -> ok_event (s, d) e -> Inv (fst (step (s, d) e)).
Proof.
  intros HI Hok. destruct e as [p|p t|p t|p]; cbn [step].
  - cbn in Hok. destruct (lookup p d) as [t|] eqn:Ed; [|exact HI].
    destruct (lookup p (files s)) as [f|] eqn:Ef.
    + destruct (match hash f with Some h => text_eqb h t | None => false end); [exact HI|].
      cbn [fst]. pose proof (reindex_inv s p t (Some t) HI Hok (or_introl eq_refl)) as H. rewrite Ef in H. exact H.
    + cbn [fst]. pose proof (reindex_inv s p t (Some t) HI Hok (or_introl eq_refl)) as H. rewrite Ef in H. exact H.
  - cbn in Hok. destruct (lookup p (files s)) as [f|] eqn:Ef; [|exact HI].
    cbn [fst]. pose proof (reindex_inv s p t None HI Hok (or_intror eq_refl)) as H. rewrite Ef in H. exact H.
  - exact HI.
  - destruct (lookup p (files s)) as [f|] eqn:Ef; [|exact HI]. cbn [fst].
    destruct HI as [Ho [Hh Hu]]. split; [|split].
    + intros k q. cbn [objtree files]. rewrite lookup_pop. split.
      * destruct (in_dec Nat.eq_dec k (t_units (buf f))) as [Hi|Hn]; [discriminate|].
        intro E. apply Ho in E as [g [Eg Hk]]. assert (q <> p) by (intro; subst q; rewrite Ef in Eg; inversion Eg; subst g; contradiction).
        exists g. rewrite lookup_remove_neq by assumption. auto.
      * intros [g [Eg Hk]]. destruct (Nat.eq_dec q p) as [->|Hn]; [rewrite lookup_remove_eq in Eg; discriminate|].
        rewrite lookup_remove_neq in Eg by assumption.
        destruct (in_dec Nat.eq_dec k (t_units (buf f))) as [Hi|Hni]; [exfalso; apply Hn; exact (Hu q p g f k Eg Ef Hk Hi)|].
        apply Ho. eauto.
    + intros q g h Eg Hg. cbn [files] in Eg. destruct (Nat.eq_dec q p) as [->|Hn]; [rewrite lookup_remove_eq in Eg; discriminate|].
      rewrite lookup_remove_neq in Eg by assumption. eapply Hh; eauto.
    + intros p1 p2 f1 f2 k E1 E2 K1 K2. cbn [files] in E1, E2.
      destruct (Nat.eq_dec p1 p) as [->|N1]; [rewrite lookup_remove_eq in E1; discriminate|].
      destruct (Nat.eq_dec p2 p) as [->|N2]; [rewrite lookup_remove_eq in E2; discriminate|].
      rewrite lookup_remove_neq in E1, E2 by assumption. eapply Hu; eauto.
Qed.

(* every event of the history respects H1 *)
Fixpoint ok_history (sd : st * disk) (h : list event) : Prop :=
  match h with [] => True | e :: r => ok_event sd e /\ ok_history (step sd e) r end.

Lemma run_inv h : forall s d, Inv s -> ok_history (s, d) h -> Inv (fst (run (s, d) h)).
Proof.
  induction h as [|e r IH]; intros s d HI Hok; [exact HI|]. cbn [run fold_left]. destruct Hok as [H1 H2].
  destruct (step (s, d) e) as [s' d'] eqn:E. apply IH; [|exact H2].
  pose proof (step_inv s d e HI H1) as H. rewrite E in H. exact H.
Qed.

Lemma inv_empty : Inv (ST [] []).
Proof.
  split; [|split].
  - intros k p. cbn. split; [discriminate|]. intros [f [H _]]. discriminate.
  - intros p f h H. discriminate.
  - intros p1 p2 f1 f2 k H. discriminate.
Qed.

(* two states that satisfy the invariant and hold the same buffers have the same object tree *)
Lemma same_buffers_same_view a b : Inv a -> Inv b ->
  (forall p, option_map buf (lookup p (files a)) = option_map buf (lookup p (files b))) -> same_view a b.
Proof.
  intros [Hoa _] [Hob _] Hf. split; [exact Hf|]. intro k.
  destruct (lookup k (objtree a)) as [p|] eqn:Ea.
  - apply Hoa in Ea as [f [Ef Hk]]. symmetry. apply Hob. specialize (Hf p). rewrite Ef in Hf. cbn in Hf.
    destruct (lookup p (files b)) as [g|] eqn:Eg; [|discriminate]. inversion Hf. exists g. split; [reflexivity|congruence].
  - destruct (lookup k (objtree b)) as [p|] eqn:Eb; [|reflexivity].
    apply Hob in Eb as [g [Eg Hk]]. specialize (Hf p). rewrite Eg in Hf. cbn in Hf.
    destruct (lookup p (files a)) as [f|] eqn:Ef; [|discriminate]. inversion Hf.
    assert (lookup k (objtree a) = Some p) by (apply Hoa; exists f; split; [exact Ef|congruence]). congruence.
Qed.

(* ---- the fresh server ---- *)
Lemma text_eqb_refl t : text_eqb t t = true.
Proof.
  destruct t as [u b]. unfold text_eqb. cbn. rewrite !Nat.eqb_refl. cbn.
  induction u as [|x r IH]; cbn; [reflexivity|]. now rewrite Nat.eqb_refl.
Qed.

Definition fresh_events (d : disk) : list event := map Save (map fst d).

Lemma fresh_is_run d : fresh d = fst (run (ST [] [], d) (fresh_events d)).
Proof.
  unfold fresh, run, fresh_events. generalize (ST [] [], d) as sd. induction (map fst d) as [|p r IH]; intro sd; cbn; [reflexivity|]. apply IH.
Qed.

Definition loaded (d : disk) (s : st) : Prop :=
  forall p f, lookup p (files s) = Some f -> exists t, lookup p d = Some t /\ f = FR t (Some t).

Lemma save_loaded d s p : loaded d s ->
  snd (step (s, d) (Save p)) = d /\ loaded d (fst (step (s, d) (Save p))) /\
  (forall t, lookup p d = Some t -> lookup p (files (fst (step (s, d) (Save p)))) = Some (FR t (Some t))) /\
  (forall q, q <> p -> lookup q (files (fst (step (s, d) (Save p)))) = lookup q (files s)).
Proof.
  intro HL. cbn [step]. destruct (lookup p d) as [t|] eqn:Ed.
  - destruct (lookup p (files s)) as [f|] eqn:Ef.
    + destruct (HL p f Ef) as [t' [Et' ->]]. rewrite Ed in Et'. inversion Et'; subst t'. cbn [hash]. rewrite text_eqb_refl.
      cbn. repeat split; auto. intros t0 E0. inversion E0; subst. exact Ef.
    + unfold reindex. cbn [fst snd files]. repeat split.
      * intros q g Eg. cbn [files] in Eg. destruct (Nat.eq_dec q p) as [->|Hn].
        -- rewrite lookup_set_eq in Eg. inversion Eg; subst. eauto.
        -- rewrite lookup_set_neq in Eg by assumption. apply HL. exact Eg.
      * intros t0 E0. inversion E0; subst. apply lookup_set_eq.
      * intros q Hn. now apply lookup_set_neq.
  - cbn. repeat split; auto. intros t E. discriminate.
Qed.

Lemma saves_loaded d ps : forall s, loaded d s ->
  let r := run (s, d) (map Save ps) in
  snd r = d /\ loaded d (fst r) /\
  (forall p t, In p ps -> lookup p d = Some t -> lookup p (files (fst r)) = Some (FR t (Some t))) /\
  (forall q, ~ In q ps -> lookup q (files (fst r)) = lookup q (files s)).
Proof.
  induction ps as [|p r IH]; intros s HL; cbn [map run fold_left].
  - repeat split; auto. intros p t [].
  - destruct (save_loaded d s p HL) as [Hd [HL' [Hp Hq]]].
    destruct (step (s, d) (Save p)) as [s' d'] eqn:E. cbn [fst snd] in *. subst d'.
    destruct (IH s' HL') as [Hd2 [HL2 [Hin Hout]]]. cbn zeta in *.
    change (fold_left step (map Save r) (s', d)) with (run (s', d) (map Save r)).
    repeat split; auto.
    + intros q t [->|Hq'] Eq.
      * destruct (in_dec Nat.eq_dec q r) as [Hi|Hn]; [now apply Hin|]. rewrite Hout by assumption. now apply Hp.
      * now apply Hin.
    + intros q Hn. rewrite Hout by (intro; apply Hn; now right). apply Hq. intro; subst. apply Hn. now left.
Qed.

Lemma lookup_in_keys {A} k (m : list (nat * A)) v : lookup k m = Some v -> In k (map fst m).
Proof.
  induction m as [|[k' w] r IH]; cbn; [discriminate|]. destruct (k =? k') eqn:E; [apply Nat.eqb_eq in E; auto|]. intro H. right. now apply IH.
Qed.

Lemma fresh_files d p : lookup p (files (fresh d)) = option_map (fun t => FR t (Some t)) (lookup p d).
Proof.
  rewrite fresh_is_run. unfold fresh_events.
  assert (HL : loaded d (ST [] [])) by (intros q f H; discriminate).
  destruct (saves_loaded d (map fst d) (ST [] []) HL) as [_ [HL' [Hin Hout]]]. cbn zeta in *.
  destruct (lookup p d) as [t|] eqn:E; cbn [option_map].
  - apply Hin; [|exact E]. eapply lookup_in_keys; eauto.
  - destruct (lookup p (files (fst (run (ST [] [], d) (map Save (map fst d)))))) as [f|] eqn:Ef; [|reflexivity].
    destruct (HL' p f Ef) as [t [Et _]]. congruence.
Qed.

(* ---- the theorem ---- *)
Theorem quiescent_view d0 h s d :
  ok_history (ST [] [], d0) (fresh_events d0) ->            (* unit names unique in the directory the server started on *)
  ok_history (fresh d0, d0) h ->                              (* ... and whenever a buffer is replaced (H1) *)
  run (fresh d0, d0) h = (s, d) ->
  (forall p f, lookup p (files s) = Some f -> lookup p d = Some (buf f)) ->     (* every known document is saved and exists *)
  (forall p t, lookup p d = Some t -> lookup p (files s) <> None) ->            (* every file of the directory is known *)
  ok_history (ST [] [], d) (fresh_events d) ->                (* unit names unique in the final directory *)
  same_view s (fresh d).
Proof.
  intros H0 Hh Hrun HQ HK HF.
  assert (I0 : Inv (fresh d0)) by (rewrite fresh_is_run; apply run_inv; [apply inv_empty|exact H0]).
  assert (Is : Inv s) by (pose proof (run_inv h (fresh d0) d0 I0 Hh) as H; rewrite Hrun in H; exact H).
  assert (If : Inv (fresh d)) by (rewrite fresh_is_run; apply run_inv; [apply inv_empty|exact HF]).
  apply same_buffers_same_view; [exact Is|exact If|].
  intro p. rewrite fresh_files. destruct (lookup p (files s)) as [f|] eqn:Ef; cbn [option_map].
  - rewrite (HQ p f Ef). reflexivity.
  - destruct (lookup p d) as [t|] eqn:Ed; [|reflexivity]. exfalso. exact (HK p t Ed Ef).
Qed.

(* after a change the next save re-reads the disk: the unchanged-hash short-cut never hides an edit *)
Theorem change_forces_reload s d p t f t' :
  lookup p (files s) = Some f -> lookup p d = Some t' ->
  let s1 := fst (step (s, d) (Change p t)) in
  option_map buf (lookup p (files (fst (step (s1, d) (Save p))))) = Some t'.
Proof.
  intros Ef Ed. cbn [step]. rewrite Ef. cbn [fst reindex files]. rewrite Ed, lookup_set_eq. cbn [hash fst reindex files].
  rewrite lookup_set_eq. reflexivity.
Qed.
