(* C06/Model.v -- the per-line occurrence scan of get_all_references and the text edits of
   rename.  Definitions only. *)
From FV Require Import Base.Str Base.Regex Gen.GenRegex.

(* identifier characters: letters, digits, underscore and $ *)
Definition identch (c : char) : bool := is_word c || N.eqb c 36.
Definition ci_eqb (a b : char) : bool := N.eqb (to_lower a) (to_lower b).
Fixpoint prefix_ci (p s : str) : bool :=
  match p, s with
  | [], _ => true
  | x :: p', y :: s' => ci_eqb x y && prefix_ci p' s'
  | _ :: _, [] => false
  end.

(* the scan as the code performs it: finditer of the generated NAME_REGEX, span of group 1 *)
Definition scan_regex (name line : str) : list (nat * nat) :=
  flat_map (fun m => match group (snd m) 1 with Some sp => [sp] | None => [] end)
           (finditer name_ci line (name_re name)).

(* the same scan written directly: at position i (characters before i already consumed),
   prev = the character before i *)
Fixpoint scan_from (name : str) (fuel : nat) (i : nat) (prev : option char) (rest : str) : list (nat * nat) :=
  match fuel with
  | O => []
  | S f =>
    match rest with
    | [] => []
    | c :: rest' =>
      let left_ok := match prev with None => true | Some p => negb (identch p) end in
      let n := length name in
      let right_ok := match nth_error rest n with None => true | Some d => negb (identch d) end in
      if left_ok && prefix_ci name rest && right_ok && negb (n =? 0) then
        (i, i + n) :: scan_from name f (i + n) (nth_error rest (n - 1)) (skipn n rest)
      else scan_from name f (S i) (Some c) rest'
    end
  end.
Definition scan_direct (name line : str) : list (nat * nat) := scan_from name (S (length line)) 0 None line.

(* what the property calls an occurrence: a maximal identifier-character run equal to the name *)
Definition occurrence (name line : str) (a b : nat) : Prop :=
  b = a + length name /\ name <> [] /\
  prefix_ci name (skipn a line) = true /\
  (a = 0 \/ exists p, nth_error line (a - 1) = Some p /\ identch p = false) /\
  (nth_error line b = None \/ exists d, nth_error line b = Some d /\ identch d = false).

(* rename: replace every span (ascending, disjoint) by the new name *)
Fixpoint apply_edits (line : str) (pos : nat) (spans : list (nat * nat)) (new : str) : str :=
  match spans with
  | [] => line
  | (a, b) :: r => firstn (a - pos) line ++ new ++ apply_edits (skipn (b - pos) line) b r new
  end.
