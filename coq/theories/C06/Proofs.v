(* C06/Proofs.v -- the direct scan finds exactly the occurrences (maximal identifier runs equal
   to the name, case-insensitively). *)
From Coq Require Import ZifyBool.
From FV Require Import Base.Str Base.Regex Gen.GenRegex C06.Model.

Lemma skipn_app_len {A} (a b : list A) : skipn (length a) (a ++ b) = b.
Proof. rewrite skipn_app, Nat.sub_diag, skipn_all. reflexivity. Qed.

Lemma nth_error_app_len {A} (a b : list A) k : nth_error (a ++ b) (length a + k) = nth_error b k.
Proof. rewrite nth_error_app2 by lia. f_equal. lia. Qed.

Lemma prefix_ci_length p : forall s, prefix_ci p s = true -> length p <= length s.
Proof.
  induction p as [|x p IH]; intros [|y s] H; cbn in *; try lia; try discriminate.
  apply andb_true_iff in H as [_ H]. specialize (IH s H). lia.
Qed.

Lemma identch_ci a b : ci_eqb a b = true -> identch a = identch b.
Proof.
  unfold ci_eqb, to_lower. unfold identch, is_word, is_alpha, is_digit, is_lower, is_upper. intro H. apply N.eqb_eq in H.
  destruct ((65 <=? a)%N && (a <=? 90)%N) eqn:Ea; destruct ((65 <=? b)%N && (b <=? 90)%N) eqn:Eb;
    apply Bool.eq_iff_eq_true; split; intro Hx; lia.
Qed.

(* characters of the subject matched by the name are identifier characters *)
Lemma prefix_ci_identch name : forallb identch name = true -> forall s k d,
  prefix_ci name s = true -> k < length name -> nth_error s k = Some d -> identch d = true.
Proof.
  induction name as [|x name IH]; intros Hn s k d Hp Hk Hd; [cbn in Hk; lia|].
  destruct s as [|y s]; [discriminate|]. cbn in Hp, Hn. apply andb_true_iff in Hp as [H1 H2]. apply andb_true_iff in Hn as [N1 N2].
  destruct k as [|k]; cbn in Hd.
  - inversion Hd; subst. rewrite <- (identch_ci x d H1). exact N1.
  - eapply IH; eauto. cbn in Hk. lia.
Qed.

Lemma nth_firstn_lt {A} (l : list A) : forall n k, k < n -> nth_error (firstn n l) k = nth_error l k.
Proof.
  induction l as [|x l IH]; intros [|n] [|k] H; cbn; try lia; try reflexivity.
  apply IH. lia.
Qed.

Definition last_of (pre : str) : option char := match pre with [] => None | _ => nth_error pre (length pre - 1) end.

Lemma last_of_snoc pre c : last_of (pre ++ [c]) = Some c.
Proof.
  unfold last_of. destruct (pre ++ [c]) eqn:E; [destruct pre; discriminate|]. rewrite <- E.
  rewrite app_length. cbn [length]. replace (length pre + 1 - 1) with (length pre + 0) by lia.
  now rewrite nth_error_app_len.
Qed.

Lemma last_of_nth pre rest : pre <> [] -> nth_error (pre ++ rest) (length pre - 1) = last_of pre.
Proof.
  intro H. unfold last_of. destruct pre as [|x p]; [congruence|].
  rewrite nth_error_app1 by (cbn; lia). reflexivity.
Qed.

Lemma last_of_some pre : pre <> [] -> exists q, last_of pre = Some q.
Proof.
  intro H. unfold last_of. destruct pre as [|x p]; [congruence|].
  destruct (nth_error (x :: p) (length (x :: p) - 1)) eqn:E; [eauto|]. apply nth_error_None in E. cbn in E. lia.
Qed.

Section Scan.
Variable name : str.
Hypothesis Hname : forallb identch name = true.

Lemma scan_from_spec : forall fuel pre rest,
  length rest < fuel ->
  forall a b, In (a, b) (scan_from name fuel (length pre) (last_of pre) rest) <->
              (length pre <= a /\ occurrence name (pre ++ rest) a b).
Proof.
  induction fuel as [|f IH]; intros pre rest Hf a b; [lia|].
  cbn [scan_from]. destruct rest as [|c rest'].
  - cbn [In]. split; [tauto|]. intros [Ha [_ [Hne [Hp _]]]]. exfalso.
    rewrite app_nil_r in Hp. rewrite skipn_all2 in Hp by lia. destruct name; [congruence|discriminate].
  - set (rest := c :: rest') in *.
    set (n := length name).
    set (left_ok := match last_of pre with None => true | Some p => negb (identch p) end).
    set (right_ok := match nth_error rest n with None => true | Some d => negb (identch d) end).
    destruct (left_ok && prefix_ci name rest && right_ok && negb (n =? 0)) eqn:Ec.
    + (* an occurrence starts here *)
      apply andb_true_iff in Ec as [Ec Hn0]. apply andb_true_iff in Ec as [Ec Hr]. apply andb_true_iff in Ec as [Hl Hp].
      apply negb_true_iff, Nat.eqb_neq in Hn0.
      pose proof (prefix_ci_length name rest Hp) as Hlen. fold n in Hlen.
      assert (Hsplit : pre ++ rest = (pre ++ firstn n rest) ++ skipn n rest) by (rewrite <- app_assoc; now rewrite firstn_skipn).
      assert (Hpre' : length (pre ++ firstn n rest) = length pre + n) by (rewrite app_length, firstn_length; lia).
      assert (Hlast : nth_error rest (n - 1) = last_of (pre ++ firstn n rest)).
      { unfold last_of. destruct (pre ++ firstn n rest) eqn:E.
        - exfalso. cbn [length] in Hpre'. lia.
        - rewrite Hpre', <- E. replace (length pre + n - 1) with (length pre + (n - 1)) by lia.
          rewrite nth_error_app_len. symmetry. apply nth_firstn_lt. lia. }
      cbn [In]. rewrite Hlast. replace (length pre + n) with (length (pre ++ firstn n rest)) by exact Hpre'.
      rewrite IH by (rewrite skipn_length; unfold rest in *; cbn [length] in *; lia).
      rewrite <- Hsplit, Hpre'.
      assert (Hocc : occurrence name (pre ++ rest) (length pre) (length pre + n)).
      { unfold occurrence. split; [reflexivity|]. split; [destruct name; [cbn in Hn0; congruence|discriminate]|].
        split; [now rewrite skipn_app_len|]. split.
        - destruct pre as [|x p]; [now left|]. right.
          assert (Hne : x :: p <> []) by discriminate.
          destruct (last_of_some _ Hne) as [q Hq].
          rewrite (last_of_nth (x :: p) rest Hne). exists q. split; [exact Hq|].
          unfold left_ok in Hl. rewrite Hq in Hl. now apply negb_true_iff.
        - rewrite nth_error_app_len. unfold right_ok in Hr. destruct (nth_error rest n) as [d|]; [|now left].
          right. exists d. split; [reflexivity|now apply negb_true_iff]. }
      split.
      * intros [E|[Ha Ho]]; [inversion E; subst; split; [lia|exact Hocc]|split; [lia|exact Ho]].
      * intros [Ha Ho]. destruct (Nat.eq_dec a (length pre)) as [->|Hne].
        -- left. destruct Ho as [Hb _]. fold n in Hb. now subst.
        -- destruct (Nat.lt_ge_cases a (length pre + n)) as [Hlt|Hge]; [|right; split; [lia|exact Ho]].
           (* a start strictly inside the matched name: its left neighbour is an identifier character *)
           exfalso. destruct Ho as [_ [_ [_ [[Hz|[q [Hq Hqi]]] _]]]]; [lia|].
           replace (a - 1) with (length pre + (a - 1 - length pre)) in Hq by lia.
           rewrite nth_error_app_len in Hq.
           rewrite (prefix_ci_identch name Hname rest (a - 1 - length pre) q Hp) in Hqi; [discriminate| |exact Hq].
           fold n. lia.
    + (* no occurrence starts here *)
      replace (S (length pre)) with (length (pre ++ [c])) by (rewrite app_length; cbn; lia).
      rewrite <- (last_of_snoc pre c).
      rewrite IH by (unfold rest in Hf; cbn [length] in Hf; lia).
      replace ((pre ++ [c]) ++ rest') with (pre ++ rest) by (unfold rest; now rewrite <- app_assoc).
      rewrite app_length. cbn [length].
      split; [intros [Ha Ho]; split; [lia|exact Ho]|].
      intros [Ha Ho]. split; [|exact Ho].
      destruct (Nat.eq_dec a (length pre)) as [->|Hne]; [|lia].
      exfalso. destruct Ho as [Hb [Hne0 [Hp [Hleft Hright]]]].
      rewrite skipn_app_len in Hp.
      assert (Hl : left_ok = true).
      { unfold left_ok. destruct Hleft as [Hz|[q [Hq Hqi]]].
        - destruct pre; [reflexivity|discriminate].
        - destruct pre as [|x p]; [reflexivity|].
          rewrite last_of_nth in Hq by discriminate. rewrite Hq. now rewrite Hqi. }
      assert (Hr : right_ok = true).
      { unfold right_ok. subst b. fold n in Hright. rewrite nth_error_app_len in Hright.
        destruct Hright as [Hnone|[d [Hd Hdi]]]; [now rewrite Hnone|]. rewrite Hd. now rewrite Hdi. }
      assert (Hn0 : negb (n =? 0) = true).
      { apply negb_true_iff, Nat.eqb_neq. unfold n. destruct name; [congruence|cbn; lia]. }
      rewrite Hl, Hp, Hr, Hn0 in Ec. discriminate.
Qed.

Theorem scan_direct_spec line a b : In (a, b) (scan_direct name line) <-> occurrence name line a b.
Proof.
  unfold scan_direct. pose proof (scan_from_spec (S (length line)) [] line (Nat.lt_succ_diag_r _) a b) as H.
  cbn [length last_of app] in H. rewrite H. split; [tauto|]. intro Ho. split; [lia|exact Ho].
Qed.
End Scan.

(* spans are ascending and disjoint *)
Lemma scan_from_sorted name : forall fuel i prev rest lo,
  lo <= i -> Forall (fun ab => lo <= fst ab /\ fst ab < snd ab) (scan_from name fuel i prev rest) /\
  (forall l1 x y l2, scan_from name fuel i prev rest = l1 ++ x :: y :: l2 -> snd x <= fst y).
Proof.
  induction fuel as [|f IH]; intros i prev rest lo Hlo; cbn [scan_from]; [split; [constructor|intros [|] ? ? ? H; discriminate]|].
  destruct rest as [|c rest']; [split; [constructor|intros [|] ? ? ? H; discriminate]|].
  match goal with |- context [if ?c then _ else _] => destruct c eqn:Ec end.
  - apply andb_true_iff in Ec as [_ Hn0]. apply negb_true_iff, Nat.eqb_neq in Hn0.
    destruct (IH (i + length name) (nth_error (c :: rest') (length name - 1)) (skipn (length name) (c :: rest')) (i + length name) (Nat.le_refl _)) as [F S].
    split.
    + constructor; [cbn; lia|]. eapply Forall_impl; [|exact F]. cbn. intros [a b] [H1 H2]. cbn in *. lia.
    + intros l1 x y l2 E. destruct l1 as [|z l1]; cbn in E.
      * inversion E as [[E1 E2]]. subst x. cbn. rewrite E2 in F. inversion F as [|? ? [Hy _] _]. cbn in Hy. exact Hy.
      * inversion E as [[E1 E2]]. eapply S; eauto.
  - destruct (IH (S i) (Some c) rest' lo ltac:(lia)) as [F S]. split; [exact F|exact S].
Qed.
