(* C06/Props.v -- property theorems only.  Statement of C06: references/highlight return exactly
   the occurrences bound to the entity, rename edits exactly those ranges, each spanning exactly
   the identifier.  What is proved here is the occurrence scan (which text positions are
   candidates); which candidates bind to the entity is C05's resolution (re-resolved per hit),
   covered by the differential of harness/props/c06.py. *)
From Coq Require Import String.
From FV Require Import Base.Str Base.Regex Base.RegexFacts Gen.GenRegex C06.Model C06.Proofs.

(* for every line and every name made of identifier characters: the scan finds (a, b) iff
   [a, b) is a whole identifier (not preceded/followed by an identifier character) that equals
   the name up to letter case -- every one, and nothing else *)
Theorem scan_is_tokens : forall name line a b,
  forallb identch name = true ->
  (In (a, b) (scan_direct name line) <-> occurrence name line a b).
Proof. intros name line a b H. now apply scan_direct_spec. Qed.
Print Assumptions scan_is_tokens.

(* the spans come in ascending order and never overlap (so the text edits of rename commute) *)
Theorem edits_disjoint_sorted : forall name line,
  Forall (fun ab => fst ab < snd ab) (scan_direct name line) /\
  (forall l1 x y l2, scan_direct name line = l1 ++ x :: y :: l2 -> snd x <= fst y).
Proof.
  intros name line. unfold scan_direct.
  destruct (scan_from_sorted name (S (length line)) 0 None line 0 (Nat.le_refl _)) as [F S]. split; [|exact S].
  eapply Forall_impl; [|exact F]. cbn. intros ab [_ H]. exact H.
Qed.
Print Assumptions edits_disjoint_sorted.

(* the same for the generated NAME_REGEX through the regex engine: every span lies in the line,
   spans are ordered and disjoint -- for every name and line (generic finditer lemma) *)
Theorem regex_scan_spans_in_line : forall name line,
  chain line 0 (finditer name_ci line (name_re name)).
Proof. intros. apply finditer_chain. Qed.
Print Assumptions regex_scan_spans_in_line.

(* the generated pattern and the direct scan agree: all lines up to length 4 over
   { i I j $ _ + blank 1 }, names i, ij, i$ -- a bounded check of the pattern read from the source *)
Fixpoint words (alpha : str) (k : nat) : list str :=
  match k with O => [[]] | S k' => [] :: flat_map (fun w => List.map (fun a => a :: w) alpha) (words alpha k') end.
Definition spans_eqb (a b : list (nat * nat)) : bool :=
  list_eqb (fun x y => (fst x =? fst y) && (snd x =? snd y)) a b.
Example regex_scan_equals_direct_bounded :
  forallb (fun nm => forallb (fun l => spans_eqb (scan_regex nm l) (scan_direct nm l)) (words (s2l "iIj$_+ 1") 4))
          [s2l "i"; s2l "ij"; s2l "i$"] = true.
Proof. vm_compute. reflexivity. Qed.
Print Assumptions regex_scan_equals_direct_bounded.

(* what the pinned tree did: a pattern that consumes the separator misses the second of two
   occurrences one character apart *)
Definition name_re_pinned (nm : str) : re :=
  Cat (Alt (Chr false [CNotWord]) Bol) (Cat (Grp 1 (Lits nm)) (Alt (Chr false [CNotWord]) Eol)).
Theorem C06_refuted_consumed_separator :
  flat_map (fun m => match group (snd m) 1 with Some sp => [sp] | None => [] end)
           (finditer true (s2l "x=i+i") (name_re_pinned (s2l "i"))) = [(2, 3)]
  /\ scan_direct (s2l "i") (s2l "x=i+i") = [(2, 3); (4, 5)].
Proof. vm_compute. split; reflexivity. Qed.
Print Assumptions C06_refuted_consumed_separator.

Example C06_nonvacuous :
  scan_direct (s2l "i") (s2l "x=i+i*ii-I$ i") = [(2, 3); (4, 5); (12, 13)] /\
  occurrence (s2l "i") (s2l "x=i+i*ii-I$ i") 12 13 /\
  apply_edits (s2l "x=i+i") 0 (scan_direct (s2l "i") (s2l "x=i+i")) (s2l "jk") = s2l "x=jk+jk".
Proof.
  split; [vm_compute; reflexivity|]. split; [|vm_compute; reflexivity].
  apply scan_direct_spec; [reflexivity|]. vm_compute. auto.
Qed.
Print Assumptions C06_nonvacuous.
