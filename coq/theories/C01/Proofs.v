(* C01/Proofs.v *)
From Coq Require Import Bool.
From FV Require Import C01.Syntax C01.Model.
Local Open Scope string_scope.

Lemma excs_ok_inv l : excs_ok l = true ->
  l = [ExcClause ExcRpc CodeFromExc; ExcClause ExcAny (CodeConst (-32603))].
Proof.
  destruct l as [|a [|b [|c l]]]; cbn [excs_ok]; try discriminate.
  intro H. apply andb_true_iff in H as [Ha Hb].
  destruct a as [[|] [|z]|]; cbn [clause_eqb] in Ha; try discriminate.
  destruct b as [[|] [|z]|]; cbn [clause_eqb] in Hb; try discriminate.
  apply Z.eqb_eq in Hb. now subst.
Qed.

Record wf_facts (p : proto_desc) : Prop := {
  wf_notif : p_notif p = NotifTryCatchAll;
  wf_excs : p_excs p = [ExcClause ExcRpc CodeFromExc; ExcClause ExcAny (CodeConst (-32603))];
  wf_else : p_else_resp p = true;
  wf_default : p_default_code p = Some (-32601)%Z;
  wf_writers : p_resp_writers p = ["handle"];
  wf_exit : lookup (p_table p) "exit" = Some exit_handler
}.

Lemma str_list_eqb_eq a : forall b, str_list_eqb a b = true -> a = b.
Proof.
  induction a as [|x a IH]; intros [|y b] H; cbn [str_list_eqb] in H; try discriminate; [reflexivity|].
  apply andb_true_iff in H as [H1 H2]. apply String.eqb_eq in H1. apply IH in H2. now subst.
Qed.

Lemma wf_proto_facts p : wf_proto p = true -> wf_facts p.
Proof.
  unfold wf_proto. intro H.
  repeat match type of H with (_ && _ = true) => apply andb_true_iff in H; destruct H as [H ?] end.
  constructor.
  - destruct (p_notif p); [reflexivity|discriminate].
  - now apply excs_ok_inv.
  - assumption.
  - destruct (p_default_code p) as [c|]; [|discriminate].
    match goal with H0 : Z.eqb c _ = true |- _ => apply Z.eqb_eq in H0; now subst end.
  - now apply str_list_eqb_eq.
  - destruct (lookup (p_table p) "exit") as [h|]; [|discriminate].
    match goal with H0 : String.eqb h _ = true |- _ => apply String.eqb_eq in H0; now subst end.
Qed.

(* ---- one message *)
Lemma handle_notif p m b : wf_proto p = true ->
  handle p (Notif m) b = ([], after p (Notif m)).
Proof.
  intro W. destruct (wf_proto_facts p W) as [Hn He Hl Hd _ _].
  unfold handle, effective. cbn [meth_of]. rewrite Hd, Hn.
  destruct (lookup (p_table p) m); reflexivity.
Qed.

Lemma handle_req_unknown p id m b : wf_proto p = true ->
  lookup (p_table p) m = None ->
  handle p (Req id m) b = ([OErr id (-32601)], Running).
Proof.
  intros W L. destruct (wf_proto_facts p W) as [Hn He Hl Hd _ _].
  unfold handle, effective, after, is_exit. cbn [meth_of]. rewrite L, Hd, He. reflexivity.
Qed.

Lemma handle_req_known p id m h b : wf_proto p = true ->
  lookup (p_table p) m = Some h ->
  handle p (Req id m) b =
  match b with
  | HRet true => ([OResp id], after p (Req id m))
  | HRet false => ([], Dead)
  | HRpc c => ([OErr id c], after p (Req id m))
  | HExn => ([OErr id (-32603)], after p (Req id m))
  end.
Proof.
  intros W L. destruct (wf_proto_facts p W) as [Hn He Hl Hd _ _].
  unfold handle, effective. cbn [meth_of]. rewrite L, He, Hl.
  destruct b as [[|]|c|]; reflexivity.
Qed.

Lemma after_not_dead p m : after p m <> Dead.
Proof. unfold after. destruct (is_exit p m); discriminate. Qed.

(* summary: under wf and serialisability one message yields exactly its own id (requests)
   or nothing (notifications), and the status is `after` *)
Lemma handle_summary p m b : wf_proto p = true -> b <> HRet false ->
  map out_id (fst (handle p m b)) = req_ids [(m, b)] /\ snd (handle p m b) = after p m.
Proof.
  intros W S. destruct m as [id meth|meth].
  - destruct (lookup (p_table p) meth) as [h|] eqn:L.
    + rewrite (handle_req_known p id meth h b W L).
      destruct b as [[|]|c|]; try (split; reflexivity). now elim S.
    + rewrite (handle_req_unknown p id meth b W L). split; [reflexivity|].
      unfold after, is_exit. cbn [meth_of]. now rewrite L.
  - rewrite handle_notif by assumption. split; reflexivity.
Qed.

(* ---- the loop *)
Lemma run_not_running p st l : st <> Running -> run p st l = ([], st).
Proof. destruct l as [|[m b] r]; [reflexivity|]. destruct st; [congruence|reflexivity..]. Qed.

Lemma run_ids p l : wf_proto p = true -> serialisable l ->
  map out_id (fst (run p Running l)) = req_ids (upto_exit p l).
Proof.
  intros W. induction l as [|[m b] r IH]; intro S; [reflexivity|].
  inversion S as [|x xs Sx Sr]; subst. cbn [snd] in Sx.
  cbn [run upto_exit fst].
  destruct (handle_summary p m b W Sx) as [H1 H2].
  destruct (handle p m b) as [o st'] eqn:Eh. cbn [fst snd] in H1, H2.
  unfold after in H2. destruct (is_exit p m) eqn:Ex; subst st'.
  - rewrite run_not_running by discriminate. cbn [fst]. rewrite app_nil_r. exact H1.
  - specialize (IH Sr). destruct (run p Running r) as [o2 st2] eqn:Er. cbn [fst] in *.
    rewrite map_app, H1, IH. unfold req_ids. cbn [flat_map]. now rewrite app_nil_r.
Qed.

Lemma run_status p l : wf_proto p = true -> serialisable l ->
  snd (run p Running l) = if existsb (fun x => is_exit p (fst x)) l then Exited else Running.
Proof.
  intros W. induction l as [|[m b] r IH]; intro S; [reflexivity|].
  inversion S as [|x xs Sx Sr]; subst. cbn [snd] in Sx.
  cbn [run existsb fst].
  destruct (handle_summary p m b W Sx) as [H1 H2].
  destruct (handle p m b) as [o st'] eqn:Eh. cbn [fst snd] in H1, H2.
  unfold after in H2. destruct (is_exit p m) eqn:Ex; subst st'.
  - rewrite run_not_running by discriminate. reflexivity.
  - specialize (IH Sr). destruct (run p Running r) as [o2 st2]. cbn [snd orb] in *. exact IH.
Qed.

(* every output belongs to the message that caused it: outputs of a prefix are a prefix *)
Lemma run_app p l1 l2 : wf_proto p = true -> serialisable l1 ->
  existsb (fun x => is_exit p (fst x)) l1 = false ->
  run p Running (l1 ++ l2)%list = ((fst (run p Running l1) ++ fst (run p Running l2))%list, snd (run p Running l2)).
Proof.
  intros W. induction l1 as [|[m b] r IH]; intros S E.
  - cbn [app run fst]. now destruct (run p Running l2).
  - inversion S as [|x xs Sx Sr]; subst. cbn [snd] in Sx.
    cbn [existsb fst] in E. apply orb_false_iff in E as [E1 E2].
    cbn [app run].
    destruct (handle_summary p m b W Sx) as [H1 H2].
    destruct (handle p m b) as [o st'] eqn:Eh. cbn [fst snd] in H1, H2.
    unfold after in H2. rewrite E1 in H2. subst st'.
    rewrite (IH Sr E2).
    destruct (run p Running r) as [o1 s1]. destruct (run p Running l2) as [o2 s2]. cbn [fst snd].
    now rewrite app_assoc.
Qed.

(* an unserialisable result kills the loop: the hypothesis cannot be dropped *)
Lemma unserialisable_kills p id m h r : wf_proto p = true ->
  lookup (p_table p) m = Some h ->
  run p Running ((Req id m, HRet false) :: r) = ([], Dead).
Proof.
  intros W L. cbn [run]. rewrite (handle_req_known p id m h _ W L).
  rewrite run_not_running by discriminate. reflexivity.
Qed.
