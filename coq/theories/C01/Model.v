(* C01/Model.v -- executable semantics of the dispatcher described by a proto_desc, over
   an arbitrary handler oracle.  Definitions only. *)
From Coq Require Import Bool.
From FV Require Import C01.Syntax.
Local Open Scope string_scope.
Local Open Scope bool_scope.

Inductive msg := Req (id : N) (meth : string) | Notif (meth : string).
(* what the handler body did: returned (a serialisable value or not), raised
   JSONRPC2Error(code), raised another Exception *)
Inductive hres := HRet (serialisable : bool) | HRpc (code : Z) | HExn.
Inductive out := OResp (id : N) | OErr (id : N) (code : Z).
Inductive status := Running | Exited | Dead.

Fixpoint lookup (t : list (string * string)) (m : string) : option string :=
  match t with
  | [] => None
  | (k, v) :: r => if String.eqb k m then Some v else lookup r m
  end.

Definition exit_handler := "serve_exit".

Definition meth_of (m : msg) : string := match m with Req _ s => s | Notif s => s end.

Definition is_exit (p : proto_desc) (m : msg) : bool :=
  match lookup (p_table p) (meth_of m) with Some h => String.eqb h exit_handler | None => false end.

(* the behaviour that counts: unknown methods run the default handler *)
Definition effective (p : proto_desc) (m : msg) (b : hres) : option hres :=
  match lookup (p_table p) (meth_of m) with
  | Some _ => Some b
  | None => match p_default_code p with Some c => Some (HRpc c) | None => None end
  end.

Definition matches (c : exc_class) (b : hres) : bool :=
  match c, b with
  | ExcRpc, HRpc _ => true
  | ExcAny, HRpc _ => true
  | ExcAny, HExn => true
  | _, _ => false
  end.

(* first except clause that matches; None = the exception escapes to run *)
Fixpoint catch (cl : list exc_clause) (b : hres) : option Z :=
  match cl with
  | [] => None
  | ExcUnknown _ :: _ => None
  | ExcClause c s :: r =>
    if matches c b then
      match s, b with
      | CodeConst z, _ => Some z
      | CodeFromExc, HRpc code => Some code
      | CodeFromExc, _ => None                (* e.code on a plain exception: AttributeError escapes *)
      end
    else catch r b
  end.

Definition after (p : proto_desc) (m : msg) : status := if is_exit p m then Exited else Running.

Definition handle (p : proto_desc) (m : msg) (b : hres) : list out * status :=
  match effective p m b with
  | None => ([], Dead)
  | Some eb =>
    match m with
    | Notif _ =>
      match p_notif p with
      | NotifTryCatchAll => ([], after p m)
      | NotifUnknown => ([], Dead)
      end
    | Req id _ =>
      match eb with
      | HRet ser =>
        if p_else_resp p then (if ser then ([OResp id], after p m) else ([], Dead))
        else ([], after p m)
      | _ => match catch (p_excs p) eb with
             | Some code => ([OErr id code], after p m)
             | None => ([], Dead)
             end
      end
    end
  end.

(* LangServer.run over the messages read from the connection, then EOF *)
Fixpoint run (p : proto_desc) (st : status) (l : list (msg * hres)) : list out * status :=
  match l with
  | [] => ([], st)
  | (m, b) :: r =>
    match st with
    | Running =>
      let '(o, st') := handle p m b in
      let (o2, st2) := run p st' r in ((o ++ o2)%list, st2)
    | _ => ([], st)
    end
  end.

(* ---- well-formedness of a generated description: exactly the dispatcher the theorems are about *)
Fixpoint str_list_eqb (a b : list string) : bool :=
  match a, b with
  | [], [] => true
  | x :: a', y :: b' => String.eqb x y && str_list_eqb a' b'
  | _, _ => false
  end.

Definition clause_eqb (a b : exc_clause) : bool :=
  match a, b with
  | ExcClause ExcRpc CodeFromExc, ExcClause ExcRpc CodeFromExc => true
  | ExcClause ExcAny (CodeConst x), ExcClause ExcAny (CodeConst y) => Z.eqb x y
  | _, _ => false
  end.

Definition excs_ok (l : list exc_clause) : bool :=
  match l with
  | [a; b] => clause_eqb a (ExcClause ExcRpc CodeFromExc) && clause_eqb b (ExcClause ExcAny (CodeConst (-32603)))
  | _ => false
  end.

Definition running_ok (l : list (string * bool)) : bool :=
  match l with
  | [(a, true); (b, false)] => String.eqb a "__init__" && String.eqb b exit_handler
  | _ => false
  end.

(* the LSP surface that must be dispatched *)
Definition required_methods : list string :=
  ["initialize"; "textDocument/documentSymbol"; "textDocument/completion"; "textDocument/signatureHelp";
   "textDocument/definition"; "textDocument/references"; "textDocument/documentHighlight"; "textDocument/hover";
   "textDocument/implementation"; "textDocument/rename"; "textDocument/didOpen"; "textDocument/didSave";
   "textDocument/didClose"; "textDocument/didChange"; "textDocument/codeAction"; "initialized";
   "workspace/didChangeWatchedFiles"; "workspace/didChangeConfiguration"; "workspace/symbol";
   "$/cancelRequest"; "$/setTrace"; "shutdown"; "exit"].

Definition exit_only_for_exit (t : list (string * string)) : bool :=
  forallb (fun kv => negb (String.eqb (snd kv) exit_handler) || String.eqb (fst kv) "exit") t.

(* values json.dumps rejects (iterators, sets, dict views) may only be kept by the
   configuration code, never by a request handler or its helpers *)
Definition lazy_allowed (x : string * string) : bool :=
  existsb (String.eqb (fst x))
    ["_load_config_file_dirs"; "_load_config_file_preproc"; "_resolve_globs_in_paths"; "_add_source_dirs"]
  || (String.eqb (fst x) "get_all_references" && String.eqb (snd x) "file_set = self.workspace.items()").

Definition wf_proto (p : proto_desc) : bool :=
  match p_unknown p with [] => true | _ => false end
  && match p_notif p with NotifTryCatchAll => true | _ => false end
  && excs_ok (p_excs p)
  && p_else_resp p
  && p_run_ok p
  && str_list_eqb (p_resp_writers p) ["handle"]
  && str_list_eqb (p_handle_callers p) ["run"]
  && match p_default_code p with Some c => Z.eqb c (-32601) | None => false end
  && running_ok (p_running p)
  && match lookup (p_table p) "exit" with Some h => String.eqb h exit_handler | None => false end
  && exit_only_for_exit (p_table p)
  && forallb lazy_allowed (p_lazy p)
  && forallb (fun m => match lookup (p_table p) m with Some _ => true | None => false end) required_methods.

(* ---- specification side *)
Fixpoint upto_exit (p : proto_desc) (l : list (msg * hres)) : list (msg * hres) :=
  match l with
  | [] => []
  | x :: r => if is_exit p (fst x) then [x] else x :: upto_exit p r
  end.

Definition req_ids (l : list (msg * hres)) : list N :=
  flat_map (fun x => match fst x with Req id _ => [id] | Notif _ => [] end) l.

Definition out_id (o : out) : N := match o with OResp i => i | OErr i _ => i end.

Definition serialisable (l : list (msg * hres)) : Prop :=
  Forall (fun x => snd x <> HRet false) l.
