(* C01/Syntax.v -- the shape of LangServer.run/handle as read by the translator
   (harness/translators/proto.py -> Gen/GenProto.v). *)
From Coq Require Export ZArith String List.
Export ListNotations.

Inductive exc_class := ExcRpc | ExcAny.          (* except JSONRPC2Error / except Exception *)
Inductive code_src := CodeFromExc | CodeConst (z : Z).
Inductive exc_clause := ExcClause (c : exc_class) (s : code_src) | ExcUnknown (src : string).
Inductive notif_shape := NotifTryCatchAll | NotifUnknown.

Record proto_desc := {
  p_table : list (string * string);      (* method name -> handler name, in source order *)
  p_default : string;                    (* handler used for unknown methods *)
  p_default_code : option Z;             (* it raises JSONRPC2Error(code) *)
  p_notif : notif_shape;                 (* `if "id" not in request: try: handler(request) except: ...; return` *)
  p_excs : list exc_clause;              (* except clauses around `resp = handler(request)` *)
  p_else_resp : bool;                    (* else: self.conn.write_response(request["id"], resp) *)
  p_run_ok : bool;                       (* while self.running: try: read; handle  except EOFError: break  except Exception: ...; break *)
  p_resp_writers : list string;          (* methods of LangServer that call conn.write_response / write_error *)
  p_running : list (string * bool);      (* assignments to self.running *)
  p_handle_callers : list string;
  p_lazy : list (string * string);        (* (method, source): iterators/sets/dict views that are stored or returned *)
  p_unknown : list string                (* anything the translator did not recognise *)
}.
