(* C01/Props.v -- property theorems only.  Statement of C01: exactly one response per
   request, carrying its id, result or error (unknown method: -32601, handler failure:
   -32603), no response for a notification, arrival order, serving until `exit`.
   The theorems hold for EVERY dispatcher description satisfying wf_proto and every handler
   oracle; the description of the current source is Gen/GenProto.v (regenerated each run),
   and `generated_dispatcher_wf` is the per-run obligation.  Tie: harness/props/c01.py. *)
From Coq Require Import Bool.
From FV Require Import C01.Syntax C01.Model C01.Proofs Gen.GenProto.
Local Open Scope string_scope.
Local Open Scope bool_scope.

(* per-run obligation on the dispatcher read from fortls/langserver.py *)
Theorem generated_dispatcher_wf : wf_proto proto = true.
Proof. vm_compute. reflexivity. Qed.
Print Assumptions generated_dispatcher_wf.

(* responses = requests, in arrival order, one each, up to and including the first exit;
   notifications contribute nothing *)
Theorem responses_are_requests : forall p l,
  wf_proto p = true -> serialisable l ->
  map out_id (fst (run p Running l)) = req_ids (upto_exit p l).
Proof. exact run_ids. Qed.
Print Assumptions responses_are_requests.

Theorem notifications_are_silent : forall p m b,
  wf_proto p = true -> fst (handle p (Notif m) b) = [].
Proof. intros p m b W. now rewrite handle_notif. Qed.
Print Assumptions notifications_are_silent.

Theorem unknown_method : forall p id m b,
  wf_proto p = true -> lookup (p_table p) m = None ->
  handle p (Req id m) b = ([OErr id (-32601)], Running).
Proof. exact handle_req_unknown. Qed.
Print Assumptions unknown_method.

Theorem handler_failure : forall p id m h,
  wf_proto p = true -> lookup (p_table p) m = Some h ->
  handle p (Req id m) HExn = ([OErr id (-32603)], after p (Req id m)) /\ after p (Req id m) <> Dead.
Proof.
  intros p id m h W L. split; [now rewrite (handle_req_known p id m h HExn W L)|apply after_not_dead].
Qed.
Print Assumptions handler_failure.

(* the loop is still running after any message sequence without `exit`, and has stopped
   (cleanly) after one with it; it never dies *)
Theorem alive_until_exit : forall p l,
  wf_proto p = true -> serialisable l ->
  snd (run p Running l) = if existsb (fun x => is_exit p (fst x)) l then Exited else Running.
Proof. exact run_status. Qed.
Print Assumptions alive_until_exit.

(* answers come in arrival order: the output for a prefix is a prefix of the output *)
Theorem arrival_order : forall p l1 l2,
  wf_proto p = true -> serialisable l1 ->
  existsb (fun x => is_exit p (fst x)) l1 = false ->
  run p Running (l1 ++ l2)%list = ((fst (run p Running l1) ++ fst (run p Running l2))%list, snd (run p Running l2)).
Proof. exact run_app. Qed.
Print Assumptions arrival_order.

(* only `exit` stops the server: in the generated table serve_exit is reachable from "exit" only *)
Theorem only_exit_exits : forall m, is_exit proto m = true -> meth_of m = "exit".
Proof.
  intros m H. unfold is_exit in H.
  assert (T : forallb (fun kv => negb (String.eqb (snd kv) exit_handler) || String.eqb (fst kv) "exit") (p_table proto) = true)
    by (vm_compute; reflexivity).
  rewrite forallb_forall in T.
  remember (meth_of m) as s. clear Heqs.
  induction (p_table proto) as [|[k v] t IH]; cbn [lookup] in H; [discriminate|].
  destruct (String.eqb k s) eqn:E.
  - apply String.eqb_eq in E. subst k.
    specialize (T (s, v) (or_introl eq_refl)). cbn [fst snd] in T. rewrite H in T. cbn in T.
    now apply String.eqb_eq in T.
  - apply IH; [exact H|]. intros x Hx. apply T. now right.
Qed.
Print Assumptions only_exit_exits.

(* the serialisability hypothesis cannot be dropped: a handler returning a value that
   json.dumps rejects kills the loop (write_response sits outside the try) *)
Theorem C01_refuted_unserialisable : exists l,
  run proto Running l = ([], Dead).
Proof. exists [(Req 1 "shutdown", HRet false)]. vm_compute. reflexivity. Qed.
Print Assumptions C01_refuted_unserialisable.

Example C01_nonvacuous :
  let l := [(Req 1 "initialize", HRet true); (Notif "textDocument/didOpen", HExn);
            (Req 2 "no/such", HRet true); (Req 3 "textDocument/hover", HExn);
            (Req 4 "textDocument/hover", HRpc (-32602)); (Notif "exit", HRet true); (Req 5 "shutdown", HRet true)] in
  serialisable l /\
  run proto Running l = ([OResp 1; OErr 2 (-32601); OErr 3 (-32603); OErr 4 (-32602)], Exited).
Proof.
  cbv zeta. split; [repeat constructor; discriminate|vm_compute; reflexivity].
Qed.
Print Assumptions C01_nonvacuous.
