(* C19/Syntax.v -- what the options translator emits (Gen/GenOptions.v). *)
From Coq Require Export String List.
Export ListNotations.

Inductive okind := KBool | KInt | KStr | KSet | KDict | KOther.
Inductive dflt := SelfAttr (a : string) | Const (src : string).
Inductive wrap := WId | WSet.
Inductive stmt :=
| Load (attr key : string) (d : dflt) (w : wrap)   (* self.attr = [set(] config_dict.get(key, d) [)] *)
| Derived (attr : string) (reads : list string)     (* self.attr = f(self.reads) *)
| Normalise (attr : string)                         (* if isinstance(self.attr, list): self.attr = g(self.attr) *)
| Unknown (src : string).
Inductive cstep := CLoadJson | CValidate | CApply (loader : string) | CUnknown (src : string).
