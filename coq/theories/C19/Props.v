(* C19/Props.v -- property theorems only.  Statement of C19: every option has the same effect
   from the command line or the configuration file; the file wins; an option absent from the
   file keeps its command-line value; a missing/unreadable/invalid file yields one message and
   leaves every option at its command-line value.
   Generic theorems hold for every loader/configuration description satisfying wf; the
   description of the current source is Gen/GenOptions.v (regenerated on every run). *)
From Coq Require Import NArith Bool.
From FV Require Import C19.Syntax C19.Model C19.Proofs Gen.GenOptions.
Local Open Scope string_scope.

Definition generated : cfg := {|
  c_opts := filter (fun o => negb (String.prefix "debug_" (fst o) && negb (String.eqb (fst o) "debug_log"))) cli_options;
  c_loader := flat_map snd loader_table;
  c_steps := cfg_steps;
  c_excepts := cfg_excepts;
  c_missing_msg := cfg_missing_msg |}.

(* ---- per-run obligations on the generated description *)
Theorem generated_cfg_wf : wf_cfg generated = true /\ cfg_unknown = [].
Proof. split; vm_compute; reflexivity. Qed.
Print Assumptions generated_cfg_wf.

Theorem generated_every_option_loaded : every_option_loaded generated = true.
Proof. vm_compute. reflexivity. Qed.
Print Assumptions generated_every_option_loaded.

(* ---- generic theorems *)
(* for all options at once (hence for all pairs): file value if present, else command line *)
Theorem loader_generic : forall l d c a k df w,
  wf_loader l = true -> In (Load a k df w) l ->
  get (load l d c) a = Some (do_wrap w (match get d a with Some v => v | None => getd c a end)).
Proof.
  intros l d c a k df w W Hin. destruct (wf_loader_parts l W) as [H1 [H2 H3]].
  destruct (wf_load_shape l a k df w H1 Hin) as [-> ->]. now apply load_effective.
Qed.
Print Assumptions loader_generic.

(* anything the loader does not assign keeps its command-line value *)
Theorem loader_leaves_rest : forall l d c o,
  ~ In o (assigned_all l) -> get (load l d c) o = get c o.
Proof. exact load_untouched. Qed.
Print Assumptions loader_leaves_rest.

(* derived settings (sync type, source-suffix pattern) follow the effective values *)
Theorem derived_follow_effective : forall l d c a reads,
  wf_loader l = true -> In (Derived a reads) l ->
  get (load l d c) a = Some (VDer a (map (getd (load l d c)) reads)).
Proof.
  intros l d c a reads W Hin. destruct (wf_loader_parts l W) as [H1 [H2 H3]]. now apply derived_fresh.
Qed.
Print Assumptions derived_follow_effective.

(* a missing (explicitly requested), unreadable, syntactically invalid, non-dictionary or
   ill-typed file: exactly one message, every option at its command-line value, no exception *)
Theorem faulty_file_keeps_cli : forall g c f,
  wf_cfg g = true ->
  match f with FAbsentDefault => False | FDict d => validate (c_opts g) d = false | _ => True end ->
  load_config g c f = Some (c, 1).
Proof. exact faulty_keeps_cli. Qed.
Print Assumptions faulty_file_keeps_cli.

Theorem good_file_is_loaded : forall g c d,
  wf_cfg g = true -> validate (c_opts g) d = true ->
  load_config g c (FDict d) = Some (load (c_loader g) d c, 0).
Proof. exact good_file_loads. Qed.
Print Assumptions good_file_is_loaded.

(* the two together, for the generated description: what initialize sees for option o *)
Theorem effective_option : forall c d a k df w,
  validate (c_opts generated) d = true ->
  In (Load a k df w) (flat_map snd loader_table) ->
  exists e, load_config generated c (FDict d) = Some (e, 0) /\
            get e a = Some (do_wrap w (match get d a with Some v => v | None => getd c a end)).
Proof.
  intros c d a k df w Hv Hin.
  destruct generated_cfg_wf as [W _].
  exists (load (c_loader generated) d c). split.
  - now apply good_file_loads.
  - apply (loader_generic _ d c a k df w); [|exact Hin].
    now destruct (wf_cfg_steps generated W) as [_ [_ [_ [_ H]]]].
Qed.
Print Assumptions effective_option.

(* what the pinned tree did (loader with a constant fallback) is rejected by wf_loader, and
   such a loader really loses the command-line value *)
Theorem C19_refuted_const_default : exists l d c,
  wf_loader l = false /\ get (load l d c) "pp_defs" <> get c "pp_defs".
Proof.
  exists [Load "pp_defs" "pp_defs" (Const "{}") WId], [("nthreads", V 1 JTInt false)], [("pp_defs", V 2 JTDict false)].
  split; [reflexivity|]. vm_compute. discriminate.
Qed.
Print Assumptions C19_refuted_const_default.

Example C19_nonvacuous :
  let c := [("nthreads", V 1 JTInt false); ("excl_paths", V 2 JTStrList true); ("incremental_sync", V 3 JTBool false)] in
  let d := [("nthreads", V 10 JTInt false); ("incl_suffixes", V 11 JTStrList false)] in
  validate (c_opts generated) d = true /\
  validate (c_opts generated) [("nthreads", V 12 JTStr false)] = false /\
  exists e, load_config generated c (FDict d) = Some (e, 0) /\
    get e "nthreads" = Some (V 10 JTInt false) /\ get e "excl_paths" = Some (V 2 JTStrList true) /\
    get e "incl_suffixes" = Some (V 11 JTStrList true) /\
    get e "sync_type" = Some (VDer "sync_type" [V 3 JTBool false]).
Proof. cbv zeta. split; [reflexivity|]. split; [reflexivity|]. eexists. split; [vm_compute; reflexivity|]. vm_compute. repeat split. Qed.
Print Assumptions C19_nonvacuous.
