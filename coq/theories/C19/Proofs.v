(* C19/Proofs.v *)
From Coq Require Import NArith Bool.
From FV Require Import C19.Syntax C19.Model.
Local Open Scope string_scope.

Lemma mem_In x l : mem x l = true <-> In x l.
Proof.
  induction l as [|y l IH]; cbn [mem In]; [split; [discriminate|tauto]|].
  rewrite orb_true_iff, IH, String.eqb_eq. split; intros [H|H]; auto.
Qed.

Lemma nodup_NoDup l : nodup l = true -> NoDup l.
Proof.
  induction l as [|x l IH]; cbn [nodup]; intro H; [constructor|].
  apply andb_true_iff in H as [H1 H2]. constructor; [|auto].
  intro Hin. apply mem_In in Hin. rewrite Hin in H1. discriminate.
Qed.

Lemma get_set_same e k v : get (set e k v) k = Some v.
Proof. unfold set. cbn [get]. now rewrite String.eqb_refl. Qed.

Lemma get_set_other e k k' v : k <> k' -> get (set e k v) k' = get e k'.
Proof. intro H. unfold set. cbn [get]. apply String.eqb_neq in H. now rewrite H. Qed.

Lemma get_apply_other d e s o : ~ In o (assigned s) -> get (apply_stmt d e s) o = get e o.
Proof.
  destruct s as [a k df w|a reads|a|src]; cbn [assigned apply_stmt In]; intro H; try reflexivity;
    apply get_set_other; tauto.
Qed.

Lemma get_load_other l : forall d e o, ~ In o (assigned_all l) -> get (fold_left (apply_stmt d) l e) o = get e o.
Proof.
  induction l as [|s l IH]; intros d e o H; [reflexivity|].
  cbn [fold_left]. unfold assigned_all in H. cbn [flat_map] in H. rewrite in_app_iff in H.
  rewrite IH by (unfold assigned_all; tauto). apply get_apply_other. tauto.
Qed.

Lemma getd_load_other l d e o : ~ In o (assigned_all l) -> getd (fold_left (apply_stmt d) l e) o = getd e o.
Proof. intro H. unfold getd. now rewrite get_load_other. Qed.

Lemma assigned_all_app a b : assigned_all (a ++ b) = (assigned_all a ++ assigned_all b)%list.
Proof. unfold assigned_all. apply flat_map_app. Qed.

(* every well-formed Load statement: the file's value if the file has the key, else the
   command-line value, whatever the other statements are *)
Lemma load_effective l d c o w :
  nodup (assigned_all l) = true ->
  In (Load o o (SelfAttr o) w) l ->
  get (load l d c) o = Some (do_wrap w (match get d o with Some v => v | None => getd c o end)).
Proof.
  intros Hn Hin. apply in_split in Hin as [l1 [l2 ->]].
  apply nodup_NoDup in Hn. rewrite assigned_all_app in Hn.
  change (assigned_all (Load o o (SelfAttr o) w :: l2)) with (o :: assigned_all l2) in Hn.
  apply NoDup_remove_2 in Hn. rewrite in_app_iff in Hn.
  unfold load. rewrite fold_left_app. cbn [fold_left].
  rewrite get_load_other by tauto.
  cbn [apply_stmt]. rewrite get_set_same. rewrite getd_load_other by tauto. reflexivity.
Qed.

Lemma load_untouched l d c o : ~ In o (assigned_all l) -> get (load l d c) o = get c o.
Proof. apply get_load_other. Qed.

(* order_ok: what has been assigned so far *)
Lemma order_ok_split l1 : forall seen s l2, order_ok seen (l1 ++ s :: l2) = true ->
  exists seen', order_ok seen' (s :: l2) = true /\
    (forall x, mem x seen' = true -> In x (assigned_all l1) \/ mem x seen = true).
Proof.
  induction l1 as [|t l1 IH]; intros seen s l2 H.
  - exists seen. split; [exact H|]. intros x Hx. now right.
  - cbn [app] in H. destruct t as [a k df w|a reads|a|src]; cbn [order_ok] in H.
    + destruct (IH _ _ _ H) as [seen' [H1 H2]]. exists seen'. split; [exact H1|].
      intros x Hx. destruct (H2 x Hx) as [Hi|Hm].
      * left. unfold assigned_all. cbn [flat_map assigned]. right. exact Hi.
      * cbn [mem] in Hm. apply orb_true_iff in Hm as [Hm|Hm]; [|now right].
        apply String.eqb_eq in Hm. subst. left. unfold assigned_all. cbn [flat_map assigned app]. now left.
    + apply andb_true_iff in H as [_ H]. destruct (IH _ _ _ H) as [seen' [H1 H2]]. exists seen'. split; [exact H1|].
      intros x Hx. destruct (H2 x Hx) as [Hi|Hm].
      * left. unfold assigned_all. cbn [flat_map assigned]. right. exact Hi.
      * cbn [mem] in Hm. apply orb_true_iff in Hm as [Hm|Hm]; [|now right].
        apply String.eqb_eq in Hm. subst. left. unfold assigned_all. cbn [flat_map assigned app]. now left.
    + apply andb_true_iff in H as [_ H]. destruct (IH _ _ _ H) as [seen' [H1 H2]]. exists seen'. split; [exact H1|].
      intros x Hx. destruct (H2 x Hx) as [Hi|Hm]; [left|now right].
      unfold assigned_all. cbn [flat_map assigned app]. exact Hi.
    + discriminate.
Qed.

(* a derived attribute is a function of the final, effective values of the options it reads *)
Lemma derived_fresh l d c a reads :
  nodup (assigned_all l) = true -> order_ok [] l = true ->
  In (Derived a reads) l ->
  get (load l d c) a = Some (VDer a (map (getd (load l d c)) reads)).
Proof.
  intros Hn Ho Hin. apply in_split in Hin as [l1 [l2 ->]].
  destruct (order_ok_split l1 [] _ _ Ho) as [seen' [H1 H2]].
  cbn [order_ok] in H1. apply andb_true_iff in H1 as [Hr _].
  apply nodup_NoDup in Hn. rewrite assigned_all_app in Hn.
  change (assigned_all (Derived a reads :: l2)) with (a :: assigned_all l2) in Hn.
  pose proof (NoDup_remove_2 _ _ _ Hn) as Ha. rewrite in_app_iff in Ha.
  unfold load. rewrite fold_left_app. cbn [fold_left].
  rewrite get_load_other by tauto.
  cbn [apply_stmt]. rewrite get_set_same. f_equal. f_equal.
  apply map_ext_in. intros x Hx.
  rewrite forallb_forall in Hr. specialize (Hr x Hx).
  destruct (H2 x Hr) as [Hx1|Hx1]; [|discriminate].
  (* x was assigned in l1, hence neither a nor anything in l2 *)
  assert (Hxa : a <> x).
  { intro E. subst. tauto. }
  assert (Hx2 : ~ In x (assigned_all l2)).
  { intro Hx2. apply NoDup_remove_1 in Hn. 
    assert (Hd : NoDup (assigned_all l1 ++ assigned_all l2)) by exact Hn.
    clear - Hd Hx1 Hx2. induction (assigned_all l1) as [|y t IH]; [inversion Hx1|].
    cbn [app] in Hd. inversion Hd as [|? ? Hy Hd']; subst. destruct Hx1 as [->|Hx1].
    - apply Hy. apply in_app_iff. now right.
    - now apply IH. }
  symmetry. rewrite (getd_load_other l2) by exact Hx2.
  cbn [apply_stmt]. unfold getd. now rewrite get_set_other.
Qed.

(* ---- the configuration file as a whole *)
Lemma wf_cfg_steps g : wf_cfg g = true ->
  (exists r, c_steps g = CLoadJson :: CValidate :: r) /\ catches g "ValueError" = true /\
  catches g "OSError" = true /\ catches g "RecursionError" = true /\ c_missing_msg g = true /\ wf_loader (c_loader g) = true.
Proof.
  unfold wf_cfg. intro H. repeat (apply andb_true_iff in H; destruct H as [H ?]).
  repeat split; try assumption.
  destruct (c_steps g) as [|[| | |] [|[| | |] r]]; try discriminate. now exists r.
Qed.

Lemma faulty_keeps_cli g c f : wf_cfg g = true ->
  match f with
  | FAbsentDefault => False
  | FDict d => validate (c_opts g) d = false
  | _ => True
  end ->
  load_config g c f = Some (c, 1).
Proof.
  intros W Hf. destruct (wf_cfg_steps g W) as [[r Hs] [Hv [Ho [Hr [Hm _]]]]].
  destruct f; cbn [load_config]; try contradiction; rewrite ?Hs, ?Hv, ?Ho, ?Hr, ?Hm; try reflexivity.
  now rewrite Hf.
Qed.

Lemma good_file_loads g c d : wf_cfg g = true -> validate (c_opts g) d = true ->
  load_config g c (FDict d) = Some (load (c_loader g) d c, 0).
Proof.
  intros W Hv. destruct (wf_cfg_steps g W) as [[r Hs] _].
  cbn [load_config]. now rewrite Hs, Hv.
Qed.

Lemma wf_loader_parts l : wf_loader l = true ->
  forallb stmt_ok l = true /\ nodup (assigned_all l) = true /\ order_ok [] l = true.
Proof. unfold wf_loader. intro H. repeat (apply andb_true_iff in H; destruct H as [H ?]). auto. Qed.

Lemma wf_load_shape l a k df w : forallb stmt_ok l = true -> In (Load a k df w) l -> k = a /\ df = SelfAttr a.
Proof.
  intros H Hin. rewrite forallb_forall in H. specialize (H _ Hin). cbn [stmt_ok] in H.
  destruct df as [b|]; [|discriminate]. apply andb_true_iff in H as [H1 H2].
  apply String.eqb_eq in H1, H2. subst. auto.
Qed.
