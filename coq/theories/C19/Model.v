(* C19/Model.v -- model of LangServer._load_config_file and its loaders, generic in the
   statement list.  Definitions only. *)
From Coq Require Import NArith Bool.
From FV Require Import C19.Syntax.
Local Open Scope string_scope.

(* JSON type of a configuration value, as _check_config_file distinguishes them *)
Inductive jtype := JTBool | JTInt | JTStr | JTStrList | JTList | JTDict | JTNull | JTFloat.

(* option values are opaque: an identity, the JSON/Python type, and whether set() was applied.
   VDer is a value computed from other options (sync_type, the suffix regex). *)
Inductive value :=
| V (id : N) (ty : jtype) (is_set : bool)
| VDer (attr : string) (args : list value)
| VConst (src : string).

Definition to_set (v : value) : value :=
  match v with V i t _ => V i t true | _ => v end.
Definition do_wrap (w : wrap) (v : value) : value := match w with WId => v | WSet => to_set v end.

Definition env := list (string * value).
Fixpoint get (e : env) (k : string) : option value :=
  match e with [] => None | (k', v) :: r => if String.eqb k' k then Some v else get r k end.
Definition set (e : env) (k : string) (v : value) : env := (k, v) :: e.

Definition getd (e : env) (k : string) : value :=
  match get e k with Some v => v | None => VConst "<unset>" end.

Definition apply_stmt (d : env) (e : env) (s : stmt) : env :=
  match s with
  | Load attr key df w =>
    let dv := match df with SelfAttr a => getd e a | Const c => VConst c end in
    set e attr (do_wrap w (match get d key with Some v => v | None => dv end))
  | Derived attr reads => set e attr (VDer attr (map (getd e) reads))
  | Normalise _ => e
  | Unknown _ => e
  end.

Definition load (stmts : list stmt) (d : env) (c : env) : env := fold_left (apply_stmt d) stmts c.

(* ---- well-formedness of a loader *)
Definition assigned (s : stmt) : list string :=
  match s with Load a _ _ _ => [a] | Derived a _ => [a] | _ => [] end.
Definition assigned_all (l : list stmt) : list string := flat_map assigned l.

Fixpoint mem (x : string) (l : list string) : bool :=
  match l with [] => false | y :: r => String.eqb x y || mem x r end.
Fixpoint nodup (l : list string) : bool :=
  match l with [] => true | x :: r => negb (mem x r) && nodup r end.

Definition stmt_ok (s : stmt) : bool :=
  match s with
  | Load attr key (SelfAttr a) _ => String.eqb attr key && String.eqb attr a
  | Load _ _ (Const _) _ => false
  | Derived _ _ => true
  | Normalise _ => true
  | Unknown _ => false
  end.

(* a derived value must be computed after the options it reads have been loaded, and those
   must not be loaded again afterwards; Normalise must follow the load of its attribute *)
Fixpoint order_ok (seen : list string) (l : list stmt) : bool :=
  match l with
  | [] => true
  | Derived a reads :: r => forallb (fun x => mem x seen) reads && order_ok (a :: seen) r
  | Load a _ _ _ :: r => order_ok (a :: seen) r
  | Normalise a :: r => mem a seen && order_ok seen r
  | Unknown _ :: r => false
  end.

Definition wf_loader (l : list stmt) : bool :=
  forallb stmt_ok l && nodup (assigned_all l) && order_ok [] l.

(* ---- the whole of _load_config_file *)
Inductive jfile :=
| FAbsentDefault      (* no configuration file, none requested explicitly *)
| FAbsentExplicit     (* --config x, x does not exist *)
| FUnreadable         (* OSError on open/read *)
| FSyntaxError        (* json5 raises ValueError *)
| FTooDeep            (* json5 raises RecursionError: a file nested too deeply *)
| FNotDict            (* top-level value is not an object *)
| FDict (d : env).

Definition kind_accepts (k : okind) (t : jtype) : bool :=
  match k, t with
  | KBool, JTBool => true
  | KInt, JTInt => true
  | KStr, JTStr => true
  | KSet, JTStrList => true
  | KDict, (JTDict | JTList | JTStrList) => true
  | KOther, _ => true
  | _, _ => false
  end.

Fixpoint kind_of (opts : list (string * okind)) (k : string) : option okind :=
  match opts with [] => None | (k', x) :: r => if String.eqb k' k then Some x else kind_of r k end.

(* _check_config_file: every key that names an option must carry a value of its type *)
Definition validate (opts : list (string * okind)) (d : env) : bool :=
  forallb (fun kv => match kind_of opts (fst kv), snd kv with
                     | Some k, V _ t _ => kind_accepts k t
                     | _, _ => true
                     end) d.

Record cfg := {
  c_opts : list (string * okind);
  c_loader : list stmt;               (* the loaders concatenated in call order *)
  c_steps : list cstep;
  c_excepts : list (list string * bool);
  c_missing_msg : bool
}.

Definition catches (g : cfg) (cls : string) : bool :=
  existsb (fun e => mem cls (fst e) && snd e) (c_excepts g).

(* returns the option environment after initialize's call and the number of messages;
   None = an exception escapes (initialize answers InternalError) *)
Definition load_config (g : cfg) (c : env) (f : jfile) : option (env * nat) :=
  match f with
  | FAbsentDefault => Some (c, 0)
  | FAbsentExplicit => Some (c, if c_missing_msg g then 1 else 0)
  | FUnreadable => if catches g "OSError" then Some (c, 1) else None
  | FSyntaxError => if catches g "ValueError" then Some (c, 1) else None
  | FTooDeep => if catches g "RecursionError" then Some (c, 1) else None
  | FNotDict =>
    (* with a validating step first the ValueError is raised before any option changes *)
    match c_steps g with
    | CLoadJson :: CValidate :: _ => if catches g "ValueError" then Some (c, 1) else None
    | _ => None                          (* 'list' object has no attribute 'get' *)
    end
  | FDict d =>
    match c_steps g with
    | CLoadJson :: CValidate :: _ =>
      if validate (c_opts g) d then Some (load (c_loader g) d c, 0)
      else if catches g "ValueError" then Some (c, 1) else None
    | _ => Some (load (c_loader g) d c, 0)
    end
  end.

Fixpoint steps_apply_only (l : list cstep) : bool :=
  match l with [] => true | CApply _ :: r => steps_apply_only r | _ => false end.

Definition wf_cfg (g : cfg) : bool :=
  match c_steps g with
  | CLoadJson :: CValidate :: r => steps_apply_only r
  | _ => false
  end
  && catches g "ValueError" && catches g "OSError" && catches g "RecursionError" && c_missing_msg g
  && wf_loader (c_loader g).

(* options that may legitimately have no loader *)
Definition unloaded_ok (o : string) : bool :=
  String.eqb o "config" || String.eqb o "preserve_keyword_order" || String.eqb o "variable_hover"
  || String.prefix "debug_" o && negb (String.eqb o "debug_log").

Definition loads (l : list stmt) (o : string) : bool :=
  existsb (fun s => match s with Load a _ _ _ => String.eqb a o | _ => false end) l.

Definition every_option_loaded (g : cfg) : bool :=
  forallb (fun ok => loads (c_loader g) (fst ok) || unloaded_ok (fst ok)) (c_opts g)
  && forallb (fun s => match s with Load a _ _ _ => match kind_of (c_opts g) a with Some _ => true | None => false end | _ => true end)
             (c_loader g).
