(* C15/Props.v -- property C15, the part carried by theorems: the merged start-up index does not depend on the order in
   which files are enumerated, and equals the index built by opening the files one by one.  Over the workspace model of
   C10 (trace-validated by the C10 check).  Statements only. *)
From Coq Require Import List Arith Bool.
Import ListNotations.
From FV Require Import C10.Model C10.Proofs C15.Proofs.

(* any two enumerations of the same set of files (any order, repetitions allowed) give the same index, when unit names are
   unique; since didOpen is the same transition as the start-up load, this is also "start on an empty directory and open
   the files one at a time in any order" *)
Theorem startup_order_irrelevant d ps1 ps2 :
  disk_unique d -> (forall p, In p ps1 <-> In p ps2) -> same_view (load d ps1) (load d ps2).
Proof. exact (order_irrelevant d ps1 ps2). Qed.
Print Assumptions startup_order_irrelevant.

(* and that index is the expected one: each listed file that exists, parsed from its text; each unit owned by its file *)
Theorem startup_index_spec d ps : disk_unique d ->
  (forall p, option_map buf (lookup p (files (load d ps))) = if in_dec Nat.eq_dec p ps then lookup p d else None) /\
  (forall k p, lookup k (objtree (load d ps)) = Some p <-> In p ps /\ exists t, lookup p d = Some t /\ In k (t_units t)).
Proof. exact (load_spec d ps). Qed.
Print Assumptions startup_index_spec.

(* without the premise the index depends on the order: the owner of a duplicated unit is the file merged last *)
Theorem C15_refuted_duplicate_unit :
  let d : disk := [(1, TX [10] 0); (2, TX [10] 1)] in
  lookup 10 (objtree (load d [1; 2])) = Some 2 /\ lookup 10 (objtree (load d [2; 1])) = Some 1.
Proof. vm_compute. split; reflexivity. Qed.
Print Assumptions C15_refuted_duplicate_unit.

Example C15_nonvacuous :
  let d : disk := [(1, TX [10] 0); (2, TX [20; 21] 1); (3, TX [30] 2)] in
  map (fun k => lookup k (objtree (load d [3; 1; 2]))) [10; 20; 21; 30; 40] = [Some 1; Some 2; Some 2; Some 3; None] /\
  map (fun k => lookup k (objtree (load d [2; 2; 3; 1]))) [10; 20; 21; 30; 40] = [Some 1; Some 2; Some 2; Some 3; None].
Proof. vm_compute. split; reflexivity. Qed.
Print Assumptions C15_nonvacuous.
