(* C15/Proofs.v -- the start-up merge over the C10 workspace model *)
From Coq Require Import List Arith Bool Lia.
Import ListNotations.
From FV Require Import C10.Model C10.Proofs.

(* workspace_init on a directory listing ps (any order, repetitions allowed); didOpen one by one is the same function *)
Definition load (d : disk) (ps : list path) : st := fst (run (ST [] [], d) (map Save ps)).

(* the premise of the property: top-level unit names are unique in the workspace *)
Definition disk_unique (d : disk) : Prop :=
  forall p1 p2 t1 t2 k, lookup p1 d = Some t1 -> lookup p2 d = Some t2 -> In k (t_units t1) -> In k (t_units t2) -> p1 = p2.

Lemma ok_saves d : disk_unique d -> forall ps s, loaded d s -> ok_history (s, d) (map Save ps).
Proof.
  intros Hu ps. induction ps as [|p r IH]; intros s HL; cbn [map ok_history]; [exact I|]. split.
  - cbn. destruct (lookup p d) as [t|] eqn:Ed; [|exact I].
    intros p' f' k Hn Ef Hk Hk'. destruct (HL p' f' Ef) as [t' [Et' ->]]. cbn in Hk'.
    apply Hn. exact (Hu p' p t' t k Et' Ed Hk' Hk).
  - destruct (save_loaded d s p HL) as [Hd [HL' _]].
    destruct (step (s, d) (Save p)) as [s' d'] eqn:E. cbn [fst snd] in *. subst d'. apply IH. exact HL'.
Qed.

Lemma loaded_empty d : loaded d (ST [] []).
Proof. intros p f H. discriminate. Qed.

Lemma load_inv d ps : disk_unique d -> Inv (load d ps).
Proof. intro Hu. unfold load. apply run_inv; [apply inv_empty|apply ok_saves; [exact Hu|apply loaded_empty]]. Qed.

Lemma load_files d ps p :
  lookup p (files (load d ps)) = if in_dec Nat.eq_dec p ps then option_map (fun t => FR t (Some t)) (lookup p d) else None.
Proof.
  unfold load. destruct (saves_loaded d ps (ST [] []) (loaded_empty d)) as [_ [HL [Hin Hout]]]. cbn zeta in *.
  destruct (in_dec Nat.eq_dec p ps) as [Hi|Hn].
  - destruct (lookup p d) as [t|] eqn:Ed; cbn [option_map]; [now apply Hin|].
    destruct (lookup p (files (fst (run (ST [] [], d) (map Save ps))))) as [f|] eqn:Ef; [|reflexivity].
    destruct (HL p f Ef) as [t [Et _]]. congruence.
  - rewrite Hout by assumption. reflexivity.
Qed.

Theorem order_irrelevant d ps1 ps2 : disk_unique d -> (forall p, In p ps1 <-> In p ps2) -> same_view (load d ps1) (load d ps2).
Proof.
  intros Hu Hsame. apply same_buffers_same_view; [now apply load_inv|now apply load_inv|].
  intro p. rewrite !load_files.
  destruct (in_dec Nat.eq_dec p ps1) as [H1|H1]; destruct (in_dec Nat.eq_dec p ps2) as [H2|H2]; try reflexivity; exfalso.
  - apply H2. now apply Hsame.
  - apply H1. now apply Hsame.
Qed.

(* the index is exactly: every listed file that exists, parsed from its disk text; every unit name owned by its file *)
Theorem load_spec d ps : disk_unique d ->
  (forall p, option_map buf (lookup p (files (load d ps))) = if in_dec Nat.eq_dec p ps then lookup p d else None) /\
  (forall k p, lookup k (objtree (load d ps)) = Some p <-> In p ps /\ exists t, lookup p d = Some t /\ In k (t_units t)).
Proof.
  intro Hu. split.
  - intro p. rewrite load_files. destruct (in_dec Nat.eq_dec p ps); [|reflexivity]. destruct (lookup p d); reflexivity.
  - intros k p. destruct (load_inv d ps Hu) as [Ho _]. rewrite (Ho k p). split.
    + intros [f [Ef Hk]]. rewrite load_files in Ef. destruct (in_dec Nat.eq_dec p ps) as [Hi|]; [|discriminate].
      destruct (lookup p d) as [t|] eqn:Ed; [|discriminate]. cbn in Ef. inversion Ef; subst f. cbn in Hk. eauto.
    + intros [Hi [t [Ed Hk]]]. exists (FR t (Some t)). rewrite load_files. destruct (in_dec Nat.eq_dec p ps); [|contradiction].
      rewrite Ed. cbn. auto.
Qed.
