(* C09/Props.v -- property C09 (the part a theorem can carry): every coordinate the server derives from a word search
   addresses an existing place.  Statements only; proofs in C09/Proofs.v. *)
From Coq Require Import ZArith String.
From FV Require Import Base.Str Base.Regex Base.RegexFacts Gen.GenRegex C09.Model C09.Proofs.

(* find_word_in_line, for every line and word: a hit is a span of the line, of the word's length, spelling the word *)
Theorem word_span_in_line line w i j : find_word line w = (i, j) -> (0 <= i)%Z ->
  (0 <= i <= j)%Z /\ (j <= Z.of_nat (length line))%Z /\ (j - i = Z.of_nat (length w))%Z /\ sub line (Z.to_nat i, Z.to_nat j) = w.
Proof. exact (find_word_hit line w i j). Qed.
Print Assumptions word_span_in_line.

(* every match of every compiled pattern on every line lies inside the line (generic; used by the reference scan) *)
Theorem every_match_in_line ci line r : Forall (fun x => fst (fst x) <= snd (fst x) <= length line) (finditer ci line r).
Proof.
  pose proof (chain_bounds line 0 _ (finditer_chain ci line r)) as H.
  eapply Forall_impl; [|exact H]. cbn. intros x [_ Hx]. exact Hx.
Qed.
Print Assumptions every_match_in_line.

(* find_word_in_code_line: a hit lies inside the gathered line it reports *)
Theorem code_line_hit_valid cur back fwd bf ff word w rg :
  find_in_code_line cur back fwd bf ff word = (w, rg) -> (0 <= fst rg)%Z ->
  exists l, gathered cur back fwd w = Some l /\ (0 <= fst rg <= snd rg)%Z /\ (snd rg <= Z.of_nat (length l))%Z.
Proof. exact (code_line_hit_in_gathered cur back fwd bf ff word w rg). Qed.
Print Assumptions code_line_hit_valid.

(* _create_ref_link and Diagnostic.build: whatever the object's name and line, hit or miss, the location produced lies in
   the document, provided the gathered lines are views (never longer) of the document lines at the reported indices *)
Theorem link_and_diagnostic_ranges_valid doc ln cur back fwd bf ff word w rg r :
  views_ok doc ln cur back fwd ->
  find_in_code_line cur back fwd bf ff word = (w, rg) ->
  (exists L, nth_error doc ln = Some L) ->
  link_range (line_of ln w) rg = Some r -> in_doc doc r.
Proof. exact (link_range_in_doc doc ln cur back fwd bf ff word w rg r). Qed.
Print Assumptions link_and_diagnostic_ranges_valid.

(* range_json returns an ordered range whenever it is asked for one *)
Theorem range_json_keeps_order sl sc el ec : (match el with Some e => sl <= e | None => True end) ->
  (match el, ec with Some (S e), Some c => sl < S e \/ sc <= c | _, Some c => sc <= c | _, None => True end) ->
  let '((a, b), (c, d)) := range_json sl sc el ec in a < c \/ (a = c /\ b <= d).
Proof. exact (range_json_ordered sl sc el ec). Qed.
Print Assumptions range_json_keeps_order.

(* the falsy-zero rule: an end column 0 is replaced by the start column.  Harmless at the call sites of the pinned
   tree (those that name an end line pass start column 0), it would address column 4 of a shorter line here *)
Theorem C09_refuted_falsy_zero :
  range_json 2 4 (Some 3) (Some 0) = ((2, 4), (3, 4)) /\
  ~ in_doc [s2l "aaaaaa"; s2l "bbbbbb"; s2l "cccccc"; s2l "dd"] (range_json 2 4 (Some 3) (Some 0)).
Proof.
  split; [reflexivity|]. intros [ls [le [H1 [H2 [H3 [H4 H5]]]]]]. cbn in H2. inversion H2; subst le. cbn in H4. lia.
Qed.
Print Assumptions C09_refuted_falsy_zero.

Example C09_nonvacuous :
  find_word (s2l "call foo(x, foo2)") (s2l "foo2") = (12, 16)%Z /\
  find_word (s2l "call foo(x)") (s2l "bar") = (-1, 2)%Z /\
  find_in_code_line (Some (s2l "integer :: a, &")) [] [s2l "  b, &"; s2l ""; s2l "  c"] false true (s2l "C") = (Fwd 2, (2, 3)%Z) /\
  link_range (line_of 4 (Fwd 2)) (2, 3)%Z = Some ((7, 2), (7, 3)).
Proof. vm_compute. repeat split. Qed.
Print Assumptions C09_nonvacuous.
