(* C09/Proofs.v *)
From Coq Require Import ZArith ZifyBool Lia.
From FV Require Import Base.Str Base.Regex Base.RegexFacts Gen.GenRegex C09.Model.

Lemma sub_length s a b : a <= b <= length s -> length (sub s (a, b)) = b - a.
Proof. intro H. unfold sub. cbn [fst snd]. rewrite firstn_length, skipn_length. lia. Qed.

(* a hit of find_word is a span of the line whose text is the word *)
Lemma find_word_hit line w i j : find_word line w = (i, j) -> (0 <= i)%Z ->
  (0 <= i <= j)%Z /\ (j <= Z.of_nat (length line))%Z /\ (j - i = Z.of_nat (length w))%Z /\
  sub line (Z.to_nat i, Z.to_nat j) = w.
Proof.
  unfold find_word. intros H Hi.
  destruct (find _ _) as [[a b]|] eqn:Ef; cbn [fst] in H; inversion H; subst; [|lia].
  apply find_some in Ef as [Hin Heq]. apply str_eqb_eq in Heq.
  apply in_map_iff in Hin as [[[a' b'] cp] [E Hin]]. cbn in E. inversion E; subst a' b'.
  pose proof (chain_bounds line 0 _ (finditer_chain (p_ci P_WORD) line (p_re P_WORD))) as Hb.
  rewrite Forall_forall in Hb. specialize (Hb _ Hin). cbn in Hb.
  assert (Hl : length w = b - a) by (rewrite <- Heq; apply sub_length; lia).
  repeat split; try lia.
  replace (Z.to_nat (Z.of_nat a)) with a by lia.
  replace (Z.to_nat (Z.of_nat a + Z.of_nat (length w))) with b by lia. exact Heq.
Qed.

Lemma find_word_miss line w : (fst (find_word line w) < 0)%Z \/ (0 <= fst (find_word line w))%Z.
Proof. lia. Qed.

Lemma lower_length s : length (lower s) = length s.
Proof. apply map_length. Qed.

Lemma first_hit_spec ls w : forall i0 i rg, first_hit ls w i0 = Some (i, rg) ->
  exists l, nth_error ls (i - i0) = Some l /\ i0 <= i /\ rg = find_word (lower l) w /\ (0 <= fst rg)%Z.
Proof.
  induction ls as [|l r IH]; intros i0 i rg H; cbn [first_hit] in H; [discriminate|].
  destruct (0 <=? fst (find_word (lower l) w))%Z eqn:E.
  - apply Z.leb_le in E. inversion H; subst. exists l. rewrite Nat.sub_diag. cbn. repeat split; auto.
  - apply IH in H as [l' [Hn [Hle [Hr Hp]]]]. exists l'. replace (i - i0) with (S (i - S i0)) by lia. cbn. repeat split; auto. lia.
Qed.

(* the gathered line that was hit *)
Definition gathered (cur : option str) (back fwd : list str) (w : where_) : option str :=
  match w with Here => cur | Back i => nth_error back i | Fwd i => nth_error fwd i end.

Theorem code_line_hit_in_gathered cur back fwd bf ff word w rg :
  find_in_code_line cur back fwd bf ff word = (w, rg) -> (0 <= fst rg)%Z ->
  exists l, gathered cur back fwd w = Some l /\ (0 <= fst rg <= snd rg)%Z /\ (snd rg <= Z.of_nat (length l))%Z.
Proof.
  unfold find_in_code_line. intros H Hp.
  set (r0 := match cur with Some c => find_word (lower c) (lower word) | None => ((-1)%Z, (-1)%Z) end) in *.
  destruct (0 <=? fst r0)%Z eqn:E0.
  - inversion H; subst w rg. destruct cur as [c|]; [|cbn in Hp; lia]. exists c. split; [reflexivity|].
    destruct (find_word (lower c) (lower word)) as [i j] eqn:Ef. subst r0.
    destruct (find_word_hit _ _ _ _ Ef Hp) as [H1 [H2 _]]. rewrite lower_length in H2. cbn [fst snd] in *. lia.
  - destruct (if bf then first_hit back (lower word) 0 else None) as [[i rg']|] eqn:Eb.
    + inversion H; subst w rg. destruct bf; [|discriminate].
      apply first_hit_spec in Eb as [l [Hn [_ [Hr Hpp]]]]. rewrite Nat.sub_0_r in Hn. exists l. split; [exact Hn|].
      destruct rg' as [a b]. symmetry in Hr. destruct (find_word_hit _ _ _ _ Hr Hpp) as [H1 [H2 _]]. rewrite lower_length in H2. cbn [fst snd] in *. lia.
    + destruct (if ff then first_hit fwd (lower word) 0 else None) as [[i rg']|] eqn:Efw.
      * inversion H; subst w rg. destruct ff; [|discriminate].
        apply first_hit_spec in Efw as [l [Hn [_ [Hr Hpp]]]]. rewrite Nat.sub_0_r in Hn. exists l. split; [exact Hn|].
        destruct rg' as [a b]. symmetry in Hr. destruct (find_word_hit _ _ _ _ Hr Hpp) as [H1 [H2 _]]. rewrite lower_length in H2. cbn [fst snd] in *. lia.
      * inversion H; subst. lia.
Qed.

(* the lines get_code_line hands over are views of document lines: never longer than the document line at the index
   find_word_in_code_line reports for them *)
Definition views_ok (doc : list str) (ln : nat) (cur : option str) (back fwd : list str) : Prop :=
  (forall c, cur = Some c -> exists L, nth_error doc ln = Some L /\ length c <= length L) /\
  (forall i l, nth_error back i = Some l -> S i <= ln /\ exists L, nth_error doc (ln - S i) = Some L /\ length l <= length L) /\
  (forall i l, nth_error fwd i = Some l -> exists L, nth_error doc (ln + S i) = Some L /\ length l <= length L).

Theorem link_range_in_doc doc ln cur back fwd bf ff word w rg r :
  views_ok doc ln cur back fwd ->
  find_in_code_line cur back fwd bf ff word = (w, rg) ->
  (exists L, nth_error doc ln = Some L) ->
  link_range (line_of ln w) rg = Some r -> in_doc doc r.
Proof.
  intros [Vc [Vb Vf]] H [L0 HL0] Hr. unfold link_range in Hr.
  destruct (line_of ln w <? 0)%Z eqn:El; [discriminate|].
  destruct (fst rg <? 0)%Z eqn:Em.
  - (* a miss: (0,0) on the line reported; a miss is reported on the current line *)
    inversion Hr; subst r. clear Hr.
    assert (w = Here).
    { unfold find_in_code_line in H.
      destruct (0 <=? fst _)%Z; [inversion H; reflexivity|].
      destruct (if bf then _ else None) as [[i rg']|] eqn:Eb.
      - inversion H; subst. destruct bf; [|discriminate]. apply first_hit_spec in Eb as [_ [_ [_ [_ Hp]]]]. lia.
      - destruct (if ff then _ else None) as [[i rg']|] eqn:Ef.
        + inversion H; subst. destruct ff; [|discriminate]. apply first_hit_spec in Ef as [_ [_ [_ [_ Hp]]]]. lia.
        + inversion H; reflexivity. }
    subst w. cbn [line_of]. rewrite Nat2Z.id. unfold range_json, in_doc, falsy_or.
    exists L0, L0. destruct ln; cbn; repeat split; auto; lia.
  - inversion Hr; subst r. clear Hr.
    destruct (code_line_hit_in_gathered _ _ _ _ _ _ _ _ H ltac:(lia)) as [l [Hg [H1 H2]]].
    assert (Hdoc : exists L, nth_error doc (Z.to_nat (line_of ln w)) = Some L /\ length l <= length L).
    { destruct w as [|i|i]; cbn [gathered line_of] in *.
      - rewrite Nat2Z.id. apply Vc. exact Hg.
      - destruct (Vb i l Hg) as [Hle [L [HL Hlen]]]. exists L. split; [|exact Hlen]. replace (Z.to_nat (Z.of_nat ln - Z.of_nat (S i))) with (ln - S i) by lia. exact HL.
      - destruct (Vf i l Hg) as [L [HL Hlen]]. exists L. rewrite Nat2Z.id. auto. }
    destruct Hdoc as [L [HL Hlen]].
    unfold range_json, in_doc. set (n := Z.to_nat (line_of ln w)) in *.
    assert (Hf1 : falsy_or (Some n) n = n) by (destruct n; reflexivity).
    rewrite Hf1. exists L, L. repeat split; auto; try lia.
    + unfold falsy_or. destruct (Z.to_nat (snd rg)) eqn:E; lia.
    + right. split; [reflexivity|]. unfold falsy_or. destruct (Z.to_nat (snd rg)) eqn:E; lia.
Qed.

(* range_json keeps start <= end whenever it is asked for an end that is not before the start *)
Lemma range_json_ordered sl sc el ec : (match el with Some e => sl <= e | None => True end) ->
  (match el, ec with
   | Some (S e), Some c => sl < S e \/ sc <= c
   | _, Some c => sc <= c
   | _, None => True end) ->
  let '((a, b), (c, d)) := range_json sl sc el ec in a < c \/ (a = c /\ b <= d).
Proof.
  unfold range_json, falsy_or. intros H1 H2.
  destruct el as [[|e]|]; destruct ec as [[|c]|]; cbn; try lia.
Qed.
