(* C09/Model.v -- where returned coordinates come from: find_word_in_line (helper_functions.py),
   find_word_in_code_line (parser.py), range_json/diagnostic_json (json_templates.py),
   Diagnostic.build (diagnostics.py), _create_ref_link (langserver.py).  Definitions only. *)
From Coq Require Import ZArith.
From FV Require Import Base.Str Base.Regex Gen.GenRegex.

Definition sub (s : str) (ab : nat * nat) : str := firstn (snd ab - fst ab) (skipn (fst ab) s).

(* Range(i, i + len(word)), i = start of the first WORD match that equals the word, else -1 *)
Definition find_word (line word : str) : Z * Z :=
  let spans := map (fun m => fst m) (pfinditer P_WORD line) in
  let i := match find (fun ab => str_eqb (sub line ab) word) spans with
           | Some ab => Z.of_nat (fst ab)
           | None => (-1)%Z
           end in
  (i, (i + Z.of_nat (length word))%Z).

Definition lower (s : str) : str := map to_lower s.

Fixpoint first_hit (ls : list str) (w : str) (i : nat) : option (nat * (Z * Z)) :=
  match ls with
  | [] => None
  | l :: r => let rg := find_word (lower l) w in
              if (0 <=? fst rg)%Z then Some (i, rg) else first_hit r w (S i)
  end.

Inductive where_ := Here | Back (i : nat) | Fwd (i : nat).

(* find_word_in_code_line after get_code_line returned (back, cur, fwd); back is given in the order it is
   scanned (nearest line first).  Returns which gathered line was hit and the range. *)
Definition find_in_code_line (cur : option str) (back fwd : list str) (bflag fflag : bool) (word : str)
  : where_ * (Z * Z) :=
  let w := lower word in
  let r0 := match cur with Some c => find_word (lower c) w | None => ((-1)%Z, (-1)%Z) end in
  if (0 <=? fst r0)%Z then (Here, r0)
  else
    match (if bflag then first_hit back w 0 else None) with
    | Some (i, rg) => (Back i, rg)
    | None =>
      match (if fflag then first_hit fwd w 0 else None) with
      | Some (i, rg) => (Fwd i, rg)
      | None => (Here, r0)          (* a miss: start < 0 (the end column of a miss is not used by any caller) *)
      end
    end.

Definition where_eqb (a b : where_) : bool :=
  match a, b with Here, Here => true | Back i, Back j => i =? j | Fwd i, Fwd j => i =? j | _, _ => false end.

Definition line_of (ln : nat) (w : where_) : Z :=
  match w with Here => Z.of_nat ln | Back i => (Z.of_nat ln - Z.of_nat (S i))%Z | Fwd i => Z.of_nat (ln + S i) end.

(* range_json: `eln if eln else sln`, `ech if ech else sch` -- None and 0 are both falsy *)
Definition falsy_or (x : option nat) (d : nat) : nat := match x with Some (S n) => S n | _ => d end.
Definition range_json (sln sch : nat) (eln ech : option nat) : (nat * nat) * (nat * nat) :=
  ((sln, sch), (falsy_or eln sln, falsy_or ech sch)).

(* Diagnostic.build / _create_ref_link: word found -> its columns, else (0, 0); one line *)
Definition link_range (line : Z) (rg : Z * Z) : option ((nat * nat) * (nat * nat)) :=
  if (line <? 0)%Z then None
  else
    let '(sc, ec) := if (fst rg <? 0)%Z then (0, 0) else (Z.to_nat (fst rg), Z.to_nat (snd rg)) in
    Some (range_json (Z.to_nat line) sc (Some (Z.to_nat line)) (Some ec)).

Definition span_eqb (a b : Z * Z) : bool := (fst a =? fst b)%Z && (snd a =? snd b)%Z.
Definition range_eqb (a b : (nat * nat) * (nat * nat)) : bool :=
  (fst (fst a) =? fst (fst b)) && (snd (fst a) =? snd (fst b)) && (fst (snd a) =? fst (snd b)) && (snd (snd a) =? snd (snd b)).

(* validity of a range in a document *)
Definition in_doc (doc : list str) (r : (nat * nat) * (nat * nat)) : Prop :=
  let '((sl, sc), (el, ec)) := r in
  exists ls le, nth_error doc sl = Some ls /\ nth_error doc el = Some le /\ sc <= length ls /\ ec <= length le /\
                (sl < el \/ (sl = el /\ sc <= ec)).
