(* C08/Proofs.v -- lockstep simulation between the two-stack conditional machine of
   preprocess_file (Shared/PP.v istep) and the reference frame-stack preprocessor (rstep). *)
From Coq Require Import ZArith Lia Bool.
From FV Require Import Base.Str Shared.CondExpr Shared.PP.

Definition isNone {A} (x : option A) : bool := match x with None => true | Some _ => false end.

(* level-wise relation between pp_stack / pp_stack_group and the reference frames *)
Fixpoint rel (Sk : list (option nat)) (G : list (nat * bool)) (F : list frame) {struct Sk} : Prop :=
  match Sk, F with
  | [], [] => G = []
  | x :: Sk', f :: F' =>
    f_act f = isNone x /\ (f_act f = true -> f_taken f = true) /\ (f_else f = true -> f_taken f = true) /\
    match G with
    | (d, seen) :: G' =>
      if d =? S (length Sk') then (f_else f = false -> f_taken f = seen) /\ rel Sk' G' F'
      else d < S (length Sk') /\ (f_else f = false -> f_taken f = isNone x) /\ rel Sk' G F'
    | [] => (f_else f = false -> f_taken f = isNone x) /\ rel Sk' [] F'
    end
  | _, _ => False
  end.

Lemma rel_length Sk : forall G F, rel Sk G F -> length Sk = length F.
Proof.
  induction Sk as [|x Sk IH]; intros G [|f F] H; cbn [rel] in H; try contradiction; [reflexivity|].
  destruct H as [_ [_ [_ H]]]. cbn [length]. f_equal.
  destruct G as [|[d seen] G'].
  - destruct H as [_ H]. eapply IH; eauto.
  - destruct (d =? S (length Sk)); [destruct H as [_ H]|destruct H as [_ [_ H]]]; eapply IH; eauto.
Qed.

Lemma rel_active Sk : forall G F, rel Sk G F -> all_active Sk = ractive F.
Proof.
  induction Sk as [|x Sk IH]; intros G [|f F] H; cbn [rel] in H; try contradiction; [reflexivity|].
  destruct H as [Ha [_ [_ H]]]. cbn [all_active ractive forallb]. fold (all_active Sk). fold (ractive F).
  assert (E : all_active Sk = ractive F).
  { destruct G as [|[d seen] G'].
    - destruct H as [_ H]. eapply IH; eauto.
    - destruct (d =? S (length Sk)); [destruct H as [_ H]|destruct H as [_ [_ H]]]; eapply IH; eauto. }
  rewrite E, Ha. destruct x; reflexivity.
Qed.

(* a group never sits above the stack *)
Lemma rel_group_bound Sk : forall G F d seen, rel Sk ((d, seen) :: G) F -> d <= length Sk.
Proof.
  induction Sk as [|x Sk IH]; intros G [|f F] d seen H; cbn [rel] in H; try contradiction; [discriminate|].
  destruct H as [_ [_ [_ H]]]. cbn [length].
  destruct (d =? S (length Sk)) eqn:E; [apply Nat.eqb_eq in E; lia|]. destruct H as [H _]. lia.
Qed.

(* what a new #if may sit on: every existing group is below the new level *)
Lemma rel_push Sk G F x f :
  rel Sk G F -> f_act f = isNone x -> f_taken f = isNone x -> f_else f = false ->
  rel (x :: Sk) G (f :: F).
Proof.
  intros H Ha Ht He. cbn [rel]. repeat split.
  - exact Ha.
  - intro E. rewrite Ht, <- Ha. exact E.
  - intro E. congruence.
  - destruct G as [|[d seen] G'].
    + split; [intros _; exact Ht|exact H].
    + pose proof (rel_group_bound _ _ _ _ _ H) as Hb.
      destruct (d =? S (length Sk)) eqn:E; [apply Nat.eqb_eq in E; lia|].
      repeat split; [lia|intros _; exact Ht|exact H].
Qed.

(* ------------------------------------------------------------------ coverage of a line *)
Definition open_covb (Sk : list (option nat)) (m : nat) : bool :=
  existsb (fun x => match x with Some s => s <=? m | None => false end) Sk.
Definition covb (s : ist) (m : nat) : bool := in_skips (i_skips s) m || open_covb (i_stack s) m.

Definition wf_step (st : list bool) (t : tok) : option (list bool) :=
  match t with
  | TIf _ | TIfdef _ | TIfndef _ => Some (false :: st)
  | TElif _ => match st with false :: _ => Some st | _ => None end
  | TElse => match st with false :: st' => Some (true :: st') | _ => None end
  | TEndif => match st with _ :: st' => Some st' | [] => None end
  | _ => Some st
  end.

Lemma wf_run_step st t r : wf_run st (t :: r) = match wf_step st t with Some st' => wf_run st' r | None => false end.
Proof. destruct t; cbn [wf_run wf_step]; try reflexivity; destruct st as [|[|] st']; reflexivity. Qed.

Record Inv (P : nat -> Prop) (n : nat) (st : list bool) (s : ist) (r : rst) : Prop := {
  inv_tab : i_tab s = r_tab r;
  inv_rel : rel (i_stack s) (i_groups s) (r_frames r);
  inv_else : map f_else (r_frames r) = st;
  inv_defs : i_defines s = r_deflines r;
  inv_open : forall x, In (Some x) (i_stack s) -> x < n;
  inv_closed : forall a b, In (a, b) (i_skips s) -> b < n;
  inv_inact : forall m, In m (r_inactive r) -> m < n;
  inv_cov : forall m, m < n -> P m -> (In m (r_inactive r) <-> covb s m = true)
}.

Lemma in_skips_none K n : (forall a b, In (a, b) K -> b < n) -> in_skips K n = false.
Proof.
  intro H. unfold in_skips. destruct (existsb _ K) eqn:E; [|reflexivity].
  apply existsb_exists in E as [[a b] [Hin Hc]]. cbn in Hc. specialize (H a b Hin).
  apply andb_true_iff in Hc as [_ Hc]. apply Nat.leb_le in Hc. lia.
Qed.

Lemma open_covb_now Sk n : (forall x, In (Some x) Sk -> x < n) -> open_covb Sk n = negb (all_active Sk).
Proof.
  induction Sk as [|x Sk IH]; intro H; [reflexivity|].
  cbn [open_covb all_active existsb forallb]. fold (open_covb Sk n). fold (all_active Sk).
  rewrite IH by (intros y Hy; apply H; now right).
  destruct x as [s|]; [|reflexivity].
  assert (s < n) by (apply H; now left).
  replace (s <=? n) with true by (symmetry; apply Nat.leb_le; lia). reflexivity.
Qed.

Ltac inv_fields H :=
  destruct H as [Htab Hrel Helse Hdefs Hopen Hclosed Hinact Hcov].

(* coverage of earlier lines is not changed by what happens at line n *)
Lemma cov_old_push K Sk x n m : m < n -> (x = None \/ x = Some n) ->
  in_skips K m || open_covb (x :: Sk) m = in_skips K m || open_covb Sk m.
Proof.
  intros Hm [->| ->]; cbn [open_covb existsb]; [reflexivity|].
  replace (n <=? m) with false by (symmetry; apply Nat.leb_gt; lia). reflexivity.
Qed.

Lemma cov_old_close K Sk st n m : m < n ->
  in_skips ((st, n) :: K) m || open_covb Sk m = in_skips K m || open_covb (Some st :: Sk) m.
Proof.
  intro Hm. unfold in_skips. cbn [existsb fst snd open_covb].
  replace (m <=? n) with true by (symmetry; apply Nat.leb_le; lia).
  rewrite andb_true_r. destruct (st <=? m); cbn; [now rewrite orb_true_r|reflexivity].
Qed.

Section Step.
Variable P : nat -> Prop.

Lemma step_inv n st st' s r t :
  Inv P n st s r -> wf_step st t = Some st' -> (P n -> t = TText) ->
  Inv P (S n) st' (istep n s t) (rstep n r t).
Proof.
  intros I W HP. inv_fields I.
  assert (Hact : all_active (i_stack s) = ractive (r_frames r)) by (eapply rel_active; eauto).
  assert (old_cov : t <> TText -> forall s', (forall m, m < n -> covb s' m = covb s m) ->
            forall m, m < S n -> P m -> (In m (r_inactive r) <-> covb s' m = true)).
  { intros Hnt s' Hs m Hm Pm. destruct (Nat.eq_dec m n) as [->|Hne].
    - specialize (HP Pm). contradiction.
    - rewrite Hs by lia. apply Hcov; [lia|exact Pm]. }
  destruct t as [c|x|x|c| | |x v|x|].
  - (* #if *)
    cbn [wf_step] in W. inversion W; subst st'. clear W.
    cbn [istep rstep]. unfold open_if. rewrite Htab.
    set (b := truth (r_tab r) c).
    constructor; cbn [i_tab i_stack i_groups i_skips i_defines r_frames r_tab r_inactive r_deflines].
    + reflexivity.
    + apply rel_push; [exact Hrel| | |]; destruct b; reflexivity.
    + cbn [map f_else]. now rewrite Helse.
    + exact Hdefs.
    + intros y [Hy|Hy]; [destruct b; [discriminate|inversion Hy; lia]|specialize (Hopen y Hy); lia].
    + intros a b0 Hin. specialize (Hclosed a b0 Hin). lia.
    + intros m Hm. specialize (Hinact m Hm). lia.
    + apply (old_cov ltac:(discriminate) (IS ((if b then None else Some n) :: i_stack s) (i_groups s) (i_skips s) (i_defines s) (r_tab r))).
      intros m Hm. unfold covb. cbn [i_skips i_stack]. apply (cov_old_push (i_skips s) (i_stack s) _ n m Hm). destruct b; auto.
  - (* #ifdef *)
    cbn [wf_step] in W. inversion W; subst st'. clear W.
    cbn [istep rstep]. unfold open_if. rewrite Htab.
    set (b := tdefined (r_tab r) x).
    constructor; cbn [i_tab i_stack i_groups i_skips i_defines r_frames r_tab r_inactive r_deflines].
    + reflexivity.
    + apply rel_push; [exact Hrel| | |]; destruct b; reflexivity.
    + cbn [map f_else]. now rewrite Helse.
    + exact Hdefs.
    + intros y [Hy|Hy]; [destruct b; [discriminate|inversion Hy; lia]|specialize (Hopen y Hy); lia].
    + intros a b0 Hin. specialize (Hclosed a b0 Hin). lia.
    + intros m Hm. specialize (Hinact m Hm). lia.
    + apply (old_cov ltac:(discriminate) (IS ((if b then None else Some n) :: i_stack s) (i_groups s) (i_skips s) (i_defines s) (r_tab r))).
      intros m Hm. unfold covb. cbn [i_skips i_stack]. apply (cov_old_push (i_skips s) (i_stack s) _ n m Hm). destruct b; auto.
  - (* #ifndef *)
    cbn [wf_step] in W. inversion W; subst st'. clear W.
    cbn [istep rstep]. unfold open_if. rewrite Htab.
    set (b := negb (tdefined (r_tab r) x)).
    constructor; cbn [i_tab i_stack i_groups i_skips i_defines r_frames r_tab r_inactive r_deflines].
    + reflexivity.
    + apply rel_push; [exact Hrel| | |]; destruct b; reflexivity.
    + cbn [map f_else]. now rewrite Helse.
    + exact Hdefs.
    + intros y [Hy|Hy]; [destruct b; [discriminate|inversion Hy; lia]|specialize (Hopen y Hy); lia].
    + intros a b0 Hin. specialize (Hclosed a b0 Hin). lia.
    + intros m Hm. specialize (Hinact m Hm). lia.
    + apply (old_cov ltac:(discriminate) (IS ((if b then None else Some n) :: i_stack s) (i_groups s) (i_skips s) (i_defines s) (r_tab r))).
      intros m Hm. unfold covb. cbn [i_skips i_stack]. apply (cov_old_push (i_skips s) (i_stack s) _ n m Hm). destruct b; auto.
  - (* #elif *)
    cbn [wf_step] in W. destruct st as [|[|] st0]; try discriminate. inversion W; subst st'. clear W.
    destruct r as [F rtab rina rdef]. cbn [r_frames r_tab r_inactive r_deflines] in *.
    destruct F as [|f F]; [discriminate|]. cbn [map] in Helse. inversion Helse as [[He Hst]]. clear Helse.
    destruct s as [Sk G K D itab]. cbn [i_stack i_groups i_skips i_defines i_tab] in *. subst itab.
    destruct Sk as [|top rest]; [cbn [rel] in Hrel; contradiction|].
    cbn [rel] in Hrel. destruct Hrel as [Ha [Hat [Het Hg]]].
    cbn [istep rstep i_stack i_groups i_skips i_defines i_tab r_frames r_tab r_inactive r_deflines].
    unfold group_here. cbn [i_groups i_stack length].
    (* determine the group of this level *)
    assert (Hcase : exists seen G',
              (match (match G with (d, sn) :: _ => if d =? S (length rest) then Some sn else None | [] => None end) with
               | Some _ => G | None => (S (length rest), isNone top) :: G end) = (S (length rest), seen) :: G'
              /\ f_taken f = seen /\ rel rest G' F).
    { destruct G as [|[d sn] G0].
      - exists (isNone top), []. destruct Hg as [Hg1 Hg2]. repeat split; auto.
      - destruct (d =? S (length rest)) eqn:E.
        + apply Nat.eqb_eq in E. subst d. exists sn, G0. destruct Hg as [Hg1 Hg2]. repeat split; auto.
        + exists (isNone top), ((d, sn) :: G0). destruct Hg as [Hd [Hg1 Hg2]]. repeat split; auto. }
    destruct Hcase as [seen [G' [HG [Hts Hrest]]]].
    replace (match top with None => true | Some _ => false end) with (isNone top) by reflexivity.
    rewrite HG. clear HG.
    destruct seen.
    + (* an earlier branch was taken: this one is inactive *)
      rewrite Hts.
      constructor; cbn [i_tab i_stack i_groups i_skips i_defines r_frames r_tab r_inactive r_deflines].
      * reflexivity.
      * cbn [rel]. rewrite Nat.eqb_refl. cbn [f_act f_taken f_else].
        repeat split; try (intros; congruence); try assumption. destruct top; reflexivity.
      * cbn; rewrite ?He, ?Hst; reflexivity.
      * exact Hdefs.
      * intros y [Hy|Hy]; [destruct top as [t0|]; inversion Hy; subst; [assert (y < n) by (apply Hopen; now left); lia|lia]|].
        assert (y < n) by (apply Hopen; now right). lia.
      * intros a b0 Hin. specialize (Hclosed a b0 Hin). lia.
      * intros m Hm. specialize (Hinact m Hm). lia.
      * apply (old_cov ltac:(discriminate) (IS (match top with None => Some n | Some x0 => Some x0 end :: rest) ((S (length rest), true) :: G') K D rtab)).
        intros m Hm. unfold covb. cbn [i_skips i_stack]. destruct top as [t0|]; [reflexivity|].
        cbn [open_covb existsb]. replace (n <=? m) with false by (symmetry; apply Nat.leb_gt; lia). reflexivity.
    + (* no branch taken so far: top is inactive *)
      rewrite Hts.
      assert (Htop : exists t0, top = Some t0).
      { destruct top as [t0|]; [now exists t0|]. cbn in Ha. specialize (Hat Ha). congruence. }
      destruct Htop as [t0 ->].
      destruct (truth rtab c) eqn:Ec.
      * constructor; cbn [i_tab i_stack i_groups i_skips i_defines r_frames r_tab r_inactive r_deflines].
        -- reflexivity.
        -- cbn [rel]. rewrite Nat.eqb_refl. cbn [f_act f_taken f_else isNone]. repeat split; try (intros; congruence); assumption.
        -- cbn; rewrite ?He, ?Hst; reflexivity.
        -- exact Hdefs.
        -- intros y [Hy|Hy]; [discriminate|]. assert (y < n) by (apply Hopen; now right). lia.
        -- intros a b0 [Hin|Hin]; [inversion Hin; lia|specialize (Hclosed a b0 Hin); lia].
        -- intros m Hm. specialize (Hinact m Hm). lia.
        -- apply (old_cov ltac:(discriminate) (IS (None :: rest) ((S (length rest), true) :: G') ((t0, n) :: K) D rtab)).
           intros m Hm. unfold covb. cbn [i_skips i_stack].
           rewrite (cov_old_close K (None :: rest) t0 n m Hm). cbn [open_covb existsb]. reflexivity.
      * constructor; cbn [i_tab i_stack i_groups i_skips i_defines r_frames r_tab r_inactive r_deflines].
        -- reflexivity.
        -- cbn [rel]. rewrite Nat.eqb_refl. cbn [f_act f_taken f_else isNone]. repeat split; try (intros; congruence); assumption.
        -- cbn; rewrite ?He, ?Hst; reflexivity.
        -- exact Hdefs.
        -- intros y Hy. specialize (Hopen y Hy). lia.
        -- intros a b0 Hin. specialize (Hclosed a b0 Hin). lia.
        -- intros m Hm. specialize (Hinact m Hm). lia.
        -- apply (old_cov ltac:(discriminate) (IS (Some t0 :: rest) ((S (length rest), false) :: G') K D rtab)).
           intros m Hm. reflexivity.
  - (* #else *)
    cbn [wf_step] in W. destruct st as [|[|] st0]; try discriminate. inversion W; subst st'. clear W.
    destruct r as [F rtab rina rdef]. cbn [r_frames r_tab r_inactive r_deflines] in *.
    destruct F as [|f F]; [discriminate|]. cbn [map] in Helse. inversion Helse as [[He Hst]]. clear Helse.
    destruct s as [Sk G K D itab]. cbn [i_stack i_groups i_skips i_defines i_tab] in *. subst itab.
    destruct Sk as [|top rest]; [cbn [rel] in Hrel; contradiction|].
    cbn [rel] in Hrel. destruct Hrel as [Ha [Hat [Het Hg]]].
    cbn [istep rstep i_stack i_groups i_skips i_defines i_tab r_frames r_tab r_inactive r_deflines].
    (* after #else nothing depends on the group any more: rebuild rel with f_else = true *)
    assert (Hrebuild : forall x, rel (x :: rest) G (FR true (isNone x) true :: F)).
    { intro x. cbn [rel f_act f_taken f_else]. repeat split; try reflexivity.
      destruct G as [|[d sn] G0].
      - destruct Hg as [_ Hg]. split; [intros; discriminate|exact Hg].
      - destruct (d =? S (length rest)); [destruct Hg as [_ Hg]; split; [intros; discriminate|exact Hg]|].
        destruct Hg as [Hd [_ Hg]]. repeat split; [exact Hd|intros; discriminate|exact Hg]. }
    destruct top as [t0|].
    + (* currently inactive *)
      unfold group_here. cbn [i_groups i_stack length].
      assert (Htk : f_taken f = match G with (d, sn) :: _ => if d =? S (length rest) then sn else false | [] => false end).
      { destruct G as [|[d sn] G0]; [destruct Hg as [Hg _]; now apply Hg|].
        destruct (d =? S (length rest)); [destruct Hg as [Hg _]; now apply Hg|destruct Hg as [_ [Hg _]]; now apply Hg]. }
      destruct G as [|[d sn] G0].
      * (* no group: becomes active *)
        rewrite Htk. cbn [negb].
        constructor; cbn [i_tab i_stack i_groups i_skips i_defines r_frames r_tab r_inactive r_deflines].
        -- reflexivity.
        -- apply (Hrebuild None).
        -- cbn; rewrite ?He, ?Hst; reflexivity.
        -- exact Hdefs.
        -- intros y [Hy|Hy]; [discriminate|]. assert (y < n) by (apply Hopen; now right). lia.
        -- intros a b0 [Hin|Hin]; [inversion Hin; lia|specialize (Hclosed a b0 Hin); lia].
        -- intros m Hm. specialize (Hinact m Hm). lia.
        -- apply (old_cov ltac:(discriminate) (IS (None :: rest) [] ((t0, n) :: K) D rtab)).
           intros m Hm. unfold covb. cbn [i_skips i_stack].
           rewrite (cov_old_close K (None :: rest) t0 n m Hm). reflexivity.
      * destruct (d =? S (length rest)) eqn:E.
        -- destruct sn.
           ++ (* an earlier branch was taken: stays inactive *)
              rewrite Htk. cbn [negb].
              constructor; cbn [i_tab i_stack i_groups i_skips i_defines r_frames r_tab r_inactive r_deflines].
              ** reflexivity.
              ** apply (Hrebuild (Some t0)).
              ** cbn; rewrite ?He, ?Hst; reflexivity.
              ** exact Hdefs.
              ** intros y Hy. specialize (Hopen y Hy). lia.
              ** intros a b0 Hin. specialize (Hclosed a b0 Hin). lia.
              ** intros m Hm. specialize (Hinact m Hm). lia.
              ** apply (old_cov ltac:(discriminate) (IS (Some t0 :: rest) ((d, true) :: G0) K D rtab)). reflexivity.
           ++ rewrite Htk. cbn [negb].
              constructor; cbn [i_tab i_stack i_groups i_skips i_defines r_frames r_tab r_inactive r_deflines].
              ** reflexivity.
              ** apply (Hrebuild None).
              ** cbn; rewrite ?He, ?Hst; reflexivity.
              ** exact Hdefs.
              ** intros y [Hy|Hy]; [discriminate|]. assert (y < n) by (apply Hopen; now right). lia.
              ** intros a b0 [Hin|Hin]; [inversion Hin; lia|specialize (Hclosed a b0 Hin); lia].
              ** intros m Hm. specialize (Hinact m Hm). lia.
              ** apply (old_cov ltac:(discriminate) (IS (None :: rest) ((d, false) :: G0) ((t0, n) :: K) D rtab)).
                 intros m Hm. unfold covb. cbn [i_skips i_stack].
                 rewrite (cov_old_close K (None :: rest) t0 n m Hm). reflexivity.
        -- rewrite Htk. cbn [negb].
           constructor; cbn [i_tab i_stack i_groups i_skips i_defines r_frames r_tab r_inactive r_deflines].
           ++ reflexivity.
           ++ apply (Hrebuild None).
           ++ cbn; rewrite ?He, ?Hst; reflexivity.
           ++ exact Hdefs.
           ++ intros y [Hy|Hy]; [discriminate|]. assert (y < n) by (apply Hopen; now right). lia.
           ++ intros a b0 [Hin|Hin]; [inversion Hin; lia|specialize (Hclosed a b0 Hin); lia].
           ++ intros m Hm. specialize (Hinact m Hm). lia.
           ++ apply (old_cov ltac:(discriminate) (IS (None :: rest) ((d, sn) :: G0) ((t0, n) :: K) D rtab)).
              intros m Hm. unfold covb. cbn [i_skips i_stack].
              rewrite (cov_old_close K (None :: rest) t0 n m Hm). reflexivity.
    + (* currently active, hence taken: becomes inactive *)
      cbn in Ha. rewrite (Hat Ha). cbn [negb].
      constructor; cbn [i_tab i_stack i_groups i_skips i_defines r_frames r_tab r_inactive r_deflines].
      * reflexivity.
      * apply (Hrebuild (Some n)).
      * cbn; rewrite ?He, ?Hst; reflexivity.
      * exact Hdefs.
      * intros y [Hy|Hy]; [inversion Hy; lia|]. assert (y < n) by (apply Hopen; now right). lia.
      * intros a b0 Hin. specialize (Hclosed a b0 Hin). lia.
      * intros m Hm. specialize (Hinact m Hm). lia.
      * apply (old_cov ltac:(discriminate) (IS (Some n :: rest) G K D rtab)).
        intros m Hm. unfold covb. cbn [i_skips i_stack open_covb existsb].
        replace (n <=? m) with false by (symmetry; apply Nat.leb_gt; lia). reflexivity.
  - (* #endif *)
    cbn [wf_step] in W. destruct st as [|e0 st0]; try discriminate. inversion W; subst st'. clear W.
    destruct r as [F rtab rina rdef]. cbn [r_frames r_tab r_inactive r_deflines] in *.
    destruct F as [|f F]; [discriminate|]. cbn [map] in Helse. inversion Helse as [[He Hst]]. clear Helse.
    destruct s as [Sk G K D itab]. cbn [i_stack i_groups i_skips i_defines i_tab] in *. subst itab.
    destruct Sk as [|top rest]; [cbn [rel] in Hrel; contradiction|].
    cbn [rel] in Hrel. destruct Hrel as [Ha [Hat [Het Hg]]].
    cbn [istep rstep i_stack i_groups i_skips i_defines i_tab r_frames r_tab r_inactive r_deflines].
    unfold group_here. cbn [i_groups i_stack length].
    assert (Hrest : rel rest (match (match G with (d, sn) :: _ => if d =? S (length rest) then Some sn else None | [] => None end)
                              with Some _ => tl G | None => G end) F).
    { destruct G as [|[d sn] G0]; [destruct Hg as [_ Hg]; exact Hg|].
      destruct (d =? S (length rest)); [destruct Hg as [_ Hg]|destruct Hg as [_ [_ Hg]]]; exact Hg. }
    destruct top as [t0|].
    + constructor; cbn [i_tab i_stack i_groups i_skips i_defines r_frames r_tab r_inactive r_deflines].
      * reflexivity.
      * exact Hrest.
      * first [exact Hst | reflexivity | congruence].
      * exact Hdefs.
      * intros y Hy. assert (y < n) by (apply Hopen; now right). lia.
      * intros a b0 [Hin|Hin]; [inversion Hin; lia|specialize (Hclosed a b0 Hin); lia].
      * intros m Hm. specialize (Hinact m Hm). lia.
      * eapply (old_cov ltac:(discriminate) (IS rest _ ((t0, n) :: K) D rtab)).
        intros m Hm. unfold covb. cbn [i_skips i_stack]. apply cov_old_close. exact Hm.
    + constructor; cbn [i_tab i_stack i_groups i_skips i_defines r_frames r_tab r_inactive r_deflines].
      * reflexivity.
      * exact Hrest.
      * first [exact Hst | reflexivity | congruence].
      * exact Hdefs.
      * intros y Hy. assert (y < n) by (apply Hopen; now right). lia.
      * intros a b0 Hin. specialize (Hclosed a b0 Hin). lia.
      * intros m Hm. specialize (Hinact m Hm). lia.
      * eapply (old_cov ltac:(discriminate) (IS rest _ K D rtab)).
        intros m Hm. unfold covb. cbn [i_skips i_stack open_covb existsb]. reflexivity.
  - (* #define *)
    cbn [wf_step] in W. inversion W; subst st'. clear W.
    cbn [istep rstep]. rewrite Hact. destruct (ractive (r_frames r)).
    + constructor; cbn [i_tab i_stack i_groups i_skips i_defines r_frames r_tab r_inactive r_deflines]; auto.
      * now rewrite Htab.
      * now rewrite Hdefs.
      * intros y Hy. specialize (Hopen y Hy). lia.
      * intros a b0 Hin. specialize (Hclosed a b0 Hin). lia.
      * intros m Hm. specialize (Hinact m Hm). lia.
      * apply (old_cov ltac:(discriminate)). reflexivity.
    + constructor; auto.
      * intros y Hy. specialize (Hopen y Hy). lia.
      * intros a b0 Hin. specialize (Hclosed a b0 Hin). lia.
      * intros m Hm. specialize (Hinact m Hm). lia.
      * apply (old_cov ltac:(discriminate)). reflexivity.
  - (* #undef *)
    cbn [wf_step] in W. inversion W; subst st'. clear W.
    cbn [istep rstep]. rewrite Hact. destruct (ractive (r_frames r)).
    + constructor; cbn [i_tab i_stack i_groups i_skips i_defines r_frames r_tab r_inactive r_deflines]; auto.
      * now rewrite Htab.
      * now rewrite Hdefs.
      * intros y Hy. specialize (Hopen y Hy). lia.
      * intros a b0 Hin. specialize (Hclosed a b0 Hin). lia.
      * intros m Hm. specialize (Hinact m Hm). lia.
      * apply (old_cov ltac:(discriminate)). reflexivity.
    + constructor; auto.
      * intros y Hy. specialize (Hopen y Hy). lia.
      * intros a b0 Hin. specialize (Hclosed a b0 Hin). lia.
      * intros m Hm. specialize (Hinact m Hm). lia.
      * apply (old_cov ltac:(discriminate)). reflexivity.
  - (* text *)
    cbn [wf_step] in W. inversion W; subst st'. clear W.
    cbn [istep rstep].
    assert (Hnow : covb s n = negb (ractive (r_frames r))).
    { unfold covb. rewrite in_skips_none by exact Hclosed. rewrite open_covb_now by exact Hopen. now rewrite Hact. }
    destruct (ractive (r_frames r)) eqn:Er.
    + constructor; auto.
      * intros y Hy. specialize (Hopen y Hy). lia.
      * intros a b0 Hin. specialize (Hclosed a b0 Hin). lia.
      * intros m Hm. specialize (Hinact m Hm). lia.
      * intros m Hm Pm. destruct (Nat.eq_dec m n) as [->|Hne]; [|apply Hcov; [lia|exact Pm]].
        rewrite Hnow. cbn. split; [intro Hin; specialize (Hinact n Hin); lia|discriminate].
    + constructor; cbn [i_tab i_stack i_groups i_skips i_defines r_frames r_tab r_inactive r_deflines]; auto.
      * intros y Hy. specialize (Hopen y Hy). lia.
      * intros a b0 Hin. specialize (Hclosed a b0 Hin). lia.
      * intros m [Hm|Hm]; [lia|specialize (Hinact m Hm); lia].
      * intros m Hm Pm. destruct (Nat.eq_dec m n) as [->|Hne].
        -- rewrite Hnow. cbn. split; [reflexivity|intros _; now left].
        -- cbn [In]. split.
           ++ intros [E|Hin]; [lia|]. apply Hcov; [lia|exact Pm|exact Hin].
           ++ intro Hc. right. apply Hcov; [lia|exact Pm|exact Hc].
Qed.
End Step.

(* ------------------------------------------------------------------ whole files *)
Definition text_at (l : list tok) (m : nat) : Prop := 1 <= m /\ nth_error l (m - 1) = Some TText.

Lemma run_inv rest : forall pre n st s r,
  n = S (length pre) ->
  Inv (text_at (pre ++ rest)) n st s r -> wf_run st rest = true ->
  Inv (text_at (pre ++ rest)) (n + length rest) [] (irun n s rest) (rrun n r rest).
Proof.
  induction rest as [|t rest IH]; intros pre n st s r Hn I W.
  - cbn [wf_run] in W. destruct st; [|discriminate]. cbn [irun rrun length]. now rewrite Nat.add_0_r.
  - rewrite wf_run_step in W. destruct (wf_step st t) as [st'|] eqn:Ws; [|discriminate].
    cbn [irun rrun length].
    replace (n + S (length rest)) with (S n + length rest) by lia.
    replace (pre ++ t :: rest) with ((pre ++ [t]) ++ rest) in * by (rewrite <- app_assoc; reflexivity).
    apply IH with (st := st'); [rewrite app_length; cbn; lia| |exact W].
    apply step_inv with (st := st); [exact I|exact Ws|].
    intros [_ Hnth]. subst n. replace (S (length pre) - 1) with (length pre) in Hnth by lia.
    rewrite <- app_assoc in Hnth. rewrite nth_error_app2 in Hnth by lia. rewrite Nat.sub_diag in Hnth.
    cbn in Hnth. congruence.
Qed.

Lemma init_inv P t : Inv P 1 [] (iinit t) (rinit t).
Proof.
  constructor; cbn; try reflexivity; try (intros; contradiction).
  intros m Hm. lia.
Qed.

Theorem simulation l t :
  wf_toks l = true ->
  let s := irun 1 (iinit t) l in
  let r := rrun 1 (rinit t) l in
  i_tab s = r_tab r /\ i_defines s = r_deflines r /\ i_stack s = [] /\
  forall m, text_at l m -> (in_skips (i_skips s) m = true <-> In m (r_inactive r)).
Proof.
  intros W s r.
  pose proof (run_inv l [] 1 [] (iinit t) (rinit t) eq_refl (init_inv _ t) W) as I.
  cbn [app] in I. fold s in I. fold r in I. inv_fields I.
  assert (Hs : i_stack s = []).
  { pose proof (rel_length _ _ _ Hrel) as Hl. destruct (r_frames r); [|discriminate].
    destruct (i_stack s); [reflexivity|discriminate]. }
  repeat split; auto.
  - intro Hin. assert (Hm : m < 1 + length l).
    { destruct H as [H1 H2]. assert (m - 1 < length l) by (apply nth_error_Some; congruence). lia. }
    apply (Hcov m Hm H). unfold covb. now rewrite Hin.
  - intro Hin. specialize (Hinact m Hin). apply (Hcov m Hinact H) in Hin.
    unfold covb in Hin. rewrite Hs in Hin. cbn in Hin. now rewrite orb_false_r in Hin.
Qed.
