(* C08/Model.v -- comparison helpers for the correspondence run (harness/props/c08.py). *)
From Coq Require Import ZArith.
From FV Require Import Base.Str Shared.CondExpr Shared.PP.

Definition pair_eqb (a b : nat * nat) : bool := (fst a =? fst b) && (snd a =? snd b).
Definition optz_eqb (a b : option Z) : bool :=
  match a, b with None, None => true | Some x, Some y => Z.eqb x y | _, _ => false end.

Definition table_eqb (t : table) (e : list (str * option Z)) : bool :=
  (length t =? length e) &&
  forallb (fun kv => match tget t (fst kv) with Some v => optz_eqb v (snd kv) | None => false end) e.

Definition chk_pp (init : table) (toks : list tok) (skips : list (nat * nat)) (defines : list nat)
           (tab : list (str * option Z)) : bool :=
  let s := irun 1 (iinit init) toks in
  list_eqb pair_eqb (rev (i_skips s)) skips && list_eqb Nat.eqb (rev (i_defines s)) defines && table_eqb (i_tab s) tab.
