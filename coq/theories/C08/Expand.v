(* C08/Expand.v -- macro uses replaced by their bodies, character for character (preprocess_file, fortls/parsers/internal/parser.py):
   an object-like macro NAME is substituted with the pattern \bNAME\b, the parameters of a function-like macro with
   \b(p1|p2|...)\b in its body.  Both are modelled as one scan that collects maximal runs of word characters and replaces
   the runs found in a table.  Model and proofs; tie: harness/props/c08.py check_expand_model (preprocess_file itself on
   generated definitions and lines). *)
From Coq Require Import Lia.
From FV Require Import Base.Str.

Section Expand.
(* which characters are word characters (\w): the theorems hold for every classification *)
Variable isw : char -> bool.

Definition table := list (str * str).

Fixpoint lookup (w : str) (t : table) : option str :=
  match t with
  | [] => None
  | (k, v) :: r => if str_eqb k w then Some v else lookup w r
  end.

(* the run collected so far (reversed) is complete *)
Definition flush (t : table) (cur : str) : str :=
  match cur with
  | [] => []
  | _ => match lookup (rev cur) t with Some v => v | None => rev cur end
  end.

Fixpoint subst (t : table) (s cur : str) : str :=
  match s with
  | [] => flush t cur
  | c :: r => if isw c then subst t r (c :: cur) else flush t cur ++ c :: subst t r []
  end.

Definition expand (t : table) (line : str) : str := subst t line [].

(* object-like macros are applied one after the other, in the order of the macro table *)
Definition expand_objects (defs : table) (line : str) : str :=
  fold_left (fun l d => expand [d] l) defs line.

(* ---- specification: a line is a sequence of words and separators ---- *)
Inductive tok := W (w : str) | S (c : char).

Definition render_tok (t : tok) : str := match t with W w => w | S c => [c] end.
Definition render (ts : list tok) : str := concat (map render_tok ts).

Definition nonempty (w : str) : bool := match w with [] => false | _ => true end.

(* words are non-empty runs of word characters, never two in a row; separators are single non-word characters *)
Fixpoint wf_toks (after_word : bool) (ts : list tok) : bool :=
  match ts with
  | [] => true
  | W w :: r => negb after_word && nonempty w && forallb isw w && wf_toks true r
  | S c :: r => negb (isw c) && wf_toks false r
  end.

Definition expand_tok (t : table) (x : tok) : str :=
  match x with
  | W w => match lookup w t with Some v => v | None => w end
  | S c => [c]
  end.

Definition expected (t : table) (ts : list tok) : str := concat (map (expand_tok t) ts).

(* ---- proofs ---- *)

Lemma subst_word t w : forall rest cur, forallb isw w = true ->
  subst t (w ++ rest) cur = subst t rest (rev w ++ cur).
Proof.
  induction w as [|c w IH]; intros rest cur H; [reflexivity|].
  simpl in H. apply andb_true_iff in H as [Hc Hw].
  cbn [app subst]. rewrite Hc. rewrite (IH rest (c :: cur) Hw). cbn [rev]. rewrite <- app_assoc. reflexivity.
Qed.

Lemma flush_word t w : nonempty w = true -> flush t (rev w) = match lookup w t with Some v => v | None => w end.
Proof.
  intros H. unfold flush. destruct (rev w) eqn:E.
  - destruct w; [discriminate|]. apply (f_equal (@length char)) in E. rewrite rev_length in E. discriminate.
  - rewrite <- E, rev_involutive. reflexivity.
Qed.

Lemma expand_spec t ts : wf_toks false ts = true -> expand t (render ts) = expected t ts.
Proof.
  unfold expand, render, expected.
  induction ts as [|x r IH]; intros H; [reflexivity|].
  destruct x as [w|c].
  - cbn [wf_toks negb andb] in H. apply andb_true_iff in H as [H Hr]. apply andb_true_iff in H as [Hne Hw].
    cbn [map concat render_tok expand_tok]. rewrite (subst_word t w _ [] Hw), app_nil_r.
    destruct r as [|y r'].
    + cbn [map concat subst]. rewrite app_nil_r. apply flush_word. exact Hne.
    + destruct y as [w'|c']; [simpl in Hr; discriminate|].
      cbn [wf_toks] in Hr. apply andb_true_iff in Hr as [Hc' Hr']. apply negb_true_iff in Hc'.
      cbn [map concat render_tok app subst]. rewrite Hc'. rewrite (flush_word t w Hne).
      f_equal. cbn [expand_tok]. cbn [app]. f_equal.
      assert (Hwf : wf_toks false (S c' :: r') = true) by (cbn [wf_toks]; rewrite Hc'; exact Hr').
      specialize (IH Hwf). cbn [map concat render_tok expand_tok app subst] in IH. rewrite Hc' in IH.
      cbn [flush app] in IH. injection IH as IH. exact IH.
  - cbn [wf_toks] in H. apply andb_true_iff in H as [Hc Hr]. apply negb_true_iff in Hc.
    cbn [map concat render_tok expand_tok app subst]. rewrite Hc. cbn [flush app]. f_equal. apply IH. exact Hr.
Qed.

(* a line in which the macro name is not written as a word of its own is left alone *)
Lemma lookup_single_miss k v w : str_eqb k w = false -> lookup w [(k, v)] = None.
Proof. intros H. simpl. rewrite H. reflexivity. Qed.

Lemma expand_untouched k v ts : wf_toks false ts = true ->
  forallb (fun x => match x with W w => negb (str_eqb k w) | S _ => true end) ts = true ->
  expand [(k, v)] (render ts) = render ts.
Proof.
  intros Hwf Hno. rewrite (expand_spec _ _ Hwf). unfold expected, render. f_equal.
  clear Hwf. induction ts as [|x r IH]; [reflexivity|].
  simpl in Hno. apply andb_true_iff in Hno as [Hx Hr]. cbn [map]. rewrite (IH Hr). f_equal.
  destruct x as [w|c]; [|reflexivity]. apply negb_true_iff in Hx. cbn [expand_tok render_tok]. rewrite (lookup_single_miss _ _ _ Hx). reflexivity.
Qed.

End Expand.

(* the classification used for the differential: ASCII letters, digits and the underscore *)
Definition ascii_word (c : char) : bool := is_alpha c || is_digit c || N.eqb c 95.

Example expand_nonvacuous :
  let ts := [W [121]; S 61; W [77; 88]; S 43; W [77; 88; 95; 122]; S 32; W [120; 77; 88]; S 40; W [77; 88]; S 41]%N in
  wf_toks ascii_word false ts = true /\
  expand ascii_word [([77; 88], [40; 49; 43; 50; 41])]%N (render ts)
  = [121; 61; 40; 49; 43; 50; 41; 43; 77; 88; 95; 122; 32; 120; 77; 88; 40; 40; 49; 43; 50; 41; 41]%N.
Proof. split; vm_compute; reflexivity. Qed.
