(* C08/Args.v -- the arguments of a function-like macro call (substitute_func_macro in preprocess_file,
   fortls/parsers/internal/parser.py): behind the opening parenthesis the text is read up to the closing parenthesis of
   the call; arguments end at commas outside nested parentheses/brackets and outside character literals.  Model and
   proofs; tie: harness/props/c08.py check_expand_model (calls with nested and quoted arguments run through
   preprocess_file). *)
From Coq Require Import Lia.
From FV Require Import Base.Str.
From FV Require C08.Expand.

Definition QS : char := 39%N.
Definition QD : char := 34%N.
Definition COMMA : char := 44%N.
Definition RPAR : char := 41%N.
Definition is_quote (c : char) : bool := N.eqb c QS || N.eqb c QD.
Definition is_open (c : char) : bool := N.eqb c 40 || N.eqb c 91.     (* ( [ *)
Definition is_close (c : char) : bool := N.eqb c 41 || N.eqb c 93.    (* ) ] *)

(* cur: the argument being read, reversed; args: the arguments read so far, last first.
   None: the call is never closed (the line is left alone) *)
Fixpoint scan (s : str) (depth : nat) (quote : option char) (cur : str) (args : list str) : option (list str * str) :=
  match s with
  | [] => None
  | c :: r =>
    match quote with
    | Some q => scan r depth (if N.eqb c q then None else quote) (c :: cur) args
    | None =>
      if is_quote c then scan r depth (Some c) (c :: cur) args
      else if is_open c then scan r (S depth) None (c :: cur) args
      else if is_close c then
        match depth with
        | O => Some (rev (rev cur :: args), r)
        | S d => scan r d None (c :: cur) args
        end
      else if N.eqb c COMMA && Nat.eqb depth 0 then scan r 0 None [] (rev cur :: args)
      else scan r depth None (c :: cur) args
    end
  end.

Definition call_args (s : str) : option (list str * str) := scan s 0 None [] [].

(* an argument: brackets balanced, literals closed, no comma outside them *)
Fixpoint bal (d : nat) (q : option char) (s : str) : bool :=
  match s with
  | [] => Nat.eqb d 0 && match q with None => true | Some _ => false end
  | c :: r =>
    match q with
    | Some q' => bal d (if N.eqb c q' then None else q) r
    | None =>
      if is_quote c then bal d (Some c) r
      else if is_open c then bal (S d) None r
      else if is_close c then match d with O => false | S d' => bal d' None r end
      else if N.eqb c COMMA && Nat.eqb d 0 then false
      else bal d None r
    end
  end.

Definition argument (a : str) : bool := bal 0 None a.

Fixpoint join_comma (l : list str) : str :=
  match l with
  | [] => []
  | [a] => a
  | a :: r => a ++ COMMA :: join_comma r
  end.

(* the whole call, behind NAME( : body with the parameters replaced by the arguments, then the rest of the line *)
Definition expand_call (isw : char -> bool) (params : list str) (body : str) (s : str) : option str :=
  match call_args s with
  | Some (args, rest) =>
    if Nat.eqb (length args) (length params) then Some (Expand.expand isw (combine params args) body ++ rest) else None
  | None => None
  end.

(* ---- proofs ---- *)

Lemma scan_argument a : forall d q t cur args, bal d q a = true ->
  scan (a ++ t) d q cur args = scan t 0 None (rev a ++ cur) args.
Proof.
  induction a as [|c a IH]; intros d q t cur args H.
  - simpl in H. apply andb_true_iff in H as [Hd Hq]. apply Nat.eqb_eq in Hd. subst d. destruct q; [discriminate|]. reflexivity.
  - cbn [bal] in H. cbn [app scan]. destruct q as [q'|].
    + rewrite (IH _ _ t (c :: cur) args H). cbn [rev]. rewrite <- app_assoc. reflexivity.
    + destruct (is_quote c).
      * rewrite (IH _ _ t (c :: cur) args H). cbn [rev]. rewrite <- app_assoc. reflexivity.
      * destruct (is_open c).
        -- rewrite (IH _ _ t (c :: cur) args H). cbn [rev]. rewrite <- app_assoc. reflexivity.
        -- destruct (is_close c).
           ++ destruct d as [|d']; [discriminate|].
              rewrite (IH _ _ t (c :: cur) args H). cbn [rev]. rewrite <- app_assoc. reflexivity.
           ++ destruct (N.eqb c COMMA && Nat.eqb d 0); [discriminate|].
              rewrite (IH _ _ t (c :: cur) args H). cbn [rev]. rewrite <- app_assoc. reflexivity.
Qed.

Lemma scan_close rest cur args : scan (RPAR :: rest) 0 None cur args = Some (rev (rev cur :: args), rest).
Proof. reflexivity. Qed.

Lemma scan_comma t cur args : scan (COMMA :: t) 0 None cur args = scan t 0 None [] (rev cur :: args).
Proof. reflexivity. Qed.

Lemma scan_join l : forall rest done, l <> [] -> Forall (fun a => argument a = true) l ->
  scan (join_comma l ++ RPAR :: rest) 0 None [] done = Some (rev done ++ l, rest).
Proof.
  induction l as [|a r IH]; intros rest done Hne Hall; [congruence|].
  inversion Hall as [|x y Ha Hr]; subst.
  destruct r as [|b r].
  - cbn [join_comma]. rewrite (scan_argument a 0 None _ [] done Ha). rewrite app_nil_r, scan_close, rev_involutive.
    cbn [rev]. reflexivity.
  - change (join_comma (a :: b :: r)) with (a ++ COMMA :: join_comma (b :: r)). rewrite <- app_assoc. cbn [app].
    rewrite (scan_argument a 0 None _ [] done Ha). rewrite app_nil_r, scan_comma, rev_involutive.
    etransitivity; [apply (IH rest (a :: done)); [discriminate | exact Hr]|]. cbn [rev]. rewrite <- app_assoc. reflexivity.
Qed.

(* Arguments written between the parentheses of a call and separated by commas are read back exactly, whatever nesting and
   literals they hold, and so is the text behind the call. *)
Theorem arguments_read_back l rest : l <> [] -> Forall (fun a => argument a = true) l ->
  call_args (join_comma l ++ RPAR :: rest) = Some (l, rest).
Proof. intros Hne Hall. unfold call_args. rewrite (scan_join l rest [] Hne Hall). reflexivity. Qed.

(* ... hence a call with as many arguments as parameters becomes the body with every parameter word replaced by its
   argument, followed by the untouched rest of the line *)
Theorem call_expanded isw params body l rest : l <> [] -> Forall (fun a => argument a = true) l -> length l = length params ->
  expand_call isw params body (join_comma l ++ RPAR :: rest) = Some (Expand.expand isw (combine params l) body ++ rest).
Proof.
  intros Hne Hall Hlen. unfold expand_call. rewrite (arguments_read_back l rest Hne Hall). rewrite Hlen, Nat.eqb_refl. reflexivity.
Qed.

Example args_nonvacuous :
  (* g(1,2)  'a,b'  (/ 1, 2 /) *)
  let l := [[103; 40; 49; 44; 50; 41]; [39; 97; 44; 98; 39]; [40; 47; 32; 49; 44; 32; 50; 32; 47; 41]]%N in
  Forall (fun a => argument a = true) l /\ call_args (join_comma l ++ RPAR :: [43; 49]%N) = Some (l, [43; 49]%N).
Proof. split; [repeat constructor | vm_compute; reflexivity]. Qed.
