(* C08/Props.v -- property theorems only.  Statement of C08: for arbitrarily nested
   #if/#ifdef/#ifndef/#elif/#else/#endif with interleaved #define/#undef the lines treated as
   active and the macro table at end of file equal those of a reference C preprocessor.
   Model: Shared/PP.v (istep: the two stacks of preprocess_file; rstep: frame-stack reference),
   Shared/CondExpr.v; tie: harness/props/c08.py. *)
From Coq Require Import ZArith.
From FV Require C08.Expand C08.Args.
From FV Require Import Base.Str Shared.CondExpr Shared.PP C08.Model C08.Proofs.

(* For every well-formed directive sequence (any nesting depth, any length), every initial macro
   table and every text line m: m lies in one of the implementation's skip regions exactly when
   the reference preprocessor finds it inactive. *)
Theorem regions_are_inactive_lines : forall l t m,
  wf_toks l = true -> text_at l m ->
  (in_skips (i_skips (irun 1 (iinit t) l)) m = true <-> In m (r_inactive (rrun 1 (rinit t) l))).
Proof. intros l t m W. destruct (simulation l t W) as [_ [_ [_ H]]]. apply H. Qed.
Print Assumptions regions_are_inactive_lines.

Theorem final_table_equal : forall l t,
  wf_toks l = true -> i_tab (irun 1 (iinit t) l) = r_tab (rrun 1 (rinit t) l).
Proof. intros l t W. now destruct (simulation l t W) as [H _]. Qed.
Print Assumptions final_table_equal.

(* #define/#undef take effect exactly on the lines where the reference is active *)
Theorem defines_only_when_active : forall l t,
  wf_toks l = true -> i_defines (irun 1 (iinit t) l) = r_deflines (rrun 1 (rinit t) l).
Proof. intros l t W. now destruct (simulation l t W) as [_ [H _]]. Qed.
Print Assumptions defines_only_when_active.

Theorem no_region_left_open : forall l t,
  wf_toks l = true -> i_stack (irun 1 (iinit t) l) = [].
Proof. intros l t W. now destruct (simulation l t W) as [_ [_ [H _]]]. Qed.
Print Assumptions no_region_left_open.

(* one step of the invariant, for every state: the heart of the simulation *)
Theorem step_preserves_invariant : forall P n st st' s r t,
  Inv P n st s r -> wf_step st t = Some st' -> (P n -> t = TText) ->
  Inv P (S n) st' (istep n s t) (rstep n r t).
Proof. exact step_inv. Qed.
Print Assumptions step_preserves_invariant.

(* the well-formedness hypothesis cannot be dropped: a second #else re-activates the branch *)
Theorem C08_refuted_else_after_else : exists l t m,
  wf_toks l = false /\ text_at l m /\
  in_skips (i_skips (irun 1 (iinit t) l)) m = false /\ In m (r_inactive (rrun 1 (rinit t) l)).
Proof.
  exists [TIf (CInt 1); TElse; TElse; TText; TEndif], [], 4.
  split; [reflexivity|]. split; [split; [lia|reflexivity]|]. split; [reflexivity|]. cbn. auto.
Qed.
Print Assumptions C08_refuted_else_after_else.

Example C08_nonvacuous :
  let A := [65]%N in let B := [66]%N in
  let l := [TIfdef A; TText; TIf (CCmp CGt (CName A) (CInt 1)); TText; TElif (CDef B); TText; TElse; TDefine B (Some 2%Z); TText;
            TEndif; TElse; TText; TEndif; TIfdef B; TText; TEndif] in
  wf_toks l = true /\
  rev (i_skips (irun 1 (iinit [(A, Some 1%Z)]) l)) = [(3, 7); (11, 13)] /\
  rev (r_inactive (rrun 1 (rinit [(A, Some 1%Z)]) l)) = [4; 6; 12] /\
  i_tab (irun 1 (iinit [(A, Some 1%Z)]) l) = [(A, Some 1%Z); (B, Some 2%Z)].
Proof. cbv zeta. repeat split; vm_compute; reflexivity. Qed.
Print Assumptions C08_nonvacuous.

(* Uses of macros are replaced by their bodies character for character: for every classification of characters into word
   and non-word characters, every table and every line written as words and separators (words: non-empty runs of word
   characters, never two in a row), the substitution scan yields the line with exactly the words found in the table
   replaced by their values -- every one of them, nothing else, no part of a longer word.  The table is one macro for an
   object-like macro, the parameter/argument pairs for the body of a function-like one (simultaneous substitution). *)
Theorem macro_uses_replaced_character_for_character : forall isw t ts,
  Expand.wf_toks isw false ts = true -> Expand.expand isw t (Expand.render ts) = Expand.expected t ts.
Proof. exact Expand.expand_spec. Qed.
Print Assumptions macro_uses_replaced_character_for_character.

(* a line that does not spell the macro name as a word of its own is not changed *)
Theorem line_without_macro_use_unchanged : forall isw k v ts,
  Expand.wf_toks isw false ts = true ->
  forallb (fun x => match x with Expand.W w => negb (str_eqb k w) | Expand.S _ => true end) ts = true ->
  Expand.expand isw [(k, v)] (Expand.render ts) = Expand.render ts.
Proof. exact Expand.expand_untouched. Qed.
Print Assumptions line_without_macro_use_unchanged.

Example macro_expansion_nonvacuous :
  let ts := [Expand.W [121]; Expand.S 61; Expand.W [77; 88]; Expand.S 43; Expand.W [77; 88; 95; 122]; Expand.S 32;
             Expand.W [120; 77; 88]; Expand.S 40; Expand.W [77; 88]; Expand.S 41]%N in
  Expand.wf_toks Expand.ascii_word false ts = true /\
  Expand.expand Expand.ascii_word [([77; 88], [40; 49; 43; 50; 41])]%N (Expand.render ts)
  = [121; 61; 40; 49; 43; 50; 41; 43; 77; 88; 95; 122; 32; 120; 77; 88; 40; 40; 49; 43; 50; 41; 41]%N.
Proof. exact Expand.expand_nonvacuous. Qed.
Print Assumptions macro_expansion_nonvacuous.

(* the arguments of a call: any number of arguments, each with balanced parentheses/brackets, closed literals and no comma
   outside them, written between the parentheses and separated by commas, are read back exactly, with the text behind the call *)
Theorem call_arguments_read_back : forall l rest,
  l <> [] -> Forall (fun a => Args.argument a = true) l ->
  Args.call_args (Args.join_comma l ++ Args.RPAR :: rest) = Some (l, rest).
Proof. exact Args.arguments_read_back. Qed.
Print Assumptions call_arguments_read_back.

(* ... and the call becomes the body with the parameters replaced by the arguments, followed by the rest of the line *)
Theorem call_replaced_by_body_with_arguments : forall isw params body l rest,
  l <> [] -> Forall (fun a => Args.argument a = true) l -> length l = length params ->
  Args.expand_call isw params body (Args.join_comma l ++ Args.RPAR :: rest)
  = Some (Expand.expand isw (combine params l) body ++ rest).
Proof. exact Args.call_expanded. Qed.
Print Assumptions call_replaced_by_body_with_arguments.
