(* C02/Model.v -- model of FortranFile.apply_change (fortls/parsers/internal/parser.py)
   and of the LSP client's flat-string edit.  Definitions only. *)
From FV Require Import Base.Str Base.Lines.

Definition doc := list str.

(* range = start line, start character, end line, end character *)
Definition range := (nat * nat * nat * nat)%type.

(* the code: text_split = splitlines(text)   (after the fix: commit "fix: apply_change added a spurious...") *)
Definition text_split (text : str) : list str := splitlines text.

Definition append_last (acc : doc) (s : str) : doc :=
  match acc with [] => [] (* new_contents[-1] on an empty list raises; see gen_loop_never_empty *)
  | _ => removelast acc ++ [last acc [] ++ s] end.

(* One iteration of
     for i, line in enumerate(self.contents_split): ...
   state = (i, new_contents) *)
Definition gen_step (sl sc el ec : nat) (ts : list str) (st : nat * doc) (line : str) : nat * doc :=
  let '(i, acc) := st in
  if (i <? sl) || (el <? i) then (S i, acc ++ [line])
  else
    let acc1 := if i =? sl then acc ++ (firstn sc line ++ hd [] ts) :: tl ts else acc in
    let acc2 := if i =? el then append_last acc1 (skipn ec line) else acc1 in
    (S i, acc2).

Definition gen_loop (sl sc el ec : nat) (ts : list str) (d : doc) : doc :=
  snd (fold_left (gen_step sl sc el ec ts) d (0, [])).

(* None = the code raises (IndexError on contents_split[start_line]) *)
Definition apply_change (d : doc) (r : option range) (text : str) : option doc :=
  let ts := text_split text in
  match r with
  | None => Some ts                                    (* whole document *)
  | Some (sl, sc, el, ec) =>
    if sl =? length d then Some (d ++ ts)              (* edit at the very end of the file *)
    else if (sl =? el) && (length ts =? 1) then        (* single line edit *)
      match nth_error d sl with
      | None => None
      | Some prev => Some (firstn sl d ++ [firstn sc prev ++ text ++ skipn ec prev] ++ skipn (S sl) d)
      end
    else Some (gen_loop sl sc el ec ts d)              (* standard change *)
  end.

(* a file that was opened before it exists on disk is held as [] ; every reader treats
   that like a single empty line *)
Definition abs (d : doc) : doc := match d with [] => [[]] | _ => d end.

(* serve_onChange, incremental sync: apply changes in order; an exception aborts the rest *)
Fixpoint apply_changes (d : doc) (chs : list (option range * str)) : doc :=
  match chs with
  | [] => d
  | (r, t) :: rest =>
    match apply_change d r t with
    | Some d' => apply_changes d' rest
    | None => d
    end
  end.

(* ---- the client: a flat string.  A position is identified with the prefix of the
   text that lies before it: (line, character) = pos_of prefix. *)
Definition pos_of (pre : str) : nat * nat :=
  let l := splitlines pre in (length l - 1, length (last l [])).

Definition client_apply (pre mid suf new : str) : str := pre ++ new ++ suf.

(* range addressed by the split  text = pre ++ mid ++ suf *)
Definition range_of (pre mid : str) : range :=
  let '(sl, sc) := pos_of pre in
  let '(el, ec) := pos_of (pre ++ mid) in (sl, sc, el, ec).
