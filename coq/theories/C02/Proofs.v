(* C02/Proofs.v *)
From FV Require Import Base.Str Base.Lines Base.LinesFacts C02.Model.

(* ------------------------------------------------------------------ normal form of a
   document around an edit:  A ++ mid_lines p M s0 ++ B *)
Definition mid_lines (p : str) (M : list str) (s0 : str) : list str :=
  match M with
  | [] => [p ++ s0]
  | m0 :: MM =>
    match MM with
    | [] => [p ++ m0 ++ s0]
    | _ => (p ++ m0) :: removelast MM ++ [last MM [] ++ s0]
    end
  end.

Lemma removelast_app_cons {A} (l : list A) x r : removelast (l ++ x :: r) = l ++ removelast (x :: r).
Proof. apply removelast_app. discriminate. Qed.

Lemma last_app_cons {A} (l : list A) x r d : last (l ++ x :: r) d = last (x :: r) d.
Proof.
  induction l as [|y l IH]; [reflexivity|].
  rewrite <- IH. rewrite <- app_comm_cons.
  destruct (l ++ x :: r) eqn:E; [destruct l; discriminate|reflexivity].
Qed.

Lemma glue_nf A p m0 MM s0 B :
  glue (glue (A ++ [p]) (m0 :: MM)) (s0 :: B) = A ++ mid_lines p (m0 :: MM) s0 ++ B.
Proof.
  unfold glue at 2. rewrite removelast_last, last_last. cbn [prepend_first].
  unfold glue. rewrite removelast_app_cons, last_app_cons. cbn [prepend_first].
  rewrite <- app_assoc. f_equal. unfold mid_lines.
  destruct MM as [|m1 MM].
  - simpl. now rewrite <- app_assoc.
  - change (removelast ((p ++ m0) :: m1 :: MM)) with ((p ++ m0) :: removelast (m1 :: MM)).
    change (last ((p ++ m0) :: m1 :: MM) []) with (last (m1 :: MM) []).
    generalize (removelast (m1 :: MM)) (last (m1 :: MM) []); intros R L.
    cbn [app]. f_equal. now rewrite <- app_assoc.
Qed.

Lemma length_removelast_cons {A} (x : A) l : length (removelast (x :: l)) = length l.
Proof.
  revert x. induction l as [|y l IH]; intro x; [reflexivity|].
  change (removelast (x :: y :: l)) with (x :: removelast (y :: l)).
  cbn [length]. now rewrite IH.
Qed.

Lemma length_mid_lines p m0 MM s0 : length (mid_lines p (m0 :: MM) s0) = S (length MM).
Proof.
  unfold mid_lines. destruct MM as [|m1 MM]; [reflexivity|].
  cbn [length]. rewrite app_length, length_removelast_cons. cbn [length]. lia.
Qed.

Ltac len := cbn [length app plus]; unfold doc, str, char in *; lia.

(* ------------------------------------------------------------------ phases of the loop *)
Section Loop.
Variables (sl sc el ec : nat) (ts : list str).
Let step := gen_step sl sc el ec ts.

Lemma phase_before X : forall i acc, i + length X <= sl ->
  fold_left step X (i, acc) = (i + length X, acc ++ X).
Proof.
  induction X as [|x X IH]; intros i acc H.
  - simpl. now rewrite Nat.add_0_r, app_nil_r.
  - cbn [fold_left length] in *. unfold step at 2, gen_step.
    assert (E : (i <? sl) = true) by (apply Nat.ltb_lt; lia). rewrite E. cbn [orb].
    rewrite IH by lia. rewrite <- app_assoc. f_equal. lia.
Qed.

Lemma phase_after X : forall i acc, el < i ->
  fold_left step X (i, acc) = (i + length X, acc ++ X).
Proof.
  induction X as [|x X IH]; intros i acc H.
  - simpl. now rewrite Nat.add_0_r, app_nil_r.
  - cbn [fold_left length] in *. unfold step at 2, gen_step.
    assert (E : (el <? i) = true) by (apply Nat.ltb_lt; lia). rewrite E, orb_true_r.
    rewrite IH by lia. rewrite <- app_assoc. f_equal. lia.
Qed.

Lemma phase_inside X : forall i acc, sl < i -> i + length X <= el ->
  fold_left step X (i, acc) = (i + length X, acc).
Proof.
  induction X as [|x X IH]; intros i acc H1 H2.
  - simpl. now rewrite Nat.add_0_r.
  - cbn [fold_left length] in *. unfold step at 2, gen_step.
    assert (E1 : (i <? sl) = false) by (apply Nat.ltb_ge; lia).
    assert (E2 : (el <? i) = false) by (apply Nat.ltb_ge; lia).
    assert (E3 : (i =? sl) = false) by (apply Nat.eqb_neq; lia).
    assert (E4 : (i =? el) = false) by (apply Nat.eqb_neq; lia).
    rewrite E1, E2, E3, E4. cbn [orb]. rewrite IH by lia. f_equal. lia.
Qed.
End Loop.

Lemma append_last_mid A p n0 NN s0 :
  append_last (A ++ (p ++ n0) :: NN) s0 = A ++ mid_lines p (n0 :: NN) s0.
Proof.
  unfold append_last. destruct (A ++ (p ++ n0) :: NN) eqn:E; [destruct A; discriminate|].
  rewrite <- E. rewrite removelast_app_cons, last_app_cons, <- app_assoc. f_equal.
  unfold mid_lines. destruct NN as [|n1 NN].
  - simpl. now rewrite <- app_assoc.
  - reflexivity.
Qed.

Lemma firstn_app_exact {A} (a b : list A) : firstn (length a) (a ++ b) = a.
Proof. rewrite firstn_app, Nat.sub_diag, firstn_all. simpl. apply app_nil_r. Qed.

Lemma skipn_app_exact {A} (a b : list A) : skipn (length a) (a ++ b) = b.
Proof. rewrite skipn_app, Nat.sub_diag, skipn_all. reflexivity. Qed.

Lemma mid_lines_snoc p m0 MM' mk s0 :
  mid_lines p (m0 :: MM' ++ [mk]) s0 = (p ++ m0) :: MM' ++ [mk ++ s0].
Proof.
  unfold mid_lines. destruct (MM' ++ [mk]) eqn:E; [destruct MM'; discriminate|].
  rewrite <- E. now rewrite removelast_last, last_last.
Qed.

(* the standard-change loop on the normal form: range within one line *)
Lemma gen_loop_nf_single A p m0 s0 B n0 NN :
  gen_loop (length A) (length p) (length A) (length p + length m0) (n0 :: NN)
    (A ++ [p ++ m0 ++ s0] ++ B)
  = A ++ mid_lines p (n0 :: NN) s0 ++ B.
Proof.
  unfold gen_loop.
  rewrite fold_left_app. rewrite phase_before by (simpl; len).
  cbn [app plus fold_left]. unfold gen_step at 2.
  rewrite !Nat.ltb_irrefl, !Nat.eqb_refl. cbn [orb hd tl].
  rewrite firstn_app_exact.
  replace (p ++ m0 ++ s0) with ((p ++ m0) ++ s0) by now rewrite app_assoc.
  rewrite <- app_length, skipn_app_exact.
  rewrite append_last_mid. rewrite phase_after by len.
  cbn [snd]. now rewrite <- app_assoc.
Qed.

(* range spanning several lines *)
Lemma gen_loop_nf_multi A p m0 MM' mk s0 B n0 NN :
  gen_loop (length A) (length p) (length A + S (length MM')) (length mk) (n0 :: NN)
    (A ++ ((p ++ m0) :: MM' ++ [mk ++ s0]) ++ B)
  = A ++ mid_lines p (n0 :: NN) s0 ++ B.
Proof.
  unfold gen_loop.
  rewrite fold_left_app. rewrite phase_before by (simpl; len).
  rewrite <- app_comm_cons. cbn [app plus fold_left]. unfold gen_step at 2.
  unfold doc, str, char in *.
  assert (E1 : (length A <? length A) = false) by apply Nat.ltb_irrefl.
  assert (E2 : (length A + S (length MM') <? length A) = false) by (apply Nat.ltb_ge; len).
  assert (E3 : (length A =? length A) = true) by apply Nat.eqb_refl.
  assert (E4 : (length A =? length A + S (length MM')) = false) by (apply Nat.eqb_neq; len).
  rewrite !E1, !E2, !E3, !E4. cbn [orb hd tl].
  rewrite firstn_app_exact.
  rewrite <- app_assoc, fold_left_app.
  rewrite phase_inside by len.
  cbn [app fold_left]. unfold gen_step at 2. unfold doc, str, char in *.
  assert (F1 : (S (length A) + length MM' <? length A) = false) by (apply Nat.ltb_ge; len).
  assert (F2 : (length A + S (length MM') <? S (length A) + length MM') = false) by (apply Nat.ltb_ge; len).
  assert (F3 : (S (length A) + length MM' =? length A) = false) by (apply Nat.eqb_neq; len).
  assert (F4 : (S (length A) + length MM' =? length A + S (length MM')) = true) by (apply Nat.eqb_eq; len).
  rewrite !F1, !F2, !F3, !F4. cbn [orb].
  rewrite skipn_app_exact.
  rewrite append_last_mid. rewrite phase_after by len.
  cbn [snd]. now rewrite <- app_assoc.
Qed.

Lemma gen_loop_nf A p m0 MM s0 B n0 NN :
  let sl := length A in
  let sc := length p in
  let el := length A + length MM in
  let ec := match MM with [] => length p + length m0 | _ => length (last MM []) end in
  gen_loop sl sc el ec (n0 :: NN) (A ++ mid_lines p (m0 :: MM) s0 ++ B)
  = A ++ mid_lines p (n0 :: NN) s0 ++ B.
Proof.
  destruct MM as [|m1 MM].
  - cbn zeta. cbn [length mid_lines]. rewrite Nat.add_0_r. apply gen_loop_nf_single.
  - assert (Hne : m1 :: MM <> []) by discriminate.
    destruct (exists_last Hne) as [MM' [mk Hk]]. rewrite Hk.
    cbn zeta. rewrite mid_lines_snoc, last_last, app_length. cbn [length].
    destruct (MM' ++ [mk]) eqn:E; [destruct MM'; discriminate|].
    replace (length MM' + 1) with (S (length MM')) by lia.
    apply gen_loop_nf_multi.
Qed.

(* ------------------------------------------------------------------ single line results *)
Lemma ls_done_mono t : forall s, ls_done s <> [] -> ls_done (lrun s t) <> [].
Proof.
  induction t as [|c t IH]; intros s H; [exact H|].
  unfold lrun in *; cbn [fold_left]. apply IH. unfold lstep.
  destruct (N.eqb c LF); [destruct (ls_cr s)|destruct (N.eqb c CR)]; cbn [ls_done]; try exact H;
    destruct (ls_done s); discriminate.
Qed.

Lemma lrun_single t : forall s,
  (ls_cr s = true -> ls_done s <> []) ->
  ls_done (lrun s t) = [] -> ls_cur (lrun s t) = ls_cur s ++ t.
Proof.
  induction t as [|c t IH]; intros s Hinv H.
  - simpl. now rewrite app_nil_r.
  - unfold lrun in *; cbn [fold_left] in *.
    assert (Hd : ls_done (lstep s c) = [] ).
    { destruct (ls_done (lstep s c)) eqn:E; [reflexivity|].
      exfalso. apply (ls_done_mono t (lstep s c)); [rewrite E; discriminate| exact H]. }
    unfold lstep in Hd.
    destruct (N.eqb c LF) eqn:E1.
    + destruct (ls_cr s) eqn:Ecr; cbn [ls_done] in Hd.
      * exfalso. now apply Hinv.
      * destruct (ls_done s); discriminate.
    + destruct (N.eqb c CR) eqn:E2; cbn [ls_done] in Hd.
      * destruct (ls_done s); discriminate.
      * rewrite IH; [| |exact H].
        -- unfold lstep. rewrite E1, E2. cbn [ls_cur]. now rewrite <- app_assoc.
        -- unfold lstep. rewrite E1, E2. cbn [ls_cr]. discriminate.
Qed.

Lemma splitlines_single t x : splitlines t = [x] -> t = x.
Proof.
  unfold splitlines, lfinish. intro H.
  destruct (ls_done (lrun linit t)) as [|y l] eqn:E.
  - simpl in H. inversion H as [H1]. rewrite lrun_single by (simpl; (discriminate || assumption)).
    reflexivity.
  - simpl in H. inversion H as [[H1 H2]]. destruct l; discriminate.
Qed.

(* ------------------------------------------------------------------ apply_change on the normal form *)
Lemma apply_change_nf A p m0 MM s0 B new n0 NN :
  splitlines new = n0 :: NN ->
  let sl := length A in
  let sc := length p in
  let el := length A + length MM in
  let ec := match MM with [] => length p + length m0 | _ => length (last MM []) end in
  apply_change (A ++ mid_lines p (m0 :: MM) s0 ++ B) (Some (sl, sc, el, ec)) new
  = Some (A ++ mid_lines p (n0 :: NN) s0 ++ B).
Proof.
  intros Hn sl sc el ec. unfold apply_change, text_split. rewrite Hn.
  assert (E0 : (sl =? length (A ++ mid_lines p (m0 :: MM) s0 ++ B)) = false).
  { apply Nat.eqb_neq. rewrite !app_length, length_mid_lines. subst sl. lia. }
  rewrite E0.
  destruct ((sl =? el) && (length (n0 :: NN) =? 1)) eqn:Es.
  - apply andb_true_iff in Es as [Es1 Es2].
    apply Nat.eqb_eq in Es1, Es2. subst sl el.
    assert (MM = []) by (destruct MM; [reflexivity|simpl in Es1; lia]). subst MM.
    assert (NN = []) by (destruct NN; [reflexivity|simpl in Es2; lia]). subst NN.
    apply splitlines_single in Hn. subst n0.
    cbn [mid_lines]. rewrite nth_error_app2 by lia. rewrite Nat.sub_diag. cbn [nth_error app].
    rewrite firstn_app_exact.
    change (A ++ (p ++ m0 ++ s0) :: B) with (A ++ [p ++ m0 ++ s0] ++ B).
    replace (S (length A)) with (length (A ++ [p ++ m0 ++ s0])) by (rewrite app_length; simpl; lia).
    unfold doc, str, char in *. rewrite (app_assoc A [p ++ m0 ++ s0] B), skipn_app_exact.
    subst sc ec. rewrite firstn_app_exact.
    replace (p ++ m0 ++ s0) with ((p ++ m0) ++ s0) by now rewrite app_assoc.
    rewrite <- app_length, skipn_app_exact. reflexivity.
  - f_equal. apply gen_loop_nf.
Qed.

(* ------------------------------------------------------------------ the refinement theorem *)
Lemma splitlines_snoc_form t : exists A p, splitlines t = A ++ [p].
Proof.
  exists (removelast (splitlines t)), (last (splitlines t) []).
  apply app_removelast_last. apply splitlines_nonempty.
Qed.

Lemma splitlines_cons_form t : exists x X, splitlines t = x :: X.
Proof.
  pose proof (splitlines_nonempty t). destruct (splitlines t) as [|x X]; [congruence|eauto].
Qed.

Lemma pos_of_snoc pre A p : splitlines pre = A ++ [p] -> pos_of pre = (length A, length p).
Proof.
  intro H. unfold pos_of. rewrite H, last_last, app_length. simpl. f_equal. lia.
Qed.

Lemma apply_change_refines pre mid suf new :
  clean pre mid = true -> clean (pre ++ mid) suf = true ->
  clean pre new = true -> clean (pre ++ new) suf = true ->
  apply_change (splitlines (pre ++ mid ++ suf)) (Some (range_of pre mid)) new
  = Some (splitlines (client_apply pre mid suf new)).
Proof.
  intros C1 C2 C3 C4. unfold client_apply.
  destruct (splitlines_snoc_form pre) as [A [p HP]].
  destruct (splitlines_cons_form mid) as [m0 [MM HM]].
  destruct (splitlines_cons_form suf) as [s0 [B HS]].
  destruct (splitlines_cons_form new) as [n0 [NN HN]].
  rewrite (app_assoc pre mid suf), (splitlines_app _ _ C2), (splitlines_app _ _ C1).
  rewrite (app_assoc pre new suf), (splitlines_app _ _ C4), (splitlines_app _ _ C3).
  rewrite HP, HM, HS, HN, !glue_nf.
  unfold range_of. rewrite (pos_of_snoc pre A p HP).
  assert (Hpm : pos_of (pre ++ mid) =
    (length A + length MM, match MM with [] => length p + length m0 | _ => length (last MM []) end)).
  { unfold pos_of. rewrite (splitlines_app _ _ C1), HP, HM.
    unfold glue. rewrite removelast_last, last_last. cbn [prepend_first].
    rewrite last_app_cons, app_length. cbn [length].
    destruct MM as [|m1 MM].
    - simpl. rewrite app_length. f_equal. lia.
    - f_equal. lia. }
  rewrite Hpm. apply apply_change_nf. exact HN.
Qed.

(* whole document change *)
Lemma whole_document d new : apply_change d None new = Some (splitlines new).
Proof. reflexivity. Qed.

(* ------------------------------------------------------------------ histories *)
Inductive history : str -> list (option range * str) -> str -> Prop :=
| h_nil t : history t [] t
| h_full t new rest t' :
    history new rest t' -> history t ((None, new) :: rest) t'
| h_range pre mid suf new rest t' :
    clean pre mid = true -> clean (pre ++ mid) suf = true ->
    clean pre new = true -> clean (pre ++ new) suf = true ->
    history (client_apply pre mid suf new) rest t' ->
    history (pre ++ mid ++ suf) ((Some (range_of pre mid), new) :: rest) t'.

Lemma sync_history_lemma t chs t' :
  history t chs t' -> apply_changes (splitlines t) chs = splitlines t'.
Proof.
  induction 1 as [t | t new rest t' H IH | pre mid suf new rest t' C1 C2 C3 C4 H IH].
  - reflexivity.
  - cbn [apply_changes]. rewrite whole_document. exact IH.
  - cbn [apply_changes]. rewrite apply_change_refines by assumption. exact IH.
Qed.

(* coordinates: every line of the server's text has the client's length *)
Lemma coordinates_preserved t chs t' :
  history t chs t' ->
  map (@length char) (apply_changes (splitlines t) chs) = map (@length char) (splitlines t').
Proof. intro H. now rewrite (sync_history_lemma _ _ _ H). Qed.

(* LF-only and CRLF-only texts always give clean junctions: no lone CR anywhere *)
Fixpoint cr_only_before_lf (t : str) : bool :=
  match t with
  | [] => true
  | c :: t' => (if N.eqb c CR then starts_lf t' else true) && cr_only_before_lf t'
  end.

Lemma ends_cr_false_of_crlf a : cr_only_before_lf a = true -> ends_cr a = false.
Proof.
  induction a as [|c a IH]; intro H; [reflexivity|].
  simpl in H. apply andb_true_iff in H as [H1 H2].
  destruct a as [|c' a'].
  - unfold ends_cr, last_opt. simpl. destruct (N.eqb c CR); [discriminate|reflexivity].
  - specialize (IH H2). unfold ends_cr, last_opt in *. simpl rev in *.
    destruct (rev a' ++ [c']) eqn:E; [destruct (rev a'); discriminate|].
    simpl in *. exact IH.
Qed.

Lemma crlf_texts_are_clean a b : cr_only_before_lf a = true -> clean a b = true.
Proof. intro H. unfold clean. now rewrite ends_cr_false_of_crlf. Qed.
