From FV Require Import Base.Str Base.Lines Base.LinesFacts C02.Model.

Theorem splitlines_glue : forall a b,
  clean a b = true -> splitlines (a ++ b) = glue (splitlines a) (splitlines b).
Proof. exact splitlines_app. Qed.
Print Assumptions splitlines_glue.
