(* C02/Props.v -- property theorems only.  Statement of C02 (properties.jsonl):
   after any sequence of didOpen/didChange the text the server holds equals the text an
   LSP-conforming client holds.  Model: C02/Model.v; tie: harness/props/c02.py. *)
From FV Require Import Base.Str Base.Lines Base.LinesFacts C02.Model C02.Proofs.

(* splitlines is compositional except across a CR|LF junction *)
Theorem splitlines_glue : forall a b,
  clean a b = true -> splitlines (a ++ b) = glue (splitlines a) (splitlines b).
Proof. exact splitlines_app. Qed.
Print Assumptions splitlines_glue.

(* One ranged change.  The client's text is pre ++ mid ++ suf, the range addresses mid
   (start = position after pre, end = position after pre ++ mid; the first two hypotheses
   say that both are positions of the document, i.e. not inside a CRLF pair), the client
   replaces mid by new.  Last two hypotheses: the edit is junction-clean. *)
Theorem apply_change_refines_client : forall pre mid suf new,
  clean pre mid = true -> clean (pre ++ mid) suf = true ->
  clean pre new = true -> clean (pre ++ new) suf = true ->
  apply_change (splitlines (pre ++ mid ++ suf)) (Some (range_of pre mid)) new
  = Some (splitlines (client_apply pre mid suf new)).
Proof. exact apply_change_refines. Qed.
Print Assumptions apply_change_refines_client.

Theorem whole_document_change : forall d new,
  apply_change d None new = Some (splitlines new).
Proof. exact whole_document. Qed.
Print Assumptions whole_document_change.

(* every history of junction-clean in-document changes (ranged and whole-document) *)
Theorem sync_history : forall t chs t',
  history t chs t' -> apply_changes (splitlines t) chs = splitlines t'.
Proof. exact sync_history_lemma. Qed.
Print Assumptions sync_history.

Theorem coordinates_agree : forall t chs t',
  history t chs t' ->
  map (@length char) (apply_changes (splitlines t) chs) = map (@length char) (splitlines t').
Proof. exact coordinates_preserved. Qed.
Print Assumptions coordinates_agree.

(* LF and CRLF documents/insertions (no lone CR) satisfy every junction hypothesis *)
Theorem no_lone_cr_is_enough : forall a b, cr_only_before_lf a = true -> clean a b = true.
Proof. exact crlf_texts_are_clean. Qed.
Print Assumptions no_lone_cr_is_enough.

(* The junction hypothesis cannot be dropped: "a\rb\nc", delete "b". *)
Theorem C02_refuted_cr_lf_junction : exists pre mid suf new,
  clean pre mid = true /\ clean (pre ++ mid) suf = true /\
  apply_change (splitlines (pre ++ mid ++ suf)) (Some (range_of pre mid)) new
  <> Some (splitlines (client_apply pre mid suf new)).
Proof.
  exists [97; 13]%N, [98]%N, [10; 99]%N, []. repeat split; try reflexivity.
  vm_compute. discriminate.
Qed.
Print Assumptions C02_refuted_cr_lf_junction.

(* non-vacuity: a 3-line CRLF document with a multi-line replacement meets all hypotheses,
   and the history predicate is inhabited by a two-step history *)
Example C02_nonvacuous :
  let pre := [97; 13; 10; 98]%N in let mid := [99; 13; 10; 100]%N in
  let suf := [101; 13; 10; 102]%N in let new := [120; 13; 10; 121; 13; 10]%N in
  clean pre mid = true /\ clean (pre ++ mid) suf = true /\
  clean pre new = true /\ clean (pre ++ new) suf = true /\
  range_of pre mid = (1, 1, 2, 1) /\
  history (pre ++ mid ++ suf) [(Some (range_of pre mid), new); (None, [122]%N)] [122]%N.
Proof.
  cbv zeta. repeat split; try reflexivity.
  apply h_range; try reflexivity. apply h_full. apply h_nil.
Qed.
Print Assumptions C02_nonvacuous.
