(* C13/Cont.v -- free-form continuation gathering (the forward part of FortranFile.get_code_line followed by the join
   of the parse loop), for lines without character literals.  Model and proofs. *)
From Coq Require Import Lia.
From FV Require Import Base.Str.

Definition AMP : char := 38%N.
Definition BANG : char := 33%N.
Definition HASH : char := 35%N.

Fixpoint find_char (c : char) (s : str) : option nat :=
  match s with [] => None | x :: r => if N.eqb x c then Some 0 else option_map S (find_char c r) end.

Fixpoint drop_blanks (s : str) : str := match s with x :: r => if N.eqb x 32 then drop_blanks r else s | [] => [] end.

(* str.rstrip() == "" for lines of blanks/tabs etc. *)
Definition all_space (s : str) : bool := forallb is_space s.

(* FREE_COMMENT ([ ]*!), PP_ANY (^[ ]*#...), FREE_CONT ([ ]*&) as direct tests on the first non-blank character *)
Definition first_nonblank (s : str) : option char := match drop_blanks s with c :: _ => Some c | [] => None end.
Definition is_comment_line (s : str) : bool := match first_nonblank s with Some c => N.eqb c BANG | None => false end.
Definition is_pp_line (s : str) : bool := match first_nonblank s with Some c => N.eqb c HASH | None => false end.
Definition strip_lead_amp (s : str) : str :=
  match drop_blanks s with c :: r => if N.eqb c AMP then r else s | [] => s end.

(* does the line continue?  the position of `&` when it comes before any `!` *)
Definition cont_pos (s : str) : option nat :=
  match find_char AMP s with
  | Some ia => match find_char BANG s with
               | Some ic => if ia <? ic then Some ia else None
               | None => Some ia
               end
  | None => None
  end.

(* the loop: [pending] is the text of the last gathered line (to be cut at its `&`), [acc] the gathered pieces so far
   (reversed); returns the pieces after the current line *)
Fixpoint gather (rest : list str) (last : str) (acc : list str) : list str :=
  match cont_pos last with
  | None => rev (last :: acc)
  | Some ia =>
    let cut := firstn ia last in
    (fix skip (rest : list str) (blanks : list str) : list str :=
       match rest with
       | [] => rev (blanks ++ cut :: acc)
       | l :: r =>
         if is_pp_line l || all_space l || is_comment_line l then skip r ([] :: blanks)
         else gather r (strip_lead_amp l) (blanks ++ cut :: acc)
       end) rest []
  end.

(* what the statement readers see: the current line and every gathered line concatenated *)
Definition joined (cur : str) (rest : list str) : str := concat (gather rest cur []).

Definition squeeze (s : str) : str := filter (fun c => negb (N.eqb c 32)) s.

(* ---- a statement split into pieces and laid out over continuation lines ---- *)
Record piece := PC { lead : nat; amp_lead : bool; body : str; filler : list str }.
(* lead blanks, optional leading `&`, the text, and blank/comment/preprocessor lines that follow this piece *)

Definition clean_body (b : str) : bool := forallb (fun c => negb (N.eqb c AMP || N.eqb c BANG || N.eqb c HASH)) b && negb (all_space b).
Definition filler_ok (l : str) : bool := is_pp_line l || all_space l || is_comment_line l.

Definition render_piece (last : bool) (p : piece) : list str :=
  (repeat 32%N (lead p) ++ (if amp_lead p then [AMP] else []) ++ body p ++ (if last then [] else [32%N; AMP])) :: filler p.

Fixpoint render (ps : list piece) : list str :=
  match ps with
  | [] => []
  | [p] => render_piece true p
  | p :: r => render_piece false p ++ render r
  end.

Definition wf_piece (p : piece) : bool := clean_body (body p) && forallb filler_ok (filler p).

(* ================= proofs ================= *)
Lemma find_char_none c s : forallb (fun x => negb (N.eqb x c)) s = true -> find_char c s = None.
Proof. induction s as [|x r IH]; cbn; [reflexivity|]. intro H. apply andb_true_iff in H as [H1 H2]. apply negb_true_iff in H1. rewrite H1. rewrite (IH H2). reflexivity. Qed.

Lemma find_char_app_none c a b : find_char c a = None -> find_char c (a ++ b) = option_map (fun n => length a + n) (find_char c b).
Proof.
  induction a as [|x r IH]; cbn; [destruct (find_char c b); reflexivity|]. destruct (N.eqb x c); [discriminate|].
  destruct (find_char c r) eqn:E; [discriminate|]. intros _. rewrite IH by reflexivity. destruct (find_char c b); reflexivity.
Qed.

Lemma find_char_repeat c n : c <> 32%N -> find_char c (repeat 32%N n) = None.
Proof. intro H. induction n as [|n IH]; cbn [repeat find_char]; [reflexivity|]. destruct (N.eqb 32 c) eqn:E; [apply N.eqb_eq in E; congruence|]. rewrite IH. reflexivity. Qed.

Definition no_char (c : char) (s : str) : Prop := find_char c s = None.

Lemma clean_no_amp b : clean_body b = true -> no_char AMP b /\ no_char BANG b /\ no_char HASH b /\ all_space b = false.
Proof.
  unfold clean_body. intro H. apply andb_true_iff in H as [H1 H2]. apply negb_true_iff in H2. repeat split; [| | |exact H2].
  all: apply find_char_none; rewrite forallb_forall in H1 |- *; intros x Hx; specialize (H1 x Hx); apply negb_true_iff in H1;
    apply negb_true_iff; apply orb_false_iff in H1 as [H1 H3]; apply orb_false_iff in H1 as [H1 H4]; assumption.
Qed.

(* a line made of blanks (and possibly the stripped leading &) followed by a clean body and " &" continues at its & *)
Lemma cont_pos_cont X b : no_char AMP X -> no_char BANG X -> no_char AMP b -> no_char BANG b ->
  cont_pos (X ++ b ++ [32%N; AMP]) = Some (length (X ++ b ++ [32%N])).
Proof.
  intros HX1 HX2 Hb1 Hb2. unfold cont_pos, no_char in *.
  rewrite (find_char_app_none AMP X _ HX1), (find_char_app_none AMP b _ Hb1). cbn [find_char N.eqb option_map].
  replace (N.eqb 32 AMP) with false by reflexivity. replace (N.eqb AMP AMP) with true by reflexivity. cbn [option_map].
  rewrite (find_char_app_none BANG X _ HX2), (find_char_app_none BANG b _ Hb2). cbn.
  f_equal. rewrite !app_length. cbn. lia.
Qed.

Lemma cont_pos_last X b : no_char AMP X -> no_char AMP b -> cont_pos (X ++ b) = None.
Proof.
  intros HX Hb. unfold cont_pos, no_char in *. rewrite (find_char_app_none AMP X _ HX), Hb. reflexivity.
Qed.

Lemma firstn_app_exact {A} (a b : list A) : firstn (length a) (a ++ b) = a.
Proof. rewrite firstn_app, Nat.sub_diag, firstn_all. cbn. apply app_nil_r. Qed.

(* skipping filler lines *)
Lemma skip_fillers fs : forallb filler_ok fs = true -> forall more cut acc blanks l',
  filler_ok l' = false ->
  (fix skip (rest : list str) (blanks : list str) : list str :=
     match rest with
     | [] => rev (blanks ++ cut :: acc)
     | l :: r => if is_pp_line l || all_space l || is_comment_line l then skip r ([] :: blanks)
                 else gather r (strip_lead_amp l) (blanks ++ cut :: acc)
     end) (fs ++ l' :: more) blanks
  = gather more (strip_lead_amp l') ((repeat [] (length fs) ++ blanks) ++ cut :: acc).
Proof.
  induction fs as [|f r IH]; intros Hf more cut acc blanks l' Hl'.
  - cbn [app length repeat]. unfold filler_ok in Hl'. rewrite Hl'. reflexivity.
  - cbn [forallb] in Hf. apply andb_true_iff in Hf as [H1 H2]. cbn [app]. unfold filler_ok in H1. rewrite H1.
    rewrite (IH H2) by exact Hl'. cbn [length repeat]. f_equal.
    replace (([] :: repeat [] (length r)) ++ blanks) with (repeat [] (length r) ++ [] :: blanks); [reflexivity|].
    clear. induction (length r) as [|n IHn]; cbn; [reflexivity|]. now rewrite IHn.
Qed.

Lemma skip_fillers_end fs : forallb filler_ok fs = true -> forall cut acc blanks,
  (fix skip (rest : list str) (blanks : list str) : list str :=
     match rest with
     | [] => rev (blanks ++ cut :: acc)
     | l :: r => if is_pp_line l || all_space l || is_comment_line l then skip r ([] :: blanks)
                 else gather r (strip_lead_amp l) (blanks ++ cut :: acc)
     end) fs blanks
  = rev ((repeat [] (length fs) ++ blanks) ++ cut :: acc).
Proof.
  induction fs as [|f r IH]; intros Hf cut acc blanks; [reflexivity|].
  cbn [forallb] in Hf. apply andb_true_iff in Hf as [H1 H2]. unfold filler_ok in H1. rewrite H1. rewrite (IH H2). cbn [length repeat]. f_equal.
  replace (([] :: repeat [] (length r)) ++ blanks) with (repeat [] (length r) ++ [] :: blanks); [reflexivity|].
  clear. induction (length r) as [|n IHn]; cbn; [reflexivity|]. now rewrite IHn.
Qed.

Lemma squeeze_app a b : squeeze (a ++ b) = squeeze a ++ squeeze b.
Proof. unfold squeeze. apply filter_app. Qed.
Lemma squeeze_repeat n : squeeze (repeat 32%N n) = [].
Proof. induction n; cbn; auto. Qed.
Lemma concat_repeat_nil {A} n (l : list (list A)) : concat (repeat [] n ++ l) = concat l.
Proof. induction n; cbn; auto. Qed.

Definition lead_text (p : piece) : str := repeat 32%N (lead p) ++ (if amp_lead p then [AMP] else []).
Definition stripped_lead (p : piece) : str := if amp_lead p then [] else repeat 32%N (lead p).

Lemma drop_blanks_repeat n r : drop_blanks (repeat 32%N n ++ r) = drop_blanks r.
Proof. induction n; cbn; auto. Qed.

(* the first non-blank character of a clean body exists, belongs to the body and is none of & ! # *)
Lemma drop_blanks_clean b sfx : clean_body b = true ->
  exists c r, drop_blanks (b ++ sfx) = c :: r /\ N.eqb c AMP = false /\ N.eqb c BANG = false /\ N.eqb c HASH = false /\ c <> 32%N.
Proof.
  unfold clean_body. intro H. apply andb_true_iff in H as [H1 H2]. apply negb_true_iff in H2.
  induction b as [|x b IH]; [discriminate|].
  cbn [forallb] in H1. apply andb_true_iff in H1 as [Hx Hb]. apply negb_true_iff in Hx.
  apply orb_false_iff in Hx as [Hx H3]. apply orb_false_iff in Hx as [Hx1 Hx2].
  cbn [app drop_blanks]. destruct (N.eqb x 32) eqn:E.
  - apply N.eqb_eq in E. subst x. cbn [all_space forallb] in H2. cbn in H2. apply IH; assumption.
  - exists x, (b ++ sfx). repeat split; auto. intro; subst. discriminate.
Qed.

Lemma strip_lead_line p sfx : clean_body (body p) = true ->
  strip_lead_amp (lead_text p ++ body p ++ sfx) = stripped_lead p ++ body p ++ sfx.
Proof.
  intro Hc. unfold strip_lead_amp, lead_text, stripped_lead. rewrite <- app_assoc, drop_blanks_repeat.
  destruct (amp_lead p); cbn [app].
  - cbn [drop_blanks]. replace (N.eqb AMP 32) with false by reflexivity. replace (N.eqb AMP AMP) with true by reflexivity. reflexivity.
  - destruct (drop_blanks_clean (body p) sfx Hc) as [c [r [E [Ha _]]]]. rewrite E, Ha. reflexivity.
Qed.

Lemma all_space_app_false a b : all_space b = false -> all_space (a ++ b) = false.
Proof. unfold all_space. intro H. rewrite forallb_app, H. apply andb_false_r. Qed.

Lemma first_nonblank_piece p sfx : clean_body (body p) = true ->
  exists c, first_nonblank (lead_text p ++ body p ++ sfx) = Some c /\ N.eqb c BANG = false /\ N.eqb c HASH = false.
Proof.
  intro Hc. unfold first_nonblank, lead_text. rewrite <- app_assoc, drop_blanks_repeat.
  destruct (amp_lead p); cbn [app].
  - cbn. exists AMP. repeat split; reflexivity.
  - destruct (drop_blanks_clean (body p) sfx Hc) as [c [r [E [_ [Hb [Hh _]]]]]]. rewrite E. exists c. auto.
Qed.

Lemma piece_line_not_filler p sfx : clean_body (body p) = true -> filler_ok (lead_text p ++ body p ++ sfx) = false.
Proof.
  intro Hc. unfold filler_ok, is_pp_line, is_comment_line.
  destruct (first_nonblank_piece p sfx Hc) as [c [E [Hb Hh]]]. rewrite E, Hb, Hh. cbn [orb].
  rewrite orb_false_r. apply all_space_app_false. unfold all_space. rewrite forallb_app.
  destruct (clean_no_amp _ Hc) as [_ [_ [_ H]]]. unfold all_space in H. rewrite H. reflexivity.
Qed.

Lemma no_char_stripped c p : c <> 32%N -> no_char c (stripped_lead p).
Proof. intro H. unfold stripped_lead, no_char. destruct (amp_lead p); [reflexivity|now apply find_char_repeat]. Qed.

Lemma squeeze_stripped p : squeeze (stripped_lead p) = [].
Proof. unfold stripped_lead. destruct (amp_lead p); [reflexivity|apply squeeze_repeat]. Qed.

Lemma render_cons p q r : render (p :: q :: r) = render_piece false p ++ render (q :: r).
Proof. reflexivity. Qed.

Lemma first_line_render q r : exists sfx, render (q :: r) = (lead_text q ++ body q ++ sfx) :: filler q ++ render r
                                          /\ sfx = (match r with [] => [] | _ => [32%N; AMP] end).
Proof.
  destruct r as [|q' r'].
  - exists []. split; [|reflexivity]. cbn [render]. unfold render_piece, lead_text. rewrite <- !app_assoc, !app_nil_r. reflexivity.
  - exists [32%N; AMP]. split; [|reflexivity]. rewrite render_cons. unfold render_piece at 1. unfold lead_text. rewrite <- !app_assoc. reflexivity.
Qed.

Theorem gather_pieces : forall rest p X acc,
  Forall (fun q => wf_piece q = true) (p :: rest) -> no_char AMP X -> no_char BANG X ->
  squeeze (concat (gather (filler p ++ render rest) (X ++ body p ++ (match rest with [] => [] | _ => [32%N; AMP] end)) acc))
  = squeeze (concat (rev acc)) ++ squeeze X ++ squeeze (concat (map body (p :: rest))).
Proof.
  induction rest as [|q r IH]; intros p X acc Hwf HX1 HX2.
  - inversion Hwf as [|? ? Hp _]; subst. unfold wf_piece in Hp. apply andb_true_iff in Hp as [Hc Hf].
    destruct (clean_no_amp _ Hc) as [Hb1 [Hb2 _]].
    cbn [render app map concat]. rewrite !app_nil_r.
    destruct (filler p) eqn:Efill; cbn [gather]; rewrite (cont_pos_last X (body p) HX1 Hb1);
      cbn [rev]; rewrite concat_app; cbn [concat]; rewrite app_nil_r, !squeeze_app; reflexivity.
  - inversion Hwf as [|? ? Hp Hrest]; subst. unfold wf_piece in Hp. apply andb_true_iff in Hp as [Hc Hf].
    destruct (clean_no_amp _ Hc) as [Hb1 [Hb2 _]].
    inversion Hrest as [|? ? Hq _]; subst. pose proof Hq as Hq'. unfold wf_piece in Hq'. apply andb_true_iff in Hq' as [Hcq _].
    destruct (first_line_render q r) as [sfx [Er Esfx]]. rewrite Er.
    (* one round of the loop *)
    assert (Hstep : gather (filler p ++ (lead_text q ++ body q ++ sfx) :: filler q ++ render r) (X ++ body p ++ [32%N; AMP]) acc =
                    gather (filler q ++ render r) (stripped_lead q ++ body q ++ sfx)
                           ((repeat [] (length (filler p)) ++ []) ++ (X ++ body p ++ [32%N]) :: acc)).
    { destruct (filler p ++ (lead_text q ++ body q ++ sfx) :: filler q ++ render r) eqn:Eall.
      - destruct (filler p); discriminate.
      - rewrite <- Eall. clear Eall.
        transitivity ((fix skip (rest : list str) (blanks : list str) : list str :=
           match rest with
           | [] => rev (blanks ++ (X ++ body p ++ [32%N]) :: acc)
           | l :: r0 => if is_pp_line l || all_space l || is_comment_line l then skip r0 ([] :: blanks)
                        else gather r0 (strip_lead_amp l) (blanks ++ (X ++ body p ++ [32%N]) :: acc)
           end) (filler p ++ (lead_text q ++ body q ++ sfx) :: filler q ++ render r) []).
        + destruct (filler p ++ (lead_text q ++ body q ++ sfx) :: filler q ++ render r) eqn:E2; [destruct (filler p); discriminate|].
          cbn [gather]. rewrite (cont_pos_cont X (body p) HX1 HX2 Hb1 Hb2).
          replace (firstn (length (X ++ body p ++ [32%N])) (X ++ body p ++ [32%N; AMP])) with (X ++ body p ++ [32%N]); [reflexivity|].
          replace (X ++ body p ++ [32%N; AMP]) with ((X ++ body p ++ [32%N]) ++ [AMP]) by (rewrite <- !app_assoc; reflexivity).
          now rewrite firstn_app_exact.
        + rewrite (skip_fillers (filler p) Hf) by (apply piece_line_not_filler; exact Hcq).
          rewrite (strip_lead_line q sfx Hcq). reflexivity. }
    cbn [app] in Hstep. rewrite Hstep. subst sfx.
    rewrite (IH q (stripped_lead q) _ Hrest (no_char_stripped AMP q ltac:(discriminate)) (no_char_stripped BANG q ltac:(discriminate))).
    rewrite app_nil_r.
    assert (Hnil : forall n (l : list str), concat (rev (repeat [] n ++ l)) = concat (rev l)).
    { intros n l. induction n as [|n IHn]; [reflexivity|]. cbn [repeat app rev]. rewrite concat_app, IHn. cbn. apply app_nil_r. }
    rewrite Hnil. cbn [rev]. rewrite concat_app. cbn [concat]. rewrite app_nil_r.
    rewrite !squeeze_app, squeeze_stripped. cbn [map concat]. rewrite !squeeze_app. cbn [squeeze filter N.eqb negb app].
    rewrite <- !app_assoc. reflexivity.
Qed.

(* the statement readers see the same text, up to blanks, however the statement is laid out over continuation lines *)
Theorem continuation_layout_irrelevant p rest :
  Forall (fun q => wf_piece q = true) (p :: rest) -> amp_lead p = false ->
  match render (p :: rest) with
  | cur :: more => squeeze (joined cur more) = squeeze (concat (map body (p :: rest)))
  | [] => False
  end.
Proof.
  intros Hwf Hamp. destruct (first_line_render p rest) as [sfx [Er Esfx]]. rewrite Er. unfold joined.
  assert (Hl : lead_text p = repeat 32%N (lead p)) by (unfold lead_text; rewrite Hamp; apply app_nil_r).
  rewrite Hl. subst sfx.
  rewrite (gather_pieces rest p (repeat 32%N (lead p)) [] Hwf (find_char_repeat AMP _ ltac:(discriminate)) (find_char_repeat BANG _ ltac:(discriminate))).
  cbn [rev concat squeeze filter app]. now rewrite squeeze_repeat.
Qed.
