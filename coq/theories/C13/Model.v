(* C13/Model.v -- re-layout of a source text: line terminators, trailing blanks, blank lines,
   added comments, letter case.  Definitions only. *)
From Coq Require Import String.
From FV Require Import Base.Str Base.Lines Base.Regex Gen.GenRegex.

(* a text from its lines and one terminator style *)
Fixpoint join (term : str) (ls : list str) : str :=
  match ls with
  | [] => []
  | [l] => l
  | l :: r => l ++ term ++ join term r
  end.

Definition T_LF : str := [LF].
Definition T_CRLF : str := [CR; LF].
Definition T_CR : str := [CR].

Definition no_break_line (l : str) : bool := forallb (fun c => negb (N.eqb c LF || N.eqb c CR)) l.

(* the comment cut of the parse loop on a statement without character literals:
   everything from the first `!` on is dropped *)
Fixpoint find_bang (s : str) : option nat :=
  match s with
  | [] => None
  | c :: r => if N.eqb c 33 then Some 0 else option_map S (find_bang r)
  end.
Definition cut_comment (s : str) : str := match find_bang s with Some i => firstn i s | None => s end.
Definition has_quote_or_bang (s : str) : bool := existsb (fun c => N.eqb c 33 || N.eqb c 34 || N.eqb c 39) s.

(* inserting k blank lines above line n (0-based) *)
Definition insert_blank (ls : list str) (n k : nat) : list str := firstn n ls ++ repeat [] k ++ skipn n ls.
Definition shift (n k i : nat) : nat := if i <? n then i else i + k.

(* the patterns that classify statements are compiled with flag I, or are exempt because they
   contain no letters that could differ in case *)
Definition case_exempt (name : String.string) : bool :=
  existsb (String.eqb name)
    ["FIXED_CONT"; "FREE_COMMENT"; "FREE_CONT"; "FREE_DOC"; "PP_ANY"; "SRC_EXT_DEFAULT"; "SRC_EXT_DEFAULT_BODY";
     "INL_parsers_internal_associate_1"; "INL_parsers_internal_parser_1"; "INL_parsers_internal_parser_2";
     "INL_parsers_internal_parser_3"; "INL_parsers_internal_parser_4"; "INL_parsers_internal_parser_7"]%string.
