(* C13/Props.v -- property theorems only.  Statement of C13: the index is invariant under
   meaning-preserving re-layout (line endings, trailing blanks, ordinary comments, blank lines
   with line numbers shifting by exactly the number inserted above, letter case, `&`
   continuation, `;` joining).
   Proved: the layout steps with algorithmic content that sit below the statement readers --
   line splitting for the three terminator styles, the line-number shift, the comment cut on
   quote-free statements, and case-invariance of EVERY pattern compiled with flag I (generic
   over the regex engine; the pattern table is regenerated from the source on every run).
   Continuation gathering (C13/Cont.v) and `;` splitting (C13/Semi.v) are modelled and proved as well; what the
   readers do with the text is covered by the metamorphic oracle of harness/props/c13.py only.  Strength: partial. *)
From Coq Require Import String.
From FV Require C13.Semi.
From FV Require Import Base.Str Base.Lines Base.LinesFacts Base.Regex Base.RegexFacts Gen.GenRegex C13.Model C13.Proofs C13.Cont.

(* LF, CRLF and CR renderings of the same lines are split into the same lines *)
Theorem terminators : forall ls,
  ls <> [] -> Forall (fun l => no_break l = true) ls ->
  splitlines (join T_LF ls) = ls /\ splitlines (join T_CRLF ls) = ls /\ splitlines (join T_CR ls) = ls.
Proof. intros ls H1 H2. repeat split; apply splitlines_join; auto. Qed.
Print Assumptions terminators.

Theorem blank_lines_shift : forall ls n k i,
  n <= length ls -> nth_error (insert_blank ls n k) (shift n k i) = nth_error ls i.
Proof. exact insert_blank_nth. Qed.
Print Assumptions blank_lines_shift.

Theorem comment_added : forall c w, has_quote_or_bang c = false -> cut_comment (c ++ 33%N :: w) = c.
Proof. exact cut_comment_added. Qed.
Print Assumptions comment_added.

(* generic: for every expression, with flag I, match/search/finditer (end, spans, captures)
   are identical on a subject and on any letter-case variant of it *)
Theorem case_invariance : forall r s s',
  case_variant s s' ->
  match_at true s r 0 = match_at true s' r 0 /\ search true s r = search true s' r /\ finditer true s r = finditer true s' r.
Proof.
  intros r s s' V. repeat split;
    [apply match_at_case_variant | apply search_case_variant | apply finditer_case_variant]; exact V.
Qed.
Print Assumptions case_invariance.

(* per-run obligation: every pattern of the generated table is compiled with flag I, except the
   listed ones whose literals contain no letters of keywords (comment markers, continuation
   marks, suffixes, line splitting) *)
Theorem generated_patterns_ignore_case :
  forallb (fun np => p_ci (snd np) || case_exempt (fst np)) all_patterns = true.
Proof. vm_compute. reflexivity. Qed.
Print Assumptions generated_patterns_ignore_case.

(* hence: every generated statement pattern classifies a line and any case variant of it alike *)
Theorem statement_patterns_case_invariant : forall name p s s',
  In (name, p) all_patterns -> case_exempt name = false -> case_variant s s' ->
  pmatch p s = pmatch p s' /\ psearch p s = psearch p s'.
Proof.
  intros name p s s' Hin Hex V.
  pose proof generated_patterns_ignore_case as G. rewrite forallb_forall in G. specialize (G _ Hin). cbn [fst snd] in G.
  rewrite Hex, orb_false_r in G.
  unfold pmatch, psearch. rewrite G. split; [apply match_at_case_variant | apply search_case_variant]; exact V.
Qed.
Print Assumptions statement_patterns_case_invariant.

(* mixed quote kinds: blanking single-quoted literals first (the scheme before fix 32a54d2)
   pairs the apostrophe inside "it's" with the opening quote of 'a!b'; the pattern the code
   uses now (STRING, literals recognised left to right) blanks exactly the two literals, so the
   `!` at offset 14 is inside a literal and the `;` at 17 is outside *)
Definition blank_spans (p : pat) (s : str) : list (nat * nat) := map (fun m => fst m) (pfinditer p s).
Theorem C13_refuted_two_pass_blanking :
  blank_spans P_SQ_STRING (s2l """it's"" // 'a!b'; integer :: zz") = [(3, 11)].
Proof. vm_compute. reflexivity. Qed.
Print Assumptions C13_refuted_two_pass_blanking.

Theorem mixed_quotes_blanked :
  blank_spans P_STRING (s2l """it's"" // 'a!b'; integer :: zz") = [(0, 6); (10, 15)].
Proof. vm_compute. reflexivity. Qed.
Print Assumptions mixed_quotes_blanked.

(* splitting a statement over `&` continuation lines, with or without a leading `&`, with blank, comment and preprocessor
   lines in between: for every statement cut into any number of pieces (no piece containing & ! # or a character literal)
   the text handed to the statement readers equals the statement, up to blanks *)
Theorem continuation_lines_preserve_statement p rest :
  Forall (fun q => wf_piece q = true) (p :: rest) -> amp_lead p = false ->
  match render (p :: rest) with
  | cur :: more => squeeze (joined cur more) = squeeze (concat (map body (p :: rest)))
  | [] => False
  end.
Proof. exact (continuation_layout_irrelevant p rest). Qed.
Print Assumptions continuation_lines_preserve_statement.

Example C13_nonvacuous :
  let ls := [s2l "program p"; []; s2l "  x = 1 "; s2l "end"] in
  splitlines (join T_CRLF ls) = ls /\ splitlines (join T_CR ls) = ls /\
  case_variant (s2l "End Program p") (s2l "END PROGRAM P") /\
  pmatchb P_END_WORD (s2l "End Program p") = true /\
  nth_error (insert_blank ls 2 3) (shift 2 3 3) = Some (s2l "end").
Proof. cbv zeta. repeat split; vm_compute; reflexivity. Qed.
Print Assumptions C13_nonvacuous.

(* joining statements with `;`: for every list of statements (every literal closed, no `;` or `!` outside literals -- inside
   literals they are allowed) joined by semicolons, with or without a trailing comment, the statements handed on are the
   statements themselves, the contents of their literals included *)
Theorem semicolon_joined_statements_read_back ss t :
  ss <> [] -> Forall (fun s => Semi.statement s = true) ss -> Semi.trailer t ->
  Semi.statements (Semi.join_semi ss ++ t) = ss.
Proof. exact (Semi.semicolon_round_trip ss t). Qed.
Print Assumptions semicolon_joined_statements_read_back.

(* the rule of the pinned revision (the copy with blanked literals is what gets split) loses the contents of literals *)
Theorem C13_refuted_split_of_blanked_copy :
  Forall (fun s => Semi.statement s = true) Semi.witness_statements /\
  Semi.join_semi Semi.witness_statements = Semi.witness_line /\
  Semi.statements_pinned Semi.witness_line <> Semi.witness_statements /\
  Semi.statements Semi.witness_line = Semi.witness_statements.
Proof. exact Semi.pinned_refuted. Qed.
Print Assumptions C13_refuted_split_of_blanked_copy.

Example semicolon_nonvacuous :
  exists ss, length ss = 3 /\ Forall (fun s => Semi.statement s = true) ss /\
             existsb (Semi.has Semi.SEMI) ss = true /\ existsb (Semi.has Semi.BANG) ss = true.
Proof. exact Semi.semicolon_nonvacuous. Qed.
Print Assumptions semicolon_nonvacuous.
